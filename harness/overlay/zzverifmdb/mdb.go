//go:build verif

// Package zzverifmdb is a small model of the wallet database (massnet.org/mass-wallet/masswallet/db
// interfaces) used by the verification harnesses: buckets are short entry lists, so that the real store
// functions of txmgr/keystore run on it unchanged under the symbolic executor and natively in replays.
//
// What it models: Get/Put/Delete/GetByPrefix/Clear/sub-buckets, write transactions that are atomic
// (Rollback restores the state at BeginTx, Commit keeps the changes), iterators that are snapshots taken at
// creation, refusal of empty keys/values like the LevelDB driver, optional fault injection (the n-th
// fallible call returns an error) and optional versioned reads (C17).
// What it does not model: key order of scans (entries are returned in insertion order, which for symbolic
// keys covers every order), durability, the real driver's key encoding (verified separately, C11).
package zzverifmdb

import (
	"bytes"
	"errors"

	mwdb "massnet.org/mass-wallet/masswallet/db"
)

var ErrInjected = errors.New("injected storage fault")

type Ent struct{ K, V []byte }

type Meta struct {
	paths []string
}

func (m *Meta) Paths() []string { return m.paths }
func (m *Meta) Name() string    { return m.paths[len(m.paths)-1] }
func (m *Meta) Depth() int      { return len(m.paths) - 1 }

type Bucket struct {
	db   *DB
	meta *Meta
	Ents []Ent
	subs []*Bucket
}

type DB struct {
	top         []*Bucket
	FaultAt     int // 0 = never; otherwise the FaultAt-th fallible call fails
	Calls       int
	FaultWrites bool // Put and Delete are fallible calls too (the interface lets them fail; the LevelDB driver's only fail on bad arguments)
	NoFault     bool // while set, fallible calls are neither counted nor failed
	inWrite     bool
	saved       []savedBucket
	Commits     int
	Rollback    int
	// versioned reads (C17): when ReadHook != nil it is consulted by Get and by iterator creation
	ReadHook func(b *Bucket, iter bool) []Ent
}

type savedBucket struct {
	b    *Bucket
	ents []Ent
	subs []*Bucket
}

func New() *DB { return &DB{} }

func (d *DB) fault() bool {
	if d.NoFault {
		return false
	}
	d.Calls++
	return d.FaultAt != 0 && d.Calls == d.FaultAt
}

func (d *DB) allBuckets() []*Bucket {
	var out []*Bucket
	var walk func(bs []*Bucket)
	walk = func(bs []*Bucket) {
		for _, b := range bs {
			out = append(out, b)
			walk(b.subs)
		}
	}
	walk(d.top)
	return out
}

// Top returns (creating if needed) a top-level bucket; harness set-up helper, never faults.
func (d *DB) Top(name string) *Bucket {
	for _, b := range d.top {
		if b.meta.Name() == name {
			return b
		}
	}
	b := &Bucket{db: d, meta: &Meta{paths: []string{"1", name}}}
	d.top = append(d.top, b)
	return b
}

// Sub returns (creating if needed) a sub-bucket; harness set-up helper.
func (b *Bucket) Sub(name string) *Bucket {
	for _, s := range b.subs {
		if s.meta.Name() == name {
			return s
		}
	}
	p := append(append([]string{}, b.meta.paths...), name)
	s := &Bucket{db: b.db, meta: &Meta{paths: p}}
	b.subs = append(b.subs, s)
	return s
}

// Set stores an entry directly (set-up helper, no fault, no validation).
func (b *Bucket) Set(k, v []byte) {
	for i := range b.Ents {
		if bytes.Equal(b.Ents[i].K, k) {
			b.Ents[i].V = v
			return
		}
	}
	b.Ents = append(b.Ents, Ent{K: k, V: v})
}

// Lookup reads an entry directly (oracle helper).
func (b *Bucket) Lookup(k []byte) []byte {
	for i := range b.Ents {
		if bytes.Equal(b.Ents[i].K, k) {
			return b.Ents[i].V
		}
	}
	return nil
}

// ---- mwdb.DB ----

func (d *DB) Close() error { return nil }

func (d *DB) BeginTx() (mwdb.DBTransaction, error) {
	if d.fault() {
		return nil, ErrInjected
	}
	d.inWrite = true
	d.saved = nil
	for _, b := range d.allBuckets() {
		d.saved = append(d.saved, savedBucket{b: b, ents: append([]Ent(nil), b.Ents...), subs: append([]*Bucket(nil), b.subs...)})
	}
	return &Tx{db: d, write: true}, nil
}

func (d *DB) BeginReadTx() (mwdb.ReadTransaction, error) {
	if d.fault() {
		return nil, ErrInjected
	}
	return &Tx{db: d}, nil
}

type Tx struct {
	db    *DB
	write bool
	done  bool
}

func (t *Tx) TopLevelBucket(name string) mwdb.Bucket {
	for _, b := range t.db.top {
		if b.meta.Name() == name {
			return b
		}
	}
	return nil
}

func (t *Tx) FetchBucket(meta mwdb.BucketMeta) mwdb.Bucket {
	if meta == nil {
		return nil
	}
	m, ok := meta.(*Meta)
	if !ok {
		return nil
	}
	for _, b := range t.db.allBuckets() {
		if b.meta == m {
			return b
		}
	}
	return nil
}

func (t *Tx) BucketNames() ([]string, error) {
	var out []string
	for _, b := range t.db.top {
		out = append(out, b.meta.Name())
	}
	return out, nil
}

func (t *Tx) CreateTopLevelBucket(name string) (mwdb.Bucket, error) {
	if !t.write {
		return nil, mwdb.ErrWriteNotAllowed
	}
	if t.TopLevelBucket(name) != nil {
		return nil, mwdb.ErrBucketExist
	}
	return t.db.Top(name), nil
}

// VerifSuspendFaults: used by cut wrappers whose storage faults are represented by the cut's own failure result.
func (t *Tx) VerifSuspendFaults(on bool) { t.db.NoFault = on }

func (t *Tx) DeleteTopLevelBucket(name string) error { return mwdb.ErrNotSupported }

func (t *Tx) Rollback() error {
	if t.write && !t.done {
		t.done = true
		t.db.Rollback++
		for _, s := range t.db.saved {
			s.b.Ents = s.ents
			s.b.subs = s.subs
		}
		// buckets created inside the transaction disappear with their parents' restored sub lists;
		// top-level creations are dropped too
		var keep []*Bucket
		for _, b := range t.db.top {
			for _, s := range t.db.saved {
				if s.b == b {
					keep = append(keep, b)
					break
				}
			}
		}
		t.db.top = keep
		t.db.inWrite = false
	}
	return nil
}

func (t *Tx) Commit() error {
	if !t.write {
		return nil
	}
	if t.done {
		return nil
	}
	if t.db.fault() {
		// a failed batch write leaves the committed state unchanged
		_ = t.Rollback()
		return ErrInjected
	}
	t.done = true
	t.db.Commits++
	t.db.inWrite = false
	t.db.saved = nil
	return nil
}

// ---- mwdb.Bucket ----

func validName(name string) bool {
	if len(name) == 0 || len(name) > 256 {
		return false
	}
	for i := 0; i < len(name); i++ {
		if name[i] == '_' {
			return false
		}
	}
	return true
}

func (b *Bucket) NewBucket(name string) (mwdb.Bucket, error) {
	if !b.db.inWrite {
		return nil, mwdb.ErrWriteNotAllowed
	}
	if !validName(name) {
		return nil, mwdb.ErrInvalidBucketName
	}
	for _, s := range b.subs {
		if s.meta.Name() == name {
			return nil, mwdb.ErrBucketExist
		}
	}
	return b.Sub(name), nil
}

func (b *Bucket) Bucket(name string) mwdb.Bucket {
	for _, s := range b.subs {
		if s.meta.Name() == name {
			return s
		}
	}
	return nil
}

func (b *Bucket) BucketNames() ([]string, error) {
	var out []string
	for _, s := range b.subs {
		out = append(out, s.meta.Name())
	}
	return out, nil
}

func (b *Bucket) DeleteBucket(name string) error {
	if !b.db.inWrite {
		return mwdb.ErrWriteNotAllowed
	}
	for i, s := range b.subs {
		if s.meta.Name() == name {
			b.subs = append(append([]*Bucket(nil), b.subs[:i]...), b.subs[i+1:]...)
			return nil
		}
	}
	return nil
}

func (b *Bucket) view(iter bool) []Ent {
	if b.db.ReadHook != nil {
		return b.db.ReadHook(b, iter)
	}
	return b.Ents
}

func (b *Bucket) Put(key, value []byte) error {
	if !b.db.inWrite {
		return mwdb.ErrWriteNotAllowed
	}
	if len(value) == 0 {
		return mwdb.ErrIllegalValue
	}
	if len(key) == 0 {
		return mwdb.ErrIllegalKey
	}
	if b.db.FaultWrites && b.db.fault() {
		return ErrInjected
	}
	k := append([]byte(nil), key...)
	v := append([]byte(nil), value...)
	for i := range b.Ents {
		if bytes.Equal(b.Ents[i].K, k) {
			ne := append([]Ent(nil), b.Ents...)
			ne[i].V = v
			b.Ents = ne
			return nil
		}
	}
	b.Ents = append(append([]Ent(nil), b.Ents...), Ent{K: k, V: v})
	return nil
}

func (b *Bucket) Get(key []byte) ([]byte, error) {
	if len(key) == 0 {
		return nil, nil
	}
	if b.db.fault() {
		return nil, ErrInjected
	}
	for _, e := range b.view(false) {
		if bytes.Equal(e.K, key) {
			return append([]byte(nil), e.V...), nil
		}
	}
	return nil, nil
}

func (b *Bucket) Delete(key []byte) error {
	if !b.db.inWrite {
		return mwdb.ErrWriteNotAllowed
	}
	if b.db.FaultWrites && b.db.fault() {
		return ErrInjected
	}
	for i := range b.Ents {
		if bytes.Equal(b.Ents[i].K, key) {
			b.Ents = append(append([]Ent(nil), b.Ents[:i]...), b.Ents[i+1:]...)
			return nil
		}
	}
	return nil
}

func (b *Bucket) Clear() error {
	if !b.db.inWrite {
		return mwdb.ErrWriteNotAllowed
	}
	if b.db.fault() {
		return ErrInjected
	}
	b.Ents = nil
	return nil
}

func (b *Bucket) GetByPrefix(prefix []byte) ([]*mwdb.Entry, error) {
	if b.db.fault() {
		return nil, ErrInjected
	}
	out := make([]*mwdb.Entry, 0)
	for _, e := range b.view(true) {
		if bytes.HasPrefix(e.K, prefix) {
			out = append(out, &mwdb.Entry{Key: append([]byte(nil), e.K...), Value: append([]byte(nil), e.V...)})
		}
	}
	return out, nil
}

func (b *Bucket) GetBucketMeta() mwdb.BucketMeta { return b.meta }

type Iter struct {
	ents []Ent
	pos  int
	err  error
}

func (b *Bucket) NewIterator(r *mwdb.Range) mwdb.Iterator {
	it := &Iter{pos: -1}
	if b.db.fault() {
		it.err = ErrInjected
		return it
	}
	for _, e := range b.view(true) {
		if r != nil {
			if len(r.Start) > 0 && bytes.Compare(e.K, r.Start) < 0 {
				continue
			}
			if len(r.Limit) > 0 && bytes.Compare(e.K, r.Limit) >= 0 {
				continue
			}
		}
		it.ents = append(it.ents, e)
	}
	return it
}

func (it *Iter) Release()      {}
func (it *Iter) Error() error  { return it.err }
func (it *Iter) Next() bool    { it.pos++; return it.pos < len(it.ents) }
func (it *Iter) Key() []byte   { return append([]byte(nil), it.ents[it.pos].K...) }
func (it *Iter) Value() []byte { return append([]byte(nil), it.ents[it.pos].V...) }
func (it *Iter) Seek(key []byte) bool {
	for i, e := range it.ents {
		if bytes.Compare(e.K, key) >= 0 {
			it.pos = i
			return true
		}
	}
	it.pos = len(it.ents)
	return false
}
