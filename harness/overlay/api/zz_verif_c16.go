//go:build verif

package api

import (
	"fmt"

	"github.com/massnetorg/mass-core/txscript"
	"massnet.org/mass-wallet/config"
	"massnet.org/mass-wallet/masswallet/utils"
	rt "massnet.org/mass-wallet/zzverifrt"
)

func c16ApiTemplate(tail int) []byte {
	s := []byte{txscript.OP_0, txscript.OP_DATA_32}
	s = append(s, rt.NondetBytes(32)...)
	if tail > 0 {
		s = append(s, byte(tail))
		s = append(s, rt.NondetBytes(tail)...)
	}
	return s
}

// c16ApiView: the API-side reading (extractAddressInfos) of a script never panics, succeeds whenever the
// wallet reader (utils.ParsePkScript) does, and then shows the same recipient / staking / binding text.
func c16ApiView(script []byte) {
	class, recipient, staking, binding, _, err := extractAddressInfos(script)
	info, perr := utils.ParsePkScript(script, config.ChainParams)
	if perr == nil {
		rt.Assert(err == nil, "api-view-succeeds-when-wallet-reads")
	}
	if perr == nil && err == nil {
		rt.Assert(class == info.ScriptClass(), "api-view-class")
		rt.Assert(recipient == info.StdEncodeAddress(), "api-view-recipient")
		if info.IsStaking() {
			rt.Assert(staking == info.SecondEncodeAddress(), "api-view-staking-address")
		}
		if info.IsBinding() {
			tt, sz := "MASS", 0
			sa := info.SecondScriptAddress()
			if len(sa) == 22 {
				if sa[20] == 1 {
					tt = "Chia"
				}
				sz = int(sa[21])
			}
			_ = fmt.Sprintf
			rt.Observe("binding", binding, tt, sz)
		}
	}
}

func VerifC16ApiViewW0()        { c16ApiView(c16ApiTemplate(0)); rt.Reach("end") }
func VerifC16ApiViewStaking()   { c16ApiView(c16ApiTemplate(8)); rt.Reach("end") }
func VerifC16ApiViewBinding20() { c16ApiView(c16ApiTemplate(20)); rt.Reach("end") }
func VerifC16ApiViewBinding22() { c16ApiView(c16ApiTemplate(22)); rt.Reach("end") }
func VerifC16ApiViewShort()     { c16ApiView(rt.NondetBytes(rt.NondetLen(0, 3))); rt.Reach("end") }
