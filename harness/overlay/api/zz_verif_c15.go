//go:build verif

package api

import (
	"massnet.org/mass-wallet/masswallet"
	rt "massnet.org/mass-wallet/zzverifrt"
)

const c15MaxAmount = 206438400 * 100000000

// c15Digit reports whether b is an ASCII digit.
func c15Digit(b byte) bool { return b >= '0' && b <= '9' }

// c15Grammar is the reference reading of a decimal numeral: D+ | D+.D* | D*.D+ .
// ok: the string is a numeral with at most 8 significant fractional digits and value <= max;
// ambiguous: one of the shapes the statement does not settle ("", ".", "1.", ".5");
// want: value * 10^8 when ok.
func c15Grammar(s string) (ok bool, ambiguous bool, want uint64) {
	dot := -1
	for i := 0; i < len(s); i++ {
		if s[i] == '.' {
			if dot >= 0 {
				return false, false, 0
			}
			dot = i
		} else if !c15Digit(s[i]) {
			return false, false, 0
		}
	}
	intPart, fracPart := s, ""
	if dot >= 0 {
		intPart, fracPart = s[:dot], s[dot+1:]
	}
	if len(intPart) == 0 || (dot >= 0 && len(fracPart) == 0) {
		ambiguous = true
	}
	// trim trailing zeros of the fraction
	for len(fracPart) > 0 && fracPart[len(fracPart)-1] == '0' {
		fracPart = fracPart[:len(fracPart)-1]
	}
	if len(fracPart) > 8 {
		return false, ambiguous, 0
	}
	var iv uint64
	for i := 0; i < len(intPart); i++ {
		if iv > 1000000000000 {
			return false, ambiguous, 0
		}
		iv = iv*10 + uint64(intPart[i]-'0')
	}
	var fv uint64
	for i := 0; i < 8; i++ {
		fv *= 10
		if i < len(fracPart) {
			fv += uint64(fracPart[i] - '0')
		}
	}
	const maxMass = 206438400
	if iv > maxMass || (iv == maxMass && fv > 0) {
		return false, ambiguous, 0
	}
	return true, ambiguous, iv*100000000 + fv
}

// VerifC15ParseShort: every byte string of length n (n fixed per case by NondetLen).
func VerifC15ParseShort() {
	n := rt.NondetLen(0, 4)
	s := string(rt.NondetBytes(n))
	amt, err := StringToAmount(s)
	ok, ambiguous, want := c15Grammar(s)
	if !ambiguous {
		rt.Assert((err == nil) == ok, "accept-iff-numeral")
	}
	if err == nil && ok {
		rt.Assert(amt.UintValue() == want, "value-times-1e8")
	}
	rt.Reach("end")
}

// c15Canonical: I or I.F, I without leading zeros (or exactly "0"), F non-empty without trailing zero.
func c15Canonical(s string) bool {
	if len(s) == 0 {
		return false
	}
	dot := -1
	for i := 0; i < len(s); i++ {
		if s[i] == '.' {
			dot = i
		}
	}
	intPart := s
	if dot >= 0 {
		intPart = s[:dot]
		if dot == len(s)-1 || s[len(s)-1] == '0' || len(s)-1-dot > 8 {
			return false
		}
	}
	if len(intPart) == 0 || (len(intPart) > 1 && intPart[0] == '0') {
		return false
	}
	return true
}

// VerifC15Format: every int64 m. Formatting succeeds iff 0 <= m <= max; the text is the canonical numeral of
// m/10^8; parsing it back returns m.
func VerifC15Format() {
	m := rt.NondetI64()
	s, err := AmountToString(m)
	inRange := m >= 0 && m <= c15MaxAmount
	rt.Assert((err == nil) == inRange, "format-succeeds-iff-in-range")
	if err == nil {
		ok, ambiguous, want := c15Grammar(s)
		rt.Assert(ok && !ambiguous, "format-is-numeral")
		rt.Assert(want == uint64(m), "format-value")
		rt.Assert(c15Canonical(s), "format-canonical")
		back, err2 := StringToAmount(s)
		rt.Assert(err2 == nil, "roundtrip-parses")
		if err2 == nil {
			rt.Assert(back.UintValue() == uint64(m), "roundtrip-value")
		}
	}
	rt.Reach("end")
}

// VerifC15FormatAgree: the wallet-side copy of AmountToString returns the same text/error as the api copy.
func VerifC15FormatAgree() {
	m := rt.NondetI64()
	s1, err1 := AmountToString(m)
	s2, err2 := masswallet.AmountToString(m)
	rt.Assert((err1 == nil) == (err2 == nil), "copies-agree-on-error")
	if err1 == nil && err2 == nil {
		rt.Assert(s1 == s2, "copies-agree-on-text")
	}
	rt.Reach("end")
}

// VerifC15ParseDigits: numerals I.F with ni integral and nf fractional digits (each digit arbitrary),
// optionally without the dot when nf == 0.
func VerifC15ParseDigits() {
	c15ParseDigits(rt.NondetLen(1, 10), rt.NondetLen(0, 9))
}

// VerifC15ParseDigitsEdge: quick-tier slice of VerifC15ParseDigits around the maximum (9-10 integral digits)
// and the precision limit (8-9 fractional digits).
func VerifC15ParseDigitsEdge() {
	c15ParseDigits(rt.NondetLen(9, 10), rt.NondetLen(8, 9))
}

func c15ParseDigits(ni, nf int) {
	withDot := nf > 0 || rt.NondetBool()
	buf := make([]byte, 0, 24)
	for i := 0; i < ni; i++ {
		buf = append(buf, byte('0'+rt.NondetRange(0, 9)))
	}
	if withDot {
		buf = append(buf, '.')
	}
	for i := 0; i < nf; i++ {
		buf = append(buf, byte('0'+rt.NondetRange(0, 9)))
	}
	s := string(buf)
	amt, err := StringToAmount(s)
	ok, ambiguous, want := c15Grammar(s)
	if !ambiguous {
		rt.Assert((err == nil) == ok, "accept-iff-numeral")
	}
	if err == nil && ok {
		rt.Assert(amt.UintValue() == want, "value-times-1e8")
	}
	rt.Reach("end")
}

// VerifC15ParseLonger: thorough-tier variant of VerifC15ParseShort (all byte strings of length 5 and 6).
func VerifC15ParseLonger() {
	n := rt.NondetLen(5, 6)
	s := string(rt.NondetBytes(n))
	amt, err := StringToAmount(s)
	ok, ambiguous, want := c15Grammar(s)
	if !ambiguous {
		rt.Assert((err == nil) == ok, "accept-iff-numeral")
	}
	if err == nil && ok {
		rt.Assert(amt.UintValue() == want, "value-times-1e8")
	}
	rt.Reach("end")
}
