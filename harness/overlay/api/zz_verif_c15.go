//go:build verif

package api

import (
	rt "massnet.org/mass-wallet/zzverifrt"
)

// c15Digit reports whether b is an ASCII digit.
func c15Digit(b byte) bool { return b >= '0' && b <= '9' }

// c15Grammar is the reference reading of a decimal numeral: D+ | D+.D* | D*.D+ .
// ok: the string is a numeral with at most 8 significant fractional digits and value <= max;
// ambiguous: one of the shapes the statement does not settle ("", ".", "1.", ".5");
// want: value * 10^8 when ok.
func c15Grammar(s string) (ok bool, ambiguous bool, want uint64) {
	dot := -1
	for i := 0; i < len(s); i++ {
		if s[i] == '.' {
			if dot >= 0 {
				return false, false, 0
			}
			dot = i
		} else if !c15Digit(s[i]) {
			return false, false, 0
		}
	}
	intPart, fracPart := s, ""
	if dot >= 0 {
		intPart, fracPart = s[:dot], s[dot+1:]
	}
	if len(intPart) == 0 || (dot >= 0 && len(fracPart) == 0) {
		ambiguous = true
	}
	// trim trailing zeros of the fraction
	for len(fracPart) > 0 && fracPart[len(fracPart)-1] == '0' {
		fracPart = fracPart[:len(fracPart)-1]
	}
	if len(fracPart) > 8 {
		return false, ambiguous, 0
	}
	var iv uint64
	for i := 0; i < len(intPart); i++ {
		if iv > 1000000000000 {
			return false, ambiguous, 0
		}
		iv = iv*10 + uint64(intPart[i]-'0')
	}
	var fv uint64
	for i := 0; i < 8; i++ {
		fv *= 10
		if i < len(fracPart) {
			fv += uint64(fracPart[i] - '0')
		}
	}
	const maxMass = 206438400
	if iv > maxMass || (iv == maxMass && fv > 0) {
		return false, ambiguous, 0
	}
	return true, ambiguous, iv*100000000 + fv
}

// VerifC15ParseShort: every byte string of length n (n fixed per case by NondetLen).
func VerifC15ParseShort() {
	n := rt.NondetLen(0, 4)
	s := string(rt.NondetBytes(n))
	amt, err := StringToAmount(s)
	ok, ambiguous, want := c15Grammar(s)
	if !ambiguous {
		rt.Assert((err == nil) == ok, "accept-iff-numeral")
	}
	if err == nil && ok {
		rt.Assert(amt.UintValue() == want, "value-times-1e8")
	}
	rt.Reach("end")
}
