//go:build verif

// Package zzverifrt is injected into the wallet module by overlay. Under the symbolic executor every
// function here is an engine intrinsic; natively (counterexample replay, translator validation) the
// Nondet functions read the recorded vector.
package zzverifrt

import (
	"encoding/json"
	"fmt"
	"os"
	"strconv"
	"time"
)

type AssumeFailed struct{}
type AssertFailed struct{ Label string }

var (
	vec      []string
	pos      int
	Observed []string
	Reached  = map[string]bool{}
	Cuts     = map[string]bool{}
	Failures []string
)

type replayFile struct {
	Harness string   `json:"harness"`
	Values  []string `json:"values"`
	Cuts    []string `json:"cuts"`
}

// LoadReplay reads the replay vector named by VERIF_REPLAY.
func LoadReplay() (string, error) {
	p := os.Getenv("VERIF_REPLAY")
	if p == "" {
		return "", fmt.Errorf("VERIF_REPLAY not set")
	}
	b, err := os.ReadFile(p)
	if err != nil {
		return "", err
	}
	var rf replayFile
	if err := json.Unmarshal(b, &rf); err != nil {
		return "", err
	}
	Reset(rf.Values, rf.Cuts)
	return rf.Harness, nil
}

func Reset(values []string, cuts []string) {
	vec = values
	pos = 0
	Observed = nil
	Reached = map[string]bool{}
	Failures = nil
	Cuts = map[string]bool{}
	for _, c := range cuts {
		Cuts[c] = true
	}
}

func next() uint64 {
	if pos >= len(vec) {
		panic(AssumeFailed{})
	}
	s := vec[pos]
	pos++
	if len(s) > 0 && s[0] == '-' {
		v, _ := strconv.ParseInt(s, 10, 64)
		return uint64(v)
	}
	v, _ := strconv.ParseUint(s, 10, 64)
	return v
}

func NondetU8() uint8   { return uint8(next()) }
func NondetU16() uint16 { return uint16(next()) }
func NondetU32() uint32 { return uint32(next()) }
func NondetU64() uint64 { return next() }
func NondetI64() int64  { return int64(next()) }
func NondetI32() int32  { return int32(next()) }
func NondetInt() int    { return int(next()) }
func NondetBool() bool  { return next() != 0 }

func NondetBytes(n int) []byte {
	b := make([]byte, n)
	for i := range b {
		b[i] = NondetU8()
	}
	return b
}

func NondetLen(lo, hi int) int {
	v := int(int64(next()))
	if v < lo || v > hi {
		panic(AssumeFailed{})
	}
	return v
}

// PadBigEndian: slice left-padded with zeros to length n (slice itself when it is at least n long). Under the
// symbolic executor it consumes the undecided-length bytes of a big.Int without forking on the length: it is the
// summary of keystore.padByteSlice used by the C13 harnesses (and checked against the real function there).
func PadBigEndian(slice []byte, n int) []byte {
	if len(slice) >= n {
		return slice
	}
	out := make([]byte, n)
	copy(out[n-len(slice):], slice)
	return out
}

// NondetRange returns an arbitrary integer in [lo,hi].
func NondetRange(lo, hi int) int {
	v := int(int64(next()))
	if v < lo || v > hi {
		panic(AssumeFailed{})
	}
	return v
}

func Assume(c bool) {
	if !c {
		panic(AssumeFailed{})
	}
}

func Assert(c bool, label string) {
	if !c {
		Failures = append(Failures, label)
		panic(AssertFailed{label})
	}
}

func Reach(label string) { Reached[label] = true }

func Observe(label string, vs ...interface{}) {
	s := label
	for _, v := range vs {
		s += " " + obs(v)
	}
	Observed = append(Observed, s)
}

func obs(v interface{}) string {
	switch x := v.(type) {
	case nil:
		return "<nil>"
	case string:
		return strconv.Quote(x)
	case []byte:
		s := "["
		for i, b := range x {
			if i > 0 {
				s += " "
			}
			s += strconv.Itoa(int(b))
		}
		return s + "]"
	case bool:
		if x {
			return "true"
		}
		return "false"
	case error:
		return "error"
	case int:
		return strconv.FormatUint(uint64(x), 10)
	case int64:
		return strconv.FormatUint(uint64(x), 10)
	case int32:
		return strconv.FormatUint(uint64(uint32(x)), 10)
	case int16:
		return strconv.FormatUint(uint64(uint16(x)), 10)
	case int8:
		return strconv.FormatUint(uint64(uint8(x)), 10)
	}
	return fmt.Sprint(v)
}

func CutActive(name string) bool { return Cuts[name] }

// Draws: the number of Nondet values read so far (native side only; compared with the symbolic path's count).
func Draws() int { return pos }

// Symbolic reports whether the harness runs under the symbolic executor.
func Symbolic() bool { return false }

// RunNative runs a harness natively and classifies the outcome:
// "ok", "assume" (vector does not satisfy the assumptions), "assert:<label>", "panic:<text>".
func RunNative(h func()) (outcome string) {
	defer func() {
		if r := recover(); r != nil {
			switch x := r.(type) {
			case AssumeFailed:
				outcome = "assume"
			case AssertFailed:
				outcome = "assert:" + x.Label
			default:
				outcome = "panic:" + fmt.Sprint(r)
			}
		}
	}()
	h()
	return "ok"
}

// GoCalls: the number of go statements executed so far on this path (symbolic executor only: goroutines are
// recorded, not run; natively -1).
func GoCalls() int { return -1 }

// Secret marks the symbolic inputs inside vs as secret: from here on, under the symbolic executor, every text sink
// the code reaches (fmt.Errorf, errors.New, status errors, the fmt print family, the logging package) carries the
// obligation that what it formats does not depend on them (DESIGN 5/C05, engine/symex/secret.go). Natively a no-op.
func Secret(vs ...interface{}) {}

// OneWay is the model of a one-way function (private key -> public key): under the symbolic executor an
// uninterpreted function whose result counts as public; natively (and on constant input) a fixed mixing function.
func OneWay(in []byte, n int) []byte {
	out := make([]byte, n)
	var h uint32 = 2166136261
	for i := 0; i < n; i++ {
		for _, b := range in {
			h = (h ^ uint32(b)) * 16777619
		}
		h = (h ^ uint32(i)) * 16777619
		out[i] = byte(h >> 13)
	}
	return out
}

// TextHasSecret: does the text contain one of the secret encodings? Native side of the secret-free-text obligation
// (under the symbolic executor the sinks themselves are the obligations and this returns false).
func TextHasSecret(text string, secrets ...string) bool {
	for _, s := range secrets {
		if s == "" {
			continue
		}
		for i := 0; i+len(s) <= len(text); i++ {
			if text[i:i+len(s)] == s {
				return true
			}
		}
	}
	return false
}

var joinCh chan struct{}

// Blocked runs f as another goroutine would run it while the caller holds whatever locks it holds, and reports
// whether f was parked on one of them. Under the symbolic executor f is executed up to the Lock that is held (its
// effects up to there persist, the rest never happens); natively f runs in a goroutine and counts as parked when it
// has not returned after 300 ms - Join then waits for it (call it after the lock was released).
func Blocked(f func()) bool {
	done := make(chan struct{})
	go func() { defer close(done); f() }()
	select {
	case <-done:
		joinCh = nil
		return false
	case <-time.After(300 * time.Millisecond):
		joinCh = done
		return true
	}
}

func Join() {
	if joinCh != nil {
		<-joinCh
		joinCh = nil
	}
}
