//go:build verif

package masswallet

import (
	"github.com/massnetorg/mass-core/consensus/forks"
	"github.com/massnetorg/mass-core/txscript"
	"github.com/massnetorg/mass-core/wire"
	"massnet.org/mass-wallet/config"
	"massnet.org/mass-wallet/masswallet/keystore"
	"massnet.org/mass-wallet/masswallet/txmgr"
	"massnet.org/mass-wallet/masswallet/utils"
	rt "massnet.org/mass-wallet/zzverifrt"
)

const c19WID = "ac10aaaaaaaaaaaaaaaaaaaaaaaaaaaaaaaaaaaaaa"

// Contract stubs for the two previous-transaction look-ups (cuts; the real functions read the transaction
// store and the node's block files). Contracts, read off the callees:
//
//	existsMsgTx success  => a transaction that HAS an output at the requested index (TxStore.ExistsTx only
//	                        succeeds through a credit of that index) and a non-nil block;
//	existsUnminedTx success => the pending transaction of that hash - no guarantee on the index, no block;
//	otherwise txmgr.ErrNotFound.
var c19Prev struct {
	mode  int // 0 mined, 1 pending only, 2 unknown
	tx    *wire.MsgTx
	block *txmgr.BlockMeta
}

func (w *WalletManager) existsMsgTx(out *wire.OutPoint) (*wire.MsgTx, *txmgr.BlockMeta, error) {
	if !rt.CutActive("existsMsgTx") {
		return w.existsMsgTx__real(out)
	}
	if c03Prevs != nil {
		if p := c03Prevs[out.Hash[0]]; p != nil && p.mode == 0 {
			return p.tx, p.block, nil
		}
		return nil, nil, txmgr.ErrNotFound
	}
	if c19Prev.mode == 0 {
		return c19Prev.tx, c19Prev.block, nil
	}
	return nil, nil, txmgr.ErrNotFound
}

func (w *WalletManager) existsUnminedTx(hash *wire.Hash) (*wire.MsgTx, error) {
	if !rt.CutActive("existsUnminedTx") {
		return w.existsUnminedTx__real(hash)
	}
	if c03Prevs != nil {
		if p := c03Prevs[hash[0]]; p != nil && p.mode == 1 {
			return p.tx, nil
		}
		return nil, txmgr.ErrNotFound
	}
	if c19Prev.mode == 1 {
		return c19Prev.tx, nil
	}
	return nil, txmgr.ErrNotFound
}

// c19Script: an output script of one of the three wallet-relevant shapes (arbitrary payload) or a short
// arbitrary one.
func c19Script() []byte {
	s := []byte{txscript.OP_0, txscript.OP_DATA_32}
	s = append(s, rt.NondetBytes(32)...)
	switch rt.NondetLen(0, 4) {
	case 1:
		s = append(append(s, 8), rt.NondetBytes(8)...)
	case 2:
		s = append(append(s, 20), rt.NondetBytes(20)...)
	case 3:
		s = append(append(s, 22), rt.NondetBytes(22)...)
	case 4:
		return rt.NondetBytes(2)
	}
	return s
}

// VerifC19ConstructTxIn: CreateRawTransaction's input resolution for one client-supplied input (any txid the
// wallet knows as mined or only as pending, any vout, any lock time) never panics.
func VerifC19ConstructTxIn()  { c19ConstructTxIn(1) }
func VerifC19ConstructTxIn2() { c19ConstructTxIn(2) }

func c19ConstructTxIn(nOut int) {
	ks := keystore.VerifNewManager(c19WID)
	w := &WalletManager{ksmgr: ks, chainParams: config.ChainParams}
	prev := wire.NewMsgTx()
	for i := 0; i < nOut; i++ {
		v := rt.NondetI64()
		rt.Assume(v >= 0 && v <= 206438400*100000000)
		script := c19Script()
		prev.AddTxOut(wire.NewTxOut(v, script))
		// the output may or may not belong to the wallet
		if rt.NondetBool() {
			if ps, err := utils.ParsePkScript(script, config.ChainParams); err == nil {
				keystore.VerifAddAddress(ks, c19WID, ps.StdEncodeAddress())
			}
		}
	}
	vout := rt.NondetU32()
	c19Prev.tx = prev
	c19Prev.mode = rt.NondetLen(0, 2)
	c19Prev.block = nil
	if c19Prev.mode == 0 {
		rt.Assume(int(vout) < nOut) // contract of the mined look-up
		c19Prev.block = &txmgr.BlockMeta{Height: rt.NondetU64()}
	}
	inputs := []*TxIn{{TxId: "00000000000000000000000000000000000000000000000000000000000000aa", Vout: vout}}
	mtx, senders, _, err := w.constructTxIn(inputs, rt.NondetU64())
	if err == nil {
		rt.Assert(mtx != nil && len(mtx.TxIn) == 1 && len(senders) == 1, "one-input-resolved")
		rt.Assert(mtx.TxIn[0].PreviousOutPoint.Index == vout, "input-spends-requested-output")
	}
	if c19Prev.mode == 2 {
		rt.Assert(err != nil, "unknown-previous-transaction-refused")
	}
	rt.Reach("end")
}

var c19Flags struct {
	found bool
	spent bool
}

func (w *WalletManager) existsOutPoint(out *wire.OutPoint) (*txmgr.UtxoFlags, error) {
	if !rt.CutActive("existsOutPoint") {
		return w.existsOutPoint__real(out)
	}
	if !c19Flags.found {
		return nil, txmgr.ErrNotFound
	}
	return &txmgr.UtxoFlags{Spent: c19Flags.spent}, nil
}

// c19NewEngineStub replaces txscript.NewEngine under the symbolic executor (the script VM is outside reach);
// natively the real engine runs.
func c19NewEngineStub(scriptPubKey []byte, tx *wire.MsgTx, txIdx int, flags txscript.ScriptFlags,
	sigCache *txscript.SigCache, hashCache *txscript.TxSigHashes, inputAmount int64) (*txscript.Engine, error) {
	return nil, ErrInvalidParameter
}

// VerifC19SignPendingInput: signing a transaction whose input spends an output of a transaction the wallet
// knows as mined, only as pending, or not at all never panics. SigHashSingle without a matching output skips
// the signature itself (no key material needed), every other step of signWitnessTx runs.
func VerifC19SignPendingInput() {
	ks := keystore.VerifNewManager(c19WID)
	w := &WalletManager{ksmgr: ks, chainParams: config.ChainParams}
	prev := wire.NewMsgTx()
	nOut := rt.NondetLen(1, 2)
	for i := 0; i < nOut; i++ {
		prev.AddTxOut(wire.NewTxOut(1000, c19Script()))
	}
	vout := rt.NondetU32()
	c19Prev.tx = prev
	c19Prev.mode = rt.NondetLen(0, 2)
	c19Prev.block = nil
	if c19Prev.mode == 0 {
		rt.Assume(int(vout) < nOut)
		c19Prev.block = &txmgr.BlockMeta{Height: rt.NondetU64()}
	}
	c19Flags.found = rt.NondetBool()
	c19Flags.spent = rt.NondetBool()
	tx := wire.NewMsgTx()
	var h wire.Hash
	h[0] = 0xaa
	tx.AddTxIn(wire.NewTxIn(wire.NewOutPoint(&h, vout), nil))
	err := w.signWitnessTx([]byte("passphrase"), tx, txscript.SigHashSingle, config.ChainParams)
	if c19Prev.mode == 2 {
		rt.Assert(err != nil, "unknown-previous-transaction-refused")
	}
	// C03: the input has no witness and SigHashSingle cannot sign it (there is no output with its index), so
	// the script engine cannot be satisfied: success must never be reported for it
	rt.Assert(err != nil, "unsigned-input-is-never-reported-signed")
	rt.Assert(len(tx.TxIn) == 1 && len(tx.TxIn[0].Witness) == 0 && tx.TxIn[0].PreviousOutPoint.Index == vout && len(tx.TxOut) == 0, "a-refused-signing-alters-nothing")
	rt.Reach("end")
}

// ---- call-site cut "scriptEngine": signWitnessTx's calls of txscript.NewEngine and Engine.Execute go through these
// wrappers (cuts.json "callsites": the call text is rewritten in the overlay copy of tx.go). With the cut off they are
// the real calls. With it on, the flags each input is verified under are recorded and the engine accepts (contract:
// every input is satisfied) - symbolically and natively alike, so that what is decided is which rules signWitnessTx
// verifies an input under, not what the script VM does with them.
var c03Engine struct {
	idx   []int
	flags []txscript.ScriptFlags
}

func verifNewEngine(scriptPubKey []byte, tx *wire.MsgTx, txIdx int, flags txscript.ScriptFlags,
	sigCache *txscript.SigCache, hashCache *txscript.TxSigHashes, inputAmount int64) (*txscript.Engine, error) {
	if rt.CutActive("scriptEngine") {
		c03Engine.idx = append(c03Engine.idx, txIdx)
		c03Engine.flags = append(c03Engine.flags, flags)
		return nil, nil
	}
	return txscript.NewEngine(scriptPubKey, tx, txIdx, flags, sigCache, hashCache, inputAmount)
}

func verifExecute(vm *txscript.Engine) error {
	if rt.CutActive("scriptEngine") {
		return nil
	}
	return vm.Execute()
}

type c03Prev struct {
	mode  int // 0 mined, 1 pending only
	tx    *wire.MsgTx
	block *txmgr.BlockMeta
}

// c03Prevs, when set, replaces c19Prev in the look-up cuts: previous transactions by the first byte of their id.
var c03Prevs map[byte]*c03Prev

// VerifC03ScriptFlags: every input of a multi-input transaction is verified under the rules of the block that will
// hold it, judged by *its own* previous transaction: the MASSIP0002 rules exactly when that transaction is pending or
// was mined at a height where the warm-up applies. Three inputs, each spending an output of one of two previous
// transactions (A, B) in an arbitrary pattern, A and B independently mined at an arbitrary height or pending.
func VerifC03ScriptFlags() {
	ks := keystore.VerifNewManager(c19WID)
	w := &WalletManager{ksmgr: ks, chainParams: config.ChainParams}
	c03Prevs = map[byte]*c03Prev{}
	for _, id := range []byte{0xaa, 0xbb} {
		p := &c03Prev{tx: wire.NewMsgTx(), mode: rt.NondetLen(0, 1)}
		for i := 0; i < 3; i++ {
			p.tx.AddTxOut(wire.NewTxOut(1000, []byte{txscript.OP_0, txscript.OP_DATA_32}))
		}
		if p.mode == 0 {
			p.block = &txmgr.BlockMeta{Height: rt.NondetU64()}
		}
		c03Prevs[id] = p
		if id == 0xaa {
			c03Saved[0] = p
		} else {
			c03Saved[1] = p
		}
	}
	c19Flags.found, c19Flags.spent = true, false
	c03Engine.idx, c03Engine.flags = nil, nil
	tx := wire.NewMsgTx()
	var ids [3]byte
	for i := range ids {
		ids[i] = 0xaa
		if rt.NondetBool() {
			ids[i] = 0xbb
		}
		var h wire.Hash
		h[0] = ids[i]
		tx.AddTxIn(wire.NewTxIn(wire.NewOutPoint(&h, uint32(i)), nil))
	}
	// SigHashSingle without outputs: the signature step is skipped for every input (no key material needed)
	err := w.signWitnessTx([]byte("passphrase"), tx, txscript.SigHashSingle, config.ChainParams)
	c03Prevs = nil
	rt.Assert(err == nil, "accepted-by-the-engine-means-signed")
	rt.Assert(len(c03Engine.idx) == 3, "every-input-is-verified")
	for i := 0; i < len(c03Engine.idx) && i < 3; i++ {
		rt.Assert(c03Engine.idx[i] == i, "inputs-verified-in-order")
	}
	for i := 0; i < 3 && i < len(c03Engine.flags); i++ {
		want := txscript.StandardVerifyFlags
		var prev *c03Prev
		if ids[i] == 0xaa {
			prev = c03PrevOf(0)
		} else {
			prev = c03PrevOf(1)
		}
		if prev.mode == 1 || forks.EnforceMASSIP0002WarmUp(prev.block.Height) {
			want |= txscript.ScriptMASSip2
		}
		rt.Assert(c03Engine.flags[i] == want, "input-verified-under-the-rules-of-its-own-previous-transaction")
	}
	rt.Reach("end")
}

var c03Saved [2]*c03Prev

func c03PrevOf(i int) *c03Prev { return c03Saved[i] }
