//go:build verif

package masswallet

import (
	"bytes"
	"encoding/binary"

	"github.com/massnetorg/mass-core/wire"
	"massnet.org/mass-wallet/config"
	"massnet.org/mass-wallet/masswallet/keystore"
	"massnet.org/mass-wallet/masswallet/txmgr"
	rt "massnet.org/mass-wallet/zzverifrt"
)

// ---- cut: the height the node's chain index has reached (read from the node's blockchain object) ----

var c06IndexHeight uint64

func (w *WalletManager) ChainIndexerSyncedHeight() uint64 {
	if !rt.CutActive("indexHeight") {
		return w.ChainIndexerSyncedHeight__real()
	}
	return c06IndexHeight
}

func (n *c01Node) FetchBlockByHeight(height uint64) (*wire.MsgBlock, error) {
	if n.fail() {
		return nil, errC01Node
	}
	if height < n.base || height-n.base >= uint64(len(n.best)) {
		return nil, nil
	}
	return n.best[height-n.base], nil
}

// VerifC06CatchUp: a restart. The store was left synced to block A (every commit is one whole block, so
// that is what a crash leaves); the node's chain has b = 0..3 further blocks. The real NtfnsHandler.Start
// (catch-up loop over the real processConnectedBlock) either brings the recorded chain to the node's tip and
// launches the follower and the worker, or - when a node request or a database call fails - stops with an error
// at a block boundary: every block before the failure is fully recorded, none after it, no goroutine is
// launched; starting again then completes, and the end state is the same as without the failure.
func VerifC06CatchUp() { c06CatchUp(2, 3) }

// deeper: stale branch up to 3 blocks, node up to 5 blocks ahead
func VerifC06CatchUpDeep() { c06CatchUp(3, 5) }

func c06CatchUp(maxA, maxB int) {
	st := txmgr.VerifNewStoresWithKeystoreManager([]byte("DJr6BomK"))
	node := &c01Node{}
	w := &WalletManager{config: &config.Config{Wallet: config.NewDefWalletConfig()}, db: st.DB, chainParams: config.ChainParams,
		ksmgr: st.Ks, bucketMeta: st.Meta, utxoStore: st.Utxo, txStore: st.Tx, syncStore: st.Sync, chainFetcher: node}
	c01HdrReg, c01HdrIDs, c01IDSeeds = nil, nil, nil
	for i := 0; i < 2+maxA+maxB; i++ {
		var id wire.Hash
		copy(id[:], rt.NondetBytes(32))
		for _, o := range c01IDSeeds {
			rt.Assume(o != id)
		}
		c01IDSeeds = append(c01IDSeeds, id)
	}
	H := rt.NondetU64()
	rt.Assume(H >= 2 && H < 1<<56)
	b := rt.NondetLen(0, maxB)
	// the store may have been left on a branch the node has since abandoned: a = 0..2 stale blocks above A
	// (the catch-up then has to walk back before it can connect; only when the node's branch is longer)
	a := rt.NondetLen(0, maxA)
	rt.Assume(a == 0 || b > a)
	P := c01Block(H-1, wire.Hash{}, 10)
	A := c01Block(H, P.BlockHash(), 11)
	best := []*wire.MsgBlock{P, A}
	for i := 1; i <= b; i++ {
		best = append(best, c01Block(H+uint64(i), best[len(best)-1].BlockHash(), 2000+int64(i)))
	}
	stale := []*wire.MsgBlock{P, A}
	for i := 1; i <= a; i++ {
		stale = append(stale, c01Block(H+uint64(i), stale[len(stale)-1].BlockHash(), 1000+int64(i)))
	}
	for _, x := range stale[2:] {
		for _, y := range best[2:] {
			rt.Assume(x.BlockHash() != y.BlockHash())
		}
	}
	var left []txmgr.BlockMeta
	for _, blk := range stale {
		left = append(left, c01Meta(blk))
	}
	st.VerifSetSyncedChain(left)
	node.base, node.best, node.blocks = H-1, best, append(append([]*wire.MsgBlock{}, best...), stale[2:]...)
	c06IndexHeight = H + uint64(b)
	newHandler := func() *NtfnsHandler {
		h, err := NewNtfnsHandler(w)
		rt.Assert(err == nil && h != nil, "handler-created")
		return h
	}
	h := newHandler()
	node.failAt = rt.NondetLen(0, 7)
	st.DB.Calls = 0
	st.DB.FaultWrites = true
	st.DB.FaultAt = rt.NondetLen(0, 30)
	err := h.Start()
	faulted := st.DB.FaultAt != 0 && st.DB.Calls >= st.DB.FaultAt || node.failAt != 0 && node.calls >= node.failAt
	st.DB.FaultAt, node.failAt = 0, 0
	key := func(x uint64) []byte {
		k := make([]byte, 8)
		binary.BigEndian.PutUint64(k, x)
		return k
	}
	recorded := func(upto int) bool { // the recorded chain is exactly best[0..upto]
		if st.VerifSyncRecords() != upto+2 || !bytes.Equal(st.VerifSyncedToHeight(), key(best[upto].Header.Height)) {
			return false
		}
		for i := 0; i <= upto; i++ {
			r := st.VerifSyncedRecord(best[i].Header.Height)
			bh := best[i].BlockHash()
			if len(r) != 36 || !bytes.Equal(r[:32], bh[:]) {
				return false
			}
		}
		return true
	}
	if err == nil {
		rt.Assert(recorded(len(best)-1), "catch-up-records-the-nodes-chain")
		rt.Assert(h.bestBlock.Height == H+uint64(b) && h.bestBlock.Hash == best[len(best)-1].BlockHash(), "follower-tip-is-the-nodes-tip")
		rt.Assert(rt.GoCalls() == 2 || !rt.Symbolic(), "follower-and-worker-launched")
		if !rt.Symbolic() {
			close(h.quit) // native replay: the goroutines Start launched are real
		}
		rt.Reach("started")
	} else {
		rt.Assert(faulted, "start-fails-only-when-something-failed")
		rt.Assert(rt.GoCalls() == 0 || !rt.Symbolic(), "nothing-launched-after-a-failed-start")
		// stopped at a block boundary: some prefix of the node's chain is recorded, whole - or, when the failure
		// came while the stale branch was being replaced, the store is exactly as it was left
		okPrefix := false
		for k := 1; k < len(best); k++ {
			if recorded(k) {
				okPrefix = true
			}
		}
		if a > 0 && st.VerifSyncRecords() == len(stale)+1 && bytes.Equal(st.VerifSyncedToHeight(), key(stale[len(stale)-1].Header.Height)) {
			same := true
			for _, blk := range stale {
				r := st.VerifSyncedRecord(blk.Header.Height)
				bh := blk.BlockHash()
				if len(r) != 36 || !bytes.Equal(r[:32], bh[:]) {
					same = false
				}
			}
			if same {
				okPrefix = true
			}
		}
		rt.Assert(okPrefix, "failed-start-leaves-a-whole-block-prefix")
		// the process is started again (a new handler reads the resume point from the store)
		h2 := newHandler()
		err2 := h2.Start()
		rt.Assert(err2 == nil, "second-start-succeeds")
		rt.Assert(recorded(len(best)-1), "second-start-completes-the-chain")
		rt.Assert(h2.bestBlock.Height == H+uint64(b) && h2.bestBlock.Hash == best[len(best)-1].BlockHash(), "second-start-follower-tip")
		if !rt.Symbolic() {
			close(h2.quit)
		}
		rt.Reach("restarted")
	}
	rt.Reach("end")
}

// VerifC06WorkerResume: what the background worker rebuilds from the stored wallet statuses when the process
// starts again (the task queue itself is not persisted): the real worker() start-up pass over three wallets with
// arbitrary statuses queues exactly one removal task for every wallet marked for removal, exactly one import
// task for every wallet whose rescan has not finished, and nothing for a finished wallet. (quit is closed, so
// the worker returns right after the pass.)
// ---- cut: the tasks themselves (an import round is C07's harness, a removal C08's). With quit closed and tasks queued
// the worker's select may run a queued task before it sees quit (Go picks among ready cases at random; the symbolic
// executor explores every choice): under the cut a task that is run is counted and reports "finished". ----

var c06Ran struct{ imports, removes []string }

func (h *NtfnsHandler) asyncImport(walletId string) (bool, error) {
	if !rt.CutActive("tasks") {
		return h.asyncImport__real(walletId)
	}
	c06Ran.imports = append(c06Ran.imports, walletId)
	return true, nil
}

func (h *NtfnsHandler) asyncRemove(walletId string) error {
	if !rt.CutActive("tasks") {
		return h.asyncRemove__real(walletId)
	}
	c06Ran.removes = append(c06Ran.removes, walletId)
	return nil
}

func VerifC06WorkerResume() {
	c06Ran.imports, c06Ran.removes = nil, nil
	st := txmgr.VerifNewStoresWithKeystoreManager([]byte("DJr6BomK"))
	w := &WalletManager{config: &config.Config{Wallet: config.NewDefWalletConfig()}, db: st.DB, chainParams: config.ChainParams,
		ksmgr: st.Ks, bucketMeta: st.Meta, utxoStore: st.Utxo, txStore: st.Tx, syncStore: st.Sync}
	ids := []string{"ac10aaaaaaaaaaaaaaaaaaaaaaaaaaaaaaaaaaaaaa", "ac10bbbbbbbbbbbbbbbbbbbbbbbbbbbbbbbbbbbbbb", "ac10cccccccccccccccccccccccccccccccccccccc"}
	var wantImport, wantRemove [3]bool
	for i, id := range ids {
		v := make([]byte, 9)
		switch rt.NondetLen(0, 2) {
		case 0: // finished
			binary.BigEndian.PutUint64(v, txmgr.WalletSyncedDone)
		case 1: // rescan in progress at an arbitrary cursor
			c := rt.NondetU64()
			rt.Assume(c != txmgr.WalletSyncedDone)
			binary.BigEndian.PutUint64(v, c)
			wantImport[i] = true
		case 2: // finished and marked for removal
			binary.BigEndian.PutUint64(v, txmgr.WalletSyncedDone)
			v[8] = txmgr.WalletFlagsRemove
			wantRemove[i] = true
		}
		st.WS.Set([]byte(id), v)
	}
	st.VerifSetSyncedChain([]txmgr.BlockMeta{{Height: 5}})
	h, err := NewNtfnsHandler(w)
	rt.Assert(err == nil && h != nil && h.taskChan != nil, "handler-created")
	if err != nil || h == nil {
		rt.Reach("end")
		return
	}
	close(h.quit)
	h.quitWg.Add(1)
	worker(h)
	var gotImport, gotRemove [3]int
	n := len(h.taskChan.C)
	for k := 0; k < n; k++ {
		t := <-h.taskChan.C
		for i, id := range ids {
			if t.walletId == id {
				if t.taskType == WalletTaskImport {
					gotImport[i]++
				} else if t.taskType == WalletTaskRemove {
					gotRemove[i]++
				}
			}
		}
	}
	// a task the worker already ran (before it saw quit) counts as resumed
	for i, id := range ids {
		for _, r := range c06Ran.imports {
			if r == id {
				gotImport[i]++
			}
		}
		for _, r := range c06Ran.removes {
			if r == id {
				gotRemove[i]++
			}
		}
	}
	for i := range ids {
		wi, wr := 0, 0
		if wantImport[i] {
			wi = 1
		}
		if wantRemove[i] {
			wr = 1
		}
		rt.Assert(gotImport[i] == wi, "unfinished-rescan-resumed-exactly-once")
		rt.Assert(gotRemove[i] == wr, "pending-removal-resumed-exactly-once")
	}
	rt.Reach("end")
}

// ---- fast-forward decision at start-up ----

var c06ShaByHeight int

func (n *c01Node) FetchBlockShaByHeight(height uint64) (*wire.Hash, error) {
	c06ShaByHeight++
	if n.fail() {
		return nil, errC01Node
	}
	if height < n.base || height-n.base >= uint64(len(n.best)) {
		return nil, errC01Node
	}
	h := n.best[height-n.base].BlockHash()
	return &h, nil
}

// c06Window: how far behind the node's tip the start-up catch-up stops skipping (the literal 2000 in Start).
// Under the symbolic executor the literal is scaled down to 1 (registry option scale_consts) and this function is
// redirected to c06WindowModel; native replays run the real distance with 2000 further blocks.
func c06Window() int      { return 2000 }
func c06WindowModel() int { return 1 }

// VerifC06FastForward: a restart with the node far ahead. Start may skip the contents of old blocks (recording
// their ids only) only when no wallet is being followed: with two wallets of arbitrary status (finished,
// rescanning, finished and marked for removal), if one of them is a finished wallet that is not being removed,
// every block between the stored tip and the node's tip is fetched and filtered, none is skipped; in every case
// the recorded chain ends at the node's tip.
func VerifC06FastForward() {
	st := txmgr.VerifNewStoresWithKeystoreManager([]byte("DJr6BomK"))
	node := &c01Node{}
	w := &WalletManager{config: &config.Config{Wallet: config.NewDefWalletConfig()}, db: st.DB, chainParams: config.ChainParams,
		ksmgr: st.Ks, bucketMeta: st.Meta, utxoStore: st.Utxo, txStore: st.Tx, syncStore: st.Sync, chainFetcher: node}
	c01HdrReg, c01HdrIDs, c01IDSeeds = nil, nil, nil
	const maxB = 3
	for i := 0; i < 2+maxB+1; i++ {
		var id wire.Hash
		copy(id[:], rt.NondetBytes(32))
		for _, o := range c01IDSeeds {
			rt.Assume(o != id)
		}
		c01IDSeeds = append(c01IDSeeds, id)
	}
	win := c06Window()
	H := uint64(rt.NondetLen(2, 5)) // small heights: the skip needs the node's height to exceed the window
	b := rt.NondetLen(0, maxB) + win
	P := c01Block(H-1, wire.Hash{}, 10)
	A := c01Block(H, P.BlockHash(), 11)
	best := []*wire.MsgBlock{P, A}
	for i := 1; i <= b; i++ {
		best = append(best, c01Block(H+uint64(i), best[len(best)-1].BlockHash(), 2000+int64(i)))
	}
	st.VerifSetSyncedChain([]txmgr.BlockMeta{c01Meta(P), c01Meta(A)})
	node.base, node.best, node.blocks = H-1, best, best
	c06IndexHeight = H + uint64(b)
	ids := []string{"ac10aaaaaaaaaaaaaaaaaaaaaaaaaaaaaaaaaaaaaa", "ac10bbbbbbbbbbbbbbbbbbbbbbbbbbbbbbbbbbbbbb"}
	followed := false
	for _, id := range ids {
		v := make([]byte, 9)
		switch rt.NondetLen(0, 3) {
		case 0:
			binary.BigEndian.PutUint64(v, txmgr.WalletSyncedDone)
			followed = true
		case 1:
			c := rt.NondetU64()
			rt.Assume(c != txmgr.WalletSyncedDone)
			binary.BigEndian.PutUint64(v, c)
		case 2:
			binary.BigEndian.PutUint64(v, txmgr.WalletSyncedDone)
			v[8] = txmgr.WalletFlagsRemove
		case 3:
			continue // no such wallet
		}
		st.WS.Set([]byte(id), v)
		keystore.VerifAddWallet(st.Ks, id)
	}
	h, err := NewNtfnsHandler(w)
	rt.Assert(err == nil && h != nil, "handler-created")
	if err != nil || h == nil {
		rt.Reach("end")
		return
	}
	c06ShaByHeight = 0
	err = h.Start()
	rt.Assert(err == nil, "start-succeeds")
	if err == nil {
		if !rt.Symbolic() {
			close(h.quit)
		}
		if followed {
			rt.Assert(c06ShaByHeight == 0, "no-block-is-skipped-while-a-wallet-is-followed")
			rt.Reach("followed")
		} else if c06ShaByHeight > 0 {
			rt.Reach("skipped")
		}
		k := make([]byte, 8)
		binary.BigEndian.PutUint64(k, H+uint64(b))
		rt.Assert(bytes.Equal(st.VerifSyncedToHeight(), k) && h.bestBlock.Height == H+uint64(b), "recorded-chain-ends-at-the-nodes-tip")
	}
	rt.Reach("end")
}
