//go:build verif

package masswallet

import (
	"bytes"
	"encoding/binary"
	"errors"
	"time"

	"github.com/massnetorg/mass-core/blockchain"
	"github.com/massnetorg/mass-core/database"
	"github.com/massnetorg/mass-core/massutil"
	"github.com/massnetorg/mass-core/txscript"
	"github.com/massnetorg/mass-core/wire"
	"massnet.org/mass-wallet/config"
	mwdb "massnet.org/mass-wallet/masswallet/db"
	"massnet.org/mass-wallet/masswallet/ifc"
	"massnet.org/mass-wallet/masswallet/keystore"
	"massnet.org/mass-wallet/masswallet/txmgr"
	"massnet.org/mass-wallet/masswallet/utils"
	rt "massnet.org/mass-wallet/zzverifrt"
)

// ---- models used under the symbolic executor only (native replays run the real functions) ----

// block id: an arbitrary 32-byte value per header object, drawn by the harness, the same on every call
var c01HdrReg []*wire.BlockHeader
var c01HdrIDs []wire.Hash
var c01IDSeeds []wire.Hash

func c01BlockHashModel(h *wire.BlockHeader) wire.Hash {
	for i, p := range c01HdrReg {
		if p == h {
			return c01HdrIDs[i]
		}
	}
	c01HdrReg = append(c01HdrReg, h)
	c01HdrIDs = append(c01HdrIDs, c01IDSeeds[0])
	c01IDSeeds = c01IDSeeds[1:]
	return c01HdrIDs[len(c01HdrIDs)-1]
}

// transaction locations of a block without transactions
func c01TxLocModel(b *massutil.Block) ([]wire.TxLoc, error) { return nil, nil }

// ---- model of the node: blocks by hash, best chain by height, optional failure of the k-th request ----

type c01Node struct {
	ifc.ChainFetcher // nil: every other request would panic
	blocks           []*wire.MsgBlock
	best             []*wire.MsgBlock // best[i] is the best-chain block at height base+i
	base             uint64
	failAt, calls    int
	missing          *wire.MsgBlock // a block the node no longer has (it reorganised in the meantime): looked up, it is absent - (nil, nil)
}

var errC01Node = errors.New("verif: chain database error")

func (n *c01Node) fail() bool {
	n.calls++
	return n.failAt != 0 && n.calls == n.failAt
}

func (n *c01Node) FetchBlockBySha(sha *wire.Hash) (*wire.MsgBlock, error) {
	if n.fail() {
		return nil, errC01Node
	}
	for _, b := range n.blocks {
		if b.BlockHash() == *sha && b != n.missing {
			return b, nil
		}
	}
	return nil, nil
}

func (n *c01Node) FetchBlockLocByHeight(height uint64) (*database.BlockLoc, error) {
	if n.fail() {
		return nil, errC01Node
	}
	if height < n.base || height-n.base >= uint64(len(n.best)) {
		return nil, errC01Node
	}
	return &database.BlockLoc{Height: height, Hash: n.best[height-n.base].BlockHash(), File: 1, Offset: 2, Length: 3}, nil
}

func c01Block(height uint64, prev wire.Hash, stamp int64) *wire.MsgBlock {
	b := wire.NewEmptyMsgBlock()
	b.Header.Height = height
	b.Header.Previous = prev
	b.Header.Timestamp = time.Unix(stamp, 0)
	return b
}

func c01Meta(b *wire.MsgBlock) txmgr.BlockMeta {
	return txmgr.BlockMeta{Hash: b.BlockHash(), Height: b.Header.Height, Timestamp: b.Header.Timestamp}
}

// VerifC01TipStep: one tip notification handled by the real processConnectedBlock (fast path or reorg,
// disconnecting with the real Rollback and connecting with the real filterBlock) on blocks without
// transactions. The wallet follows branch A,O1..Oa (a = 0..2); the node's best chain is A,N1..Nb (b = 1..3)
// and Nb is announced (for b > a+1 the tips in between were never delivered: tips faster than processing).
// The node may fail one request, the wallet database one call. Afterwards either the step succeeded and the
// recorded chain is exactly ..,A,N1..Nb with the follower's tip at Nb, or it failed and the recorded chain
// and the follower's tip are what they were.
func VerifC01TipStep() { c01TipStep(2, 3) }

// deeper: wallet branch up to 3 blocks, best branch up to 4 blocks above the fork
func VerifC01TipStepDeep() { c01TipStep(3, 4) }

func c01TipStep(maxA, maxB int) {
	st := txmgr.VerifNewStoresWithKeystoreManager([]byte("DJr6BomK"))
	node := &c01Node{}
	w := &WalletManager{config: &config.Config{Wallet: config.NewDefWalletConfig()}, db: st.DB, chainParams: config.ChainParams,
		ksmgr: st.Ks, bucketMeta: st.Meta, utxoStore: st.Utxo, txStore: st.Tx, syncStore: st.Sync, chainFetcher: node}
	h := &NtfnsHandler{walletMgr: w, mempool: map[wire.Hash]struct{}{}, expiredMempool: map[uint64]map[wire.Hash]struct{}{}}

	// ids (drawn in native runs too, so that replays read the same value sequence)
	c01HdrReg, c01HdrIDs, c01IDSeeds = nil, nil, nil
	for i := 0; i < 2+maxA+maxB; i++ {
		var id wire.Hash
		copy(id[:], rt.NondetBytes(32))
		for _, o := range c01IDSeeds {
			rt.Assume(o != id)
		}
		c01IDSeeds = append(c01IDSeeds, id)
	}
	H := rt.NondetU64()
	rt.Assume(H >= 2 && H < 1<<56)
	a := rt.NondetLen(0, maxA)
	b := rt.NondetLen(1, maxB)

	P := c01Block(H-1, wire.Hash{}, 10)
	A := c01Block(H, P.BlockHash(), 11)
	old := []*wire.MsgBlock{P, A}
	for i := 1; i <= a; i++ {
		old = append(old, c01Block(H+uint64(i), old[len(old)-1].BlockHash(), 1000+int64(i)))
	}
	best := []*wire.MsgBlock{P, A}
	for i := 1; i <= b; i++ {
		best = append(best, c01Block(H+uint64(i), best[len(best)-1].BlockHash(), 2000+int64(i)))
	}
	for _, x := range old {
		for _, y := range best[2:] {
			rt.Assume(x.BlockHash() != y.BlockHash())
		}
	}
	var metas []txmgr.BlockMeta
	for _, blk := range old {
		metas = append(metas, c01Meta(blk))
	}
	st.VerifSetSyncedChain(metas)
	h.bestBlock = metas[len(metas)-1]
	node.base = H - 1
	node.best = best
	node.blocks = append(append([]*wire.MsgBlock{}, best...), old[2:]...)
	before := st.VerifSyncRecords()

	// one block of the announced branch below its tip may have left the node's database before the follower asks for it
	// (the node reorganised in the meantime); that case is explored without a further fault
	gone := rt.NondetLen(0, len(best)-2) // 0: every block is there
	dbFault := 0
	st.DB.Calls = 0
	st.DB.FaultWrites = true
	if gone >= 1 {
		node.missing = best[gone]
	} else {
		node.failAt = rt.NondetLen(0, 8)
		dbFault = rt.NondetLen(0, 40)
	}
	st.DB.FaultAt = dbFault
	tip := best[len(best)-1]
	err := h.processConnectedBlock(tip)
	st.DB.FaultAt = 0

	heightKey := func(x uint64) []byte {
		k := make([]byte, 8)
		binary.BigEndian.PutUint64(k, x)
		return k
	}
	if node.failAt == 0 && dbFault == 0 && node.missing == nil {
		rt.Assert(err == nil, "tip-accepted-when-nothing-fails")
	}
	if err != nil {
		rt.Assert(h.bestBlock.Hash == metas[len(metas)-1].Hash && h.bestBlock.Height == metas[len(metas)-1].Height, "refused-tip-leaves-the-follower-tip")
		rt.Assert(st.VerifSyncRecords() == before, "refused-tip-leaves-the-recorded-chain-length")
		for _, m := range metas {
			r := st.VerifSyncedRecord(m.Height)
			rt.Assert(len(r) == 36 && bytes.Equal(r[:32], m.Hash[:]), "refused-tip-leaves-the-recorded-chain")
		}
		rt.Assert(bytes.Equal(st.VerifSyncedToHeight(), heightKey(metas[len(metas)-1].Height)), "refused-tip-leaves-the-synced-pointer")
		rt.Reach("refused")
	} else {
		tipHash := tip.BlockHash()
		rt.Assert(h.bestBlock.Hash == tipHash && h.bestBlock.Height == tip.Header.Height, "follower-tip-is-the-announced-block")
		for _, blk := range best {
			r := st.VerifSyncedRecord(blk.Header.Height)
			bh := blk.BlockHash()
			rt.Assert(len(r) == 36 && bytes.Equal(r[:32], bh[:]), "recorded-chain-is-the-best-chain")
		}
		rt.Assert(st.VerifSyncRecords() == len(best)+1, "no-record-above-the-new-tip")
		rt.Assert(bytes.Equal(st.VerifSyncedToHeight(), heightKey(tip.Header.Height)), "synced-pointer-at-the-new-tip")
		for i := 1; i <= b; i++ {
			_, ok := h.expiredMempool[H+uint64(i)]
			rt.Assert(ok, "connected-heights-noted-for-pending-expiry")
		}
		rt.Reach("accepted")
	}
	rt.Reach("end")
}

// ---- relevance filter ----

var c01TxReg []*wire.MsgTx
var c01TxIDs []wire.Hash
var c01TxSeeds []wire.Hash

// transaction id model (symbolic runs): an arbitrary id per transaction object, drawn by the harness
func c01TxHashModel(msg *wire.MsgTx) wire.Hash {
	for i, p := range c01TxReg {
		if p == msg {
			return c01TxIDs[i]
		}
	}
	c01TxReg = append(c01TxReg, msg)
	c01TxIDs = append(c01TxIDs, c01TxSeeds[0])
	c01TxSeeds = c01TxSeeds[1:]
	return c01TxIDs[len(c01TxIDs)-1]
}

type c01TxNode struct {
	ifc.ChainFetcher
	prev *wire.MsgTx
}

func (n *c01TxNode) FetchTxBySha(sha *wire.Hash) (*wire.MsgTx, error) {
	if n.prev != nil && n.prev.TxHash() == *sha {
		return n.prev, nil
	}
	return nil, nil
}

func c01P2WSH(sh []byte) []byte { return append([]byte{txscript.OP_0, txscript.OP_DATA_32}, sh...) }

// VerifC01RelevanceFilter: the real filterTx on a block transaction with one input and one output. Wallet W is
// ready and owns script hash hW, wallet V is still importing and owns hV; the input spends output idx of a
// transaction the node knows, paying to hIn, the output pays to hOut (all arbitrary 32-byte hashes; the store
// holds a coin for the spent output exactly when it is W's, as the ledger invariant says). The filter reports
// the output as W's exactly when hOut = hW, the input as W's exactly when hIn = hW, nothing for V, and the
// transaction as relevant exactly when one of the two holds; an input index beyond the previous transaction's
// outputs is refused.
func VerifC01RelevanceFilter() { c01RelevanceFilter(false) }

// the same with the output (and the spent previous output) a standard, staking or binding script around the hash
func VerifC01RelevanceFilterClasses() { c01RelevanceFilter(true) }

func c01Shape(sh []byte, shape int) []byte {
	s := c01P2WSH(sh)
	switch shape {
	case 1:
		s = append(append(s, 8), rt.NondetBytes(8)...)
	case 2:
		s = append(append(s, 20), rt.NondetBytes(20)...)
	}
	return s
}

func c01RelevanceFilter(classes bool) {
	st := txmgr.VerifNewStoresWithKeystoreManager([]byte("DJr6BomK"))
	const W, V, X = "ac10wwwwwwwwwwwwwwwwwwwwwwwwwwwwwwwwwwwwww", "ac10vvvvvvvvvvvvvvvvvvvvvvvvvvvvvvvvvvvvvv", "ac10xxxxxxxxxxxxxxxxxxxxxxxxxxxxxxxxxxxxxx"
	hW, hV, hIn, hOut := rt.NondetBytes(32), rt.NondetBytes(32), rt.NondetBytes(32), rt.NondetBytes(32)
	rt.Assume(!bytes.Equal(hW, hV))
	text := func(sh []byte) string {
		ps, err := utils.ParsePkScript(c01P2WSH(sh), config.ChainParams)
		rt.Assert(err == nil, "harness-script-parses")
		return ps.StdEncodeAddress()
	}
	keystore.VerifAddWallet(st.Ks, W)
	keystore.VerifAddWallet(st.Ks, V)
	keystore.VerifAddAddressWithHash(st.Ks, W, text(hW), hW)
	keystore.VerifAddAddressWithHash(st.Ks, V, text(hV), hV)
	done := make([]byte, 9)
	binary.BigEndian.PutUint64(done, txmgr.WalletSyncedDone)
	st.WS.Set([]byte(W), done)
	st.WS.Set([]byte(V), []byte{0, 0, 0, 0, 0, 0, 0, 5, 0})
	// X: a finished wallet that is being removed (flag set) - no longer followed; it owns hX
	hX := rt.NondetBytes(32)
	rt.Assume(!bytes.Equal(hX, hW) && !bytes.Equal(hX, hV))
	keystore.VerifAddWallet(st.Ks, X)
	keystore.VerifAddAddressWithHash(st.Ks, X, text(hX), hX)
	removed := append([]byte(nil), done...)
	removed[8] = txmgr.WalletFlagsRemove
	st.WS.Set([]byte(X), removed)

	c01TxReg, c01TxIDs, c01TxSeeds = nil, nil, nil
	for i := 0; i < 2; i++ {
		var id wire.Hash
		copy(id[:], rt.NondetBytes(32))
		c01TxSeeds = append(c01TxSeeds, id)
	}
	rt.Assume(c01TxSeeds[0] != c01TxSeeds[1])
	prev := wire.NewMsgTx()
	prev.AddTxIn(wire.NewTxIn(&wire.OutPoint{Index: 7}, nil))
	inShape, outShape := 0, 0
	if classes {
		inShape, outShape = rt.NondetLen(0, 2), rt.NondetLen(0, 2)
	}
	inScript, outScript := c01Shape(hIn, inShape), c01Shape(hOut, outShape)
	if classes {
		// scripts consensus reads as one of the three wallet-relevant classes (a staking script needs a legal shape
		// only; its frozen period is arbitrary here)
		_, e1 := utils.ParsePkScript(inScript, config.ChainParams)
		_, e2 := utils.ParsePkScript(outScript, config.ChainParams)
		rt.Assume(e1 == nil && e2 == nil)
	}
	prev.AddTxOut(wire.NewTxOut(5, inScript))
	prev.AddTxOut(wire.NewTxOut(6, inScript))
	prevID := prev.TxHash()
	idx := uint32(rt.NondetLen(0, 2))
	if classes {
		idx = uint32(rt.NondetLen(0, 1))
	}
	tx := wire.NewMsgTx()
	tx.AddTxIn(wire.NewTxIn(&wire.OutPoint{Hash: prevID, Index: idx}, nil))
	tx.AddTxOut(wire.NewTxOut(4, outScript))
	rt.Assume(!blockchain.IsCoinBaseTx(tx))
	txID := tx.TxHash()
	inMine := bytes.Equal(hIn, hW)
	outMine := bytes.Equal(hOut, hW)
	if inMine {
		// both outputs of the previous transaction pay hIn: the ledger holds both coins
		var bh wire.Hash
		st.VerifPutStandardCredit(W, wire.OutPoint{Hash: prevID, Index: 0}, 3, bh, 5, hIn)
		st.VerifPutStandardCredit(W, wire.OutPoint{Hash: prevID, Index: 1}, 3, bh, 6, hIn)
	}
	node := &c01TxNode{prev: prev}
	w := &WalletManager{config: &config.Config{Wallet: config.NewDefWalletConfig()}, db: st.DB, chainParams: config.ChainParams,
		ksmgr: st.Ks, bucketMeta: st.Meta, utxoStore: st.Utxo, txStore: st.Tx, syncStore: st.Sync, chainFetcher: node}
	h := &NtfnsHandler{walletMgr: w, mempool: map[wire.Hash]struct{}{}, expiredMempool: map[uint64]map[wire.Hash]struct{}{}}
	var ready map[string]struct{}
	err := mwdb.View(st.DB, func(rtx mwdb.ReadTransaction) (e error) {
		ready, e = h.getReadyWallets(rtx)
		return
	})
	rt.Assert(err == nil, "ready-wallets-read")
	_, wReady := ready[W]
	_, vReady := ready[V]
	_, xReady := ready[X]
	rt.Assert(wReady && !vReady && !xReady && len(ready) == 1, "only-the-finished-wallet-that-is-not-being-removed-is-followed")
	meta := &txmgr.BlockMeta{Height: 9}
	rel, rec, ferr := h.filterTx(tx, meta, map[wire.Hash]*txmgr.TxRecord{}, ready)
	if idx >= 2 && inMine {
		rt.Assert(ferr != nil, "input-index-beyond-the-previous-outputs-refused")
		rt.Reach("end")
		return
	}
	if classes && inShape == 2 && outShape == 2 && inMine && outMine {
		rt.Assert(ferr == ErrBothBinding, "binding-in-and-out-refused")
		rt.Reach("end")
		return
	}
	rt.Assert(ferr == nil, "filter-succeeds")
	if ferr != nil {
		rt.Reach("end")
		return
	}
	rt.Assert(rel == (inMine || outMine), "relevant-iff-an-input-or-output-is-the-wallets")
	if rel {
		rt.Assert(rec != nil && rec.Hash == txID, "record-carries-the-transaction-id")
		rt.Assert((len(rec.RelevantTxOut) == 1) == outMine && len(rec.RelevantTxOut) <= 1, "output-reported-iff-it-pays-the-wallet")
		rt.Assert((len(rec.RelevantTxIn) == 1) == inMine && len(rec.RelevantTxIn) <= 1, "input-reported-iff-it-spends-the-wallets-coin")
		for _, m := range rec.RelevantTxOut {
			rt.Assert(m.Index == 0 && m.WalletId == W, "reported-output-names-the-owner")
		}
		for _, m := range rec.RelevantTxIn {
			rt.Assert(m.Index == 0 && m.WalletId == W, "reported-input-names-the-owner")
		}
	}
	rt.Reach("end")
}

// VerifC09ReceivePending: an unconfirmed transaction announced by the node goes through the real filterTx with no
// block (proccessReceivedTx's core) for a wallet that owns hW: it spends output idx of a known transaction paying
// hIn and pays hOut. When it concerns the wallet it is recorded as pending exactly once: the coin it spends is
// marked spent-by-pending, the coin it creates is a pending credit only, nothing confirmed changes; announcing it a
// second time changes nothing. When it does not concern the wallet nothing is recorded.
func VerifC09ReceivePending() {
	st := txmgr.VerifNewStoresWithKeystoreManager([]byte("DJr6BomK"))
	const W = "ac10wwwwwwwwwwwwwwwwwwwwwwwwwwwwwwwwwwwwww"
	hW, hIn, hOut := rt.NondetBytes(32), rt.NondetBytes(32), rt.NondetBytes(32)
	text := func(sh []byte) string {
		ps, err := utils.ParsePkScript(c01P2WSH(sh), config.ChainParams)
		rt.Assert(err == nil, "harness-script-parses")
		return ps.StdEncodeAddress()
	}
	keystore.VerifAddWallet(st.Ks, W)
	keystore.VerifAddAddressWithHash(st.Ks, W, text(hW), hW)
	done := make([]byte, 9)
	binary.BigEndian.PutUint64(done, txmgr.WalletSyncedDone)
	st.WS.Set([]byte(W), done)
	c01TxReg, c01TxIDs, c01TxSeeds, c01TxBytesReg = nil, nil, nil, nil
	for i := 0; i < 2; i++ {
		var id wire.Hash
		copy(id[:], rt.NondetBytes(32))
		c01TxSeeds = append(c01TxSeeds, id)
	}
	rt.Assume(c01TxSeeds[0] != c01TxSeeds[1])
	prev := wire.NewMsgTx()
	prev.AddTxIn(wire.NewTxIn(&wire.OutPoint{Index: 7}, nil))
	prev.AddTxOut(wire.NewTxOut(5, c01P2WSH(hIn)))
	prevID := prev.TxHash()
	tx := wire.NewMsgTx()
	tx.AddTxIn(wire.NewTxIn(&wire.OutPoint{Hash: prevID, Index: 0}, nil))
	tx.AddTxOut(wire.NewTxOut(4, c01P2WSH(hOut)))
	rt.Assume(!blockchain.IsCoinBaseTx(tx))
	txID := tx.TxHash()
	inMine, outMine := bytes.Equal(hIn, hW), bytes.Equal(hOut, hW)
	if inMine {
		st.VerifPutStandardCredit(W, wire.OutPoint{Hash: prevID, Index: 0}, 3, wire.Hash{}, 5, hIn)
	}
	sub := func(name string) int { return len(st.Root.Sub(name).Ents) }
	credits0, unspent0 := sub("c"), sub("u")
	node := &c01TxNode{prev: prev}
	w := &WalletManager{config: &config.Config{Wallet: config.NewDefWalletConfig()}, db: st.DB, chainParams: config.ChainParams,
		ksmgr: st.Ks, bucketMeta: st.Meta, utxoStore: st.Utxo, txStore: st.Tx, syncStore: st.Sync, chainFetcher: node}
	h := &NtfnsHandler{walletMgr: w, mempool: map[wire.Hash]struct{}{}, expiredMempool: map[uint64]map[wire.Hash]struct{}{}}
	var ready map[string]struct{}
	err := mwdb.View(st.DB, func(rtx mwdb.ReadTransaction) (e error) {
		ready, e = h.getReadyWallets(rtx)
		return
	})
	rt.Assert(err == nil, "ready-wallets-read")
	rel, _, ferr := h.filterTx(tx, nil, nil, ready)
	rt.Assert(ferr == nil, "pending-transaction-filtered")
	if ferr != nil {
		rt.Reach("end")
		return
	}
	rt.Assert(rel == (inMine || outMine), "recorded-iff-it-concerns-the-wallet")
	check := func(tag string) {
		_, known := h.mempool[txID]
		rt.Assert(known == rel, "follower-remembers-exactly-the-relevant-pending-transaction"+tag)
		want := 0
		if rel {
			want = 1
		}
		rt.Assert(sub("m") == want, "pending-record-exactly-once"+tag)
		wantMark, wantCred := 0, 0
		if inMine {
			wantMark = 1
		}
		if outMine {
			wantCred = 1
		}
		rt.Assert(sub("mi") == wantMark, "spent-coin-marked-exactly-once"+tag)
		rt.Assert(sub("mc") == wantCred, "created-coin-is-a-pending-credit-only"+tag)
		rt.Assert(sub("c") == credits0 && sub("u") == unspent0, "nothing-confirmed-changes"+tag)
	}
	check("")
	rel2, _, ferr2 := h.filterTx(tx, nil, nil, ready)
	rt.Assert(ferr2 == nil && (!rel2 || !rel), "second-announcement-is-not-recorded-again")
	check("-after-a-second-announcement")
	rt.Reach("end")
}

// model of the transaction serialiser used for pending records (symbolic runs only): an injective tagged encoding of
// the transaction objects seen; anything else fails to decode.
var c01TxBytesReg []*wire.MsgTx

func c01TxBytesModel(msg *wire.MsgTx, mode wire.CodecMode) ([]byte, error) {
	for i, t := range c01TxBytesReg {
		if t == msg {
			return []byte{0xA7, byte(i)}, nil
		}
	}
	c01TxBytesReg = append(c01TxBytesReg, msg)
	return []byte{0xA7, byte(len(c01TxBytesReg) - 1)}, nil
}

func c01TxSetBytesModel(msg *wire.MsgTx, bs []byte, mode wire.CodecMode) error {
	if len(bs) != 2 || bs[0] != 0xA7 || int(bs[1]) >= len(c01TxBytesReg) {
		return errors.New("proto: cannot decode transaction")
	}
	*msg = *c01TxBytesReg[bs[1]]
	return nil
}

// VerifC01StaleTip: a tip notification that was queued before the node reorganised: the wallet is at A, the node's
// best chain is A,N1 and the notification handled now is for O1, another child of A that is no longer on the best
// chain. The real processConnectedBlock refuses it (the node's block at that height is not the announced one) and
// changes nothing; the notification for N1 that follows is accepted.
func VerifC01StaleTip() {
	st := txmgr.VerifNewStoresWithKeystoreManager([]byte("DJr6BomK"))
	node := &c01Node{}
	w := &WalletManager{config: &config.Config{Wallet: config.NewDefWalletConfig()}, db: st.DB, chainParams: config.ChainParams,
		ksmgr: st.Ks, bucketMeta: st.Meta, utxoStore: st.Utxo, txStore: st.Tx, syncStore: st.Sync, chainFetcher: node}
	h := &NtfnsHandler{walletMgr: w, mempool: map[wire.Hash]struct{}{}, expiredMempool: map[uint64]map[wire.Hash]struct{}{}}
	c01HdrReg, c01HdrIDs, c01IDSeeds = nil, nil, nil
	for i := 0; i < 4; i++ {
		var id wire.Hash
		copy(id[:], rt.NondetBytes(32))
		for _, o := range c01IDSeeds {
			rt.Assume(o != id)
		}
		c01IDSeeds = append(c01IDSeeds, id)
	}
	H := rt.NondetU64()
	rt.Assume(H >= 2 && H < 1<<56)
	P := c01Block(H-1, wire.Hash{}, 10)
	A := c01Block(H, P.BlockHash(), 11)
	O1 := c01Block(H+1, A.BlockHash(), 1001)
	N1 := c01Block(H+1, A.BlockHash(), 2001)
	rt.Assume(O1.BlockHash() != N1.BlockHash())
	metas := []txmgr.BlockMeta{c01Meta(P), c01Meta(A)}
	st.VerifSetSyncedChain(metas)
	h.bestBlock = metas[1]
	node.base, node.best, node.blocks = H-1, []*wire.MsgBlock{P, A, N1}, []*wire.MsgBlock{P, A, N1, O1}
	err := h.processConnectedBlock(O1)
	rt.Assert(err != nil, "stale-tip-refused")
	aHash := A.BlockHash()
	rt.Assert(h.bestBlock.Hash == aHash && h.bestBlock.Height == H && st.VerifSyncRecords() == 3 && st.VerifSyncedRecord(H+1) == nil, "stale-tip-changes-nothing")
	err = h.processConnectedBlock(N1)
	rt.Assert(err == nil, "best-chain-tip-accepted-afterwards")
	n1 := N1.BlockHash()
	r := st.VerifSyncedRecord(H + 1)
	rt.Assert(h.bestBlock.Hash == n1 && len(r) == 36 && bytes.Equal(r[:32], n1[:]), "recorded-chain-follows-the-best-chain")
	rt.Reach("end")
}
