//go:build verif

package masswallet

import (
	"bytes"
	"encoding/binary"

	"github.com/massnetorg/mass-core/blockchain"
	"github.com/massnetorg/mass-core/database"
	"github.com/massnetorg/mass-core/wire"
	"massnet.org/mass-wallet/config"
	"massnet.org/mass-wallet/masswallet/ifc"
	"massnet.org/mass-wallet/masswallet/keystore"
	"massnet.org/mass-wallet/masswallet/txmgr"
	"massnet.org/mass-wallet/masswallet/utils"
	rt "massnet.org/mass-wallet/zzverifrt"
)

// c06ImpNode: the node during a rescan: its script-hash index knows one transaction T (at height hT) for the
// importing wallet's scripts, and it serves that block's header, location and the two transactions involved.
type c06ImpNode struct {
	ifc.ChainFetcher
	hT   uint64
	hdr  *wire.BlockHeader
	tx   *wire.MsgTx
	prev *wire.MsgTx
}

func (n *c06ImpNode) FetchScriptHashRelatedTx(scriptHashes [][]byte, start, stop uint64, p *config.Params) (*ifc.HeightSortedRelatedTx, error) {
	r := &ifc.HeightSortedRelatedTx{Data: map[uint64][]*wire.TxLoc{}}
	if start <= n.hT && n.hT < stop {
		r.SortedHeights = []uint64{n.hT}
		r.Data[n.hT] = []*wire.TxLoc{{TxStart: 100, TxLen: 50}}
	}
	return r, nil
}
func (n *c06ImpNode) FetchBlockHeaderByHeight(h uint64) (*wire.BlockHeader, error) {
	if h == n.hT {
		return n.hdr, nil
	}
	return nil, nil
}
func (n *c06ImpNode) FetchBlockLocByHeight(h uint64) (*database.BlockLoc, error) {
	if h != n.hT {
		return nil, errC07Node
	}
	return &database.BlockLoc{Height: h, Hash: n.hdr.BlockHash(), File: 1, Offset: 2, Length: 3}, nil
}
func (n *c06ImpNode) FetchTxByLoc(h uint64, loc *wire.TxLoc) (*wire.MsgTx, error) {
	if h == n.hT && loc.TxStart == 100 {
		return n.tx, nil
	}
	return nil, errC07Node
}
func (n *c06ImpNode) FetchLastTxUntilHeight(sha *wire.Hash, h uint64) (*wire.MsgTx, error) {
	if n.prev.TxHash() == *sha {
		return n.prev, nil
	}
	return nil, nil
}

// VerifC06ImportStepRetry (property C06, a background import interrupted and resumed): one step of the real
// asyncImport whose height range holds a transaction paying the importing wallet, with the n-th storage call of the
// step failing (any call, writes and commits included - what a stop at that point leaves behind is what the
// failed call's transaction rolled back to). The worker then runs the step again, as it does after a failure and
// after a restart: the repetition succeeds and the wallet ends ready with exactly the ledger an undisturbed step
// gives - the coin once, its unspent entry, its balance.
func VerifC06ImportStepRetry() {
	c := uint64(rt.NondetLen(0, 3))
	B := c + uint64(rt.NondetLen(1, 3))
	s := c07Setup(c, B)
	hW, hS := rt.NondetBytes(32), rt.NondetBytes(32)
	rt.Assume(!bytes.Equal(hW, hS))
	ps, perr := utils.ParsePkScript(c01P2WSH(hW), config.ChainParams)
	rt.Assert(perr == nil, "harness-script-parses")
	keystore.VerifAddAddressWithHash(s.st.Ks, c07Wallet, ps.StdEncodeAddress(), hW)
	hT := c + 1 + uint64(rt.NondetLen(0, 2))
	rt.Assume(hT <= B)
	c01TxReg, c01TxIDs, c01TxSeeds = nil, nil, nil
	for i := 0; i < 2; i++ {
		var id wire.Hash
		copy(id[:], rt.NondetBytes(32))
		c01TxSeeds = append(c01TxSeeds, id)
	}
	rt.Assume(c01TxSeeds[0] != c01TxSeeds[1])
	c01HdrReg, c01HdrIDs, c01IDSeeds = nil, nil, nil
	var bid wire.Hash
	copy(bid[:], rt.NondetBytes(32))
	c01IDSeeds = append(c01IDSeeds, bid)
	prev := wire.NewMsgTx()
	prev.AddTxIn(wire.NewTxIn(&wire.OutPoint{Index: 7}, nil))
	prev.AddTxOut(wire.NewTxOut(9, c01P2WSH(hS)))
	value := uint64(rt.NondetU32()) + 1
	tx := wire.NewMsgTx()
	tx.AddTxIn(wire.NewTxIn(&wire.OutPoint{Hash: prev.TxHash(), Index: 0}, nil))
	tx.AddTxOut(wire.NewTxOut(int64(value), c01P2WSH(hW)))
	rt.Assume(!blockchain.IsCoinBaseTx(tx))
	hdr := &c01Block(hT, wire.Hash{}, 1000).Header
	node := &c06ImpNode{hT: hT, hdr: hdr, tx: tx, prev: prev}
	s.w.chainFetcher = node
	s.st.DB.Calls = 0
	s.st.DB.FaultWrites = true
	s.st.DB.FaultAt = rt.NondetLen(0, 24)
	fin, err := s.h.asyncImport(c07Wallet)
	s.st.DB.FaultAt = 0
	if err != nil {
		rt.Assert(!fin, "failed-step-is-not-final")
		fin, err = s.h.asyncImport(c07Wallet)
		rt.Assert(err == nil, "repetition-of-a-failed-import-step-succeeds")
		rt.Reach("repeated")
	}
	if err == nil {
		rt.Assert(fin && s.cursor() == txmgr.WalletSyncedDone, "step-reaching-the-tip-makes-the-wallet-ready")
		credits, unspent, txs, blocks := s.st.VerifLedgerCounts()
		rt.Assert(credits == 1 && unspent == 1 && txs == 1 && blocks == 1, "the-payment-is-recorded-exactly-once")
		bv := s.st.Bal.Lookup([]byte(c07Wallet))
		rt.Assert(len(bv) == 8 && binary.BigEndian.Uint64(bv) == value, "balance-is-the-payment")
	}
	rt.Reach("end")
}
