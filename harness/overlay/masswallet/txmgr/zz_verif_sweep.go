//go:build verif

package txmgr

import (
	"bytes"

	"github.com/massnetorg/mass-core/blockchain"
	"github.com/massnetorg/mass-core/database"
	"github.com/massnetorg/mass-core/massutil"
	"github.com/massnetorg/mass-core/wire"
	mwdb "massnet.org/mass-wallet/masswallet/db"
	"massnet.org/mass-wallet/masswallet/keystore"
	rt "massnet.org/mass-wallet/zzverifrt"
)

// vChainByLoc: the node's block files: the transaction at a recorded location (by its start offset).
type vChainByLoc struct {
	vChain
	byStart map[int]*wire.MsgTx
}

func (c *vChainByLoc) FetchTxByFileLoc(_ *database.BlockLoc, loc *wire.TxLoc) (*wire.MsgTx, error) {
	if t, ok := c.byStart[loc.TxStart]; ok {
		return t, nil
	}
	return nil, errVChain
}

// VerifC08SweepMinedCredits: wallet R (being removed) and wallet K (kept) each own one address. The real apply
// step records transaction T1 (paying R and a stranger) and T2 (paying R or K - arbitrary), in the same block or in
// two blocks. The real RemoveRelevantTx for R then erases every coin of R and every transaction and block record
// that concerned only R, and leaves K's coin, its transaction record and its block record byte-identical.
func VerifC08SweepMinedCredits() {
	s := verifNewStores(verifWID) // K = verifWID
	const R = verifWID2
	vTxReg, vTxIDReg, vTxIDs = nil, nil, nil
	hR, hK, hF := rt.NondetBytes(32), rt.NondetBytes(32), rt.NondetBytes(32)
	rt.Assume(!bytes.Equal(hR, hK) && !bytes.Equal(hF, hR) && !bytes.Equal(hF, hK))
	amR := keystore.VerifNewAddrManager(R, vPk(vP2WSH(hR)).StdEncodeAddress(), hR)
	keystore.VerifAddManager(s.utxo.ksmgr, amR)
	keystore.VerifAddAddressWithHash(s.utxo.ksmgr, verifWID, vPk(vP2WSH(hK)).StdEncodeAddress(), hK)
	// the wallet in use is none, the kept one or the removed one: the sweep must not depend on it
	switch rt.NondetLen(0, 2) {
	case 0:
		keystore.VerifSetCurrent(s.utxo.ksmgr, "")
	case 1:
		keystore.VerifSetCurrent(s.utxo.ksmgr, R)
	}
	t2ToK := rt.NondetBool()
	t1Shared := rt.NondetBool() // T1's second output pays the kept wallet instead of a stranger
	sameBlock := rt.NondetBool()
	h2, w2 := hR, R
	if t2ToK {
		h2, w2 = hK, verifWID
	}
	mkTx := func(outs ...[]byte) *wire.MsgTx {
		tx := wire.NewMsgTx()
		tx.AddTxIn(wire.NewTxIn(&wire.OutPoint{Hash: vHash(), Index: rt.NondetU32()}, nil))
		for i, sh := range outs {
			tx.AddTxOut(wire.NewTxOut(int64(10+i), vP2WSH(sh)))
		}
		rt.Assume(!blockchain.IsCoinBaseTx(tx))
		return tx
	}
	h1b := hF
	if t1Shared {
		h1b = hK
	}
	tx1, tx2 := mkTx(hR, h1b), mkTx(h2)
	T1 := &TxRecord{MsgTx: *tx1, Hash: vHash(), TxLoc: &wire.TxLoc{TxStart: 100, TxLen: 50}}
	T2 := &TxRecord{MsgTx: *tx2, Hash: vHash(), TxLoc: &wire.TxLoc{TxStart: 200, TxLen: 50}}
	rt.Assume(T1.Hash != T2.Hash)
	T1.RelevantTxOut = []*RelevantMeta{{Index: 0, PkScript: vPk(vP2WSH(hR)), WalletId: R}}
	if t1Shared {
		T1.RelevantTxOut = append(T1.RelevantTxOut, &RelevantMeta{Index: 1, PkScript: vPk(vP2WSH(hK)), WalletId: verifWID})
	}
	T2.RelevantTxOut = []*RelevantMeta{{Index: 0, PkScript: vPk(vP2WSH(h2)), WalletId: w2}}
	b1 := &BlockMeta{Height: rt.NondetU64(), Hash: vHash(), Loc: &database.BlockLoc{File: 1, Offset: 2, Length: 3}}
	rt.Assume(b1.Height >= 1 && b1.Height < vMaxHeight-1)
	b2 := b1
	if !sameBlock {
		b2 = &BlockMeta{Height: b1.Height + 1, Hash: vHash(), Loc: &database.BlockLoc{File: 1, Offset: 9, Length: 3}}
	}
	s.tx.chainFetcher = &vChainByLoc{byStart: map[int]*wire.MsgTx{100: &T1.MsgTx, 200: &T2.MsgTx}}
	s.bal.Set([]byte(R), []byte{0, 0, 0, 0, 0, 0, 0, 0})
	s.bal.Set([]byte(verifWID), []byte{0, 0, 0, 0, 0, 0, 0, 0})
	bal := map[string]massutil.Amount{R: massutil.ZeroAmount(), verifWID: massutil.ZeroAmount()}
	err := mwdb.Update(s.db, func(dbtx mwdb.DBTransaction) error {
		if e := s.tx.AddRelevantTx(dbtx, bal, T1, b1); e != nil {
			return e
		}
		return s.tx.AddRelevantTx(dbtx, bal, T2, b2)
	})
	rt.Assert(err == nil, "state-written-by-the-apply-step")
	if err != nil {
		rt.Reach("end")
		return
	}
	k2 := keyCredit(&T2.Hash, 0, b2)
	kept2 := append([]byte(nil), s.c.Lookup(k2)...)
	nCoins := 2
	if t1Shared {
		nCoins = 3
	}
	rt.Assert(len(s.c.Ents) == nCoins && len(kept2) == 45, "coins-recorded")
	k1b := keyCredit(&T1.Hash, 1, b1)
	kept1b := append([]byte(nil), s.c.Lookup(k1b)...)
	_, t1before := existsTxRecord(s.t, &T1.Hash, b1)
	t1before = append([]byte(nil), t1before...)
	_, t2rec := existsTxRecord(s.t, &T2.Hash, b2)
	t2rec = append([]byte(nil), t2rec...)
	_, blk2, _ := existsBlockRecord(s.b, b2.Height)
	blk2 = append([]byte(nil), blk2...)

	var deleted []*wire.Hash
	var finish bool
	err = mwdb.Update(s.db, func(dbtx mwdb.DBTransaction) (e error) {
		deleted, finish, e = s.tx.RemoveRelevantTx(dbtx, amR)
		return
	})
	rt.Assert(err == nil && finish, "sweep-completes")
	if err != nil {
		rt.Reach("end")
		return
	}
	rt.Assert(s.c.Lookup(keyCredit(&T1.Hash, 0, b1)) == nil, "removed-wallets-coin-erased")
	_, t1rec := existsTxRecord(s.t, &T1.Hash, b1)
	inDeleted := func(h wire.Hash) bool {
		for _, d := range deleted {
			if *d == h {
				return true
			}
		}
		return false
	}
	if t1Shared {
		// a transaction that paid both wallets stays, with the kept wallet's coin
		rt.Assert(bytes.Equal(t1rec, t1before) && !inDeleted(T1.Hash), "shared-transaction-record-kept")
		rt.Assert(len(kept1b) == 45 && bytes.Equal(s.c.Lookup(k1b), kept1b) && s.u.Lookup(canonicalUnspentKey(verifWID, &T1.Hash, 1)) != nil, "kept-wallets-coin-of-the-shared-transaction-untouched")
		_, blk1, _ := existsBlockRecord(s.b, b1.Height)
		rt.Assert(blk1 != nil, "block-record-of-the-shared-transaction-kept")
		rt.Reach("shared")
		rt.Reach("end")
		return
	}
	rt.Assert(t1rec == nil, "transaction-that-concerned-only-the-removed-wallet-erased")
	rt.Assert(inDeleted(T1.Hash), "erased-transaction-reported")
	if t2ToK {
		rt.Assert(bytes.Equal(s.c.Lookup(k2), kept2), "kept-wallets-coin-untouched")
		_, now := existsTxRecord(s.t, &T2.Hash, b2)
		rt.Assert(bytes.Equal(now, t2rec), "kept-wallets-transaction-record-untouched")
		rt.Assert(!inDeleted(T2.Hash) && len(deleted) == 1, "kept-wallets-transaction-not-reported-erased")
		_, blkNow, _ := existsBlockRecord(s.b, b2.Height)
		if sameBlock {
			// the block record now lists only T2
			var br blockRecord
			rt.Assert(blkNow != nil && readRawBlockRecord(keyBlockRecord(b2.Height), blkNow, &br) == nil && len(br.transactions) == 1 && br.transactions[0] == T2.Hash && br.Hash == b2.Hash, "shared-block-record-keeps-exactly-the-kept-transaction")
		} else {
			rt.Assert(bytes.Equal(blkNow, blk2), "kept-wallets-block-record-untouched")
			_, blk1, _ := existsBlockRecord(s.b, b1.Height)
			rt.Assert(blk1 == nil, "block-record-that-concerned-only-the-removed-wallet-erased")
		}
		rt.Assert(s.u.Lookup(canonicalUnspentKey(verifWID, &T2.Hash, 0)) != nil, "kept-wallets-unspent-entry-untouched")
		rt.Reach("kept")
	} else {
		rt.Assert(len(s.c.Ents) == 0 && len(s.t.Ents) == 0 && len(s.b.Ents) == 0, "nothing-of-the-removed-wallet-remains")
		rt.Assert(inDeleted(T2.Hash) && len(deleted) == 2, "both-erased-transactions-reported")
		rt.Reach("all-removed")
	}
	rt.Reach("end")
}
