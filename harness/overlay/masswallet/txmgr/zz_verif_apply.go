//go:build verif

package txmgr

import (
	"bytes"
	"errors"

	"github.com/massnetorg/mass-core/blockchain"
	"github.com/massnetorg/mass-core/database"
	"github.com/massnetorg/mass-core/massutil"
	"github.com/massnetorg/mass-core/txscript"
	"github.com/massnetorg/mass-core/wire"
	"massnet.org/mass-wallet/config"
	mwdb "massnet.org/mass-wallet/masswallet/db"
	"massnet.org/mass-wallet/masswallet/utils"
	rt "massnet.org/mass-wallet/zzverifrt"
)

// ---- model of the transaction serialiser used for pending records (symbolic runs only; native replays run
// the real protobuf codec): an injective tagged encoding of registered transactions; anything else fails to
// decode, as the real decoder does on a 28-byte location record. ----

var vTxReg []*wire.MsgTx

func vTxBytesModel(msg *wire.MsgTx, mode wire.CodecMode) ([]byte, error) {
	for i, t := range vTxReg {
		if t == msg {
			return []byte{0xA7, byte(i)}, nil
		}
	}
	vTxReg = append(vTxReg, msg)
	return []byte{0xA7, byte(len(vTxReg) - 1)}, nil
}

// model of the transaction id (symbolic runs only): an arbitrary 32-byte value per transaction object, the same
// on every call; the harnesses assume the ids they compare distinct (double SHA-256 is collision free for the
// purposes of every property here). Native replays compute the real id.
var vTxIDReg []*wire.MsgTx
var vTxIDs []wire.Hash
var vTxIDSeeds []wire.Hash

// vFixedIDs: the id model hands out fixed distinct constants instead of arbitrary values (harnesses with several
// transactions, where arbitrary ids make every key comparison a solver question; arbitrary ids are covered by the
// single-transaction harnesses)
var vFixedIDs bool // drawn by the harness (in native runs too, so that replays read the same value sequence)

func vTxHashModel(msg *wire.MsgTx) wire.Hash {
	for i, t := range vTxIDReg {
		if t == msg {
			return vTxIDs[i]
		}
	}
	vTxIDReg = append(vTxIDReg, msg)
	vTxIDs = append(vTxIDs, vTxIDSeeds[0])
	vTxIDSeeds = vTxIDSeeds[1:]
	return vTxIDs[len(vTxIDs)-1]
}

func vTxSetBytesModel(msg *wire.MsgTx, bs []byte, mode wire.CodecMode) error {
	if len(bs) != 2 || bs[0] != 0xA7 || int(bs[1]) >= len(vTxReg) {
		return errors.New("proto: cannot decode transaction")
	}
	*msg = *vTxReg[bs[1]]
	return nil
}

func vP2WSH(sh []byte) []byte { return append([]byte{txscript.OP_0, txscript.OP_DATA_32}, sh...) }

func vPk(script []byte) utils.PkScript {
	ps, err := utils.ParsePkScript(script, config.ChainParams)
	rt.Assert(err == nil, "harness-script-parses")
	return ps
}

type vApply struct {
	s        *vStores
	coin     *credit // the wallet coin being spent
	rec      *TxRecord
	block    *BlockMeta
	relIn    int
	outValue uint64
	balBefore uint64
	child    *TxRecord
	wasPending bool
	shOut    []byte
}

// vApplySetup: wallet W owns one mature-or-not coin C (arbitrary outpoint/height/amount); transaction T has
// two inputs, one of which (position relIn, arbitrary) spends C, and pays output 0 to a script of W.
// Optionally T is already pending, with a pending child spending T's output 0.
func vApplySetup() *vApply { return vApplySetupID(false) }

// realID: the record's id is the transaction's TxHash() (the id model under the symbolic executor), and T is
// not pending beforehand.
func vApplySetupID(realID bool) *vApply {
	a := &vApply{s: verifNewStores(verifWID)}
	s := a.s
	shIn := vScriptHash()
	a.coin = vCredit(shIn)
	a.coin.flags.Class = ClassStandardUtxo
	vPutCredit(s, verifWID, a.coin)
	a.balBefore = a.coin.amount.UintValue()
	vTxReg, vTxIDReg, vTxIDs = nil, nil, nil
	a.shOut = vScriptHash()
	tx := wire.NewMsgTx()
	a.relIn = rt.NondetLen(0, 1)
	other := wire.OutPoint{Hash: vHash(), Index: rt.NondetU32()}
	rt.Assume(other != a.coin.outPoint)
	for i := 0; i < 2; i++ {
		op := other
		if i == a.relIn {
			op = a.coin.outPoint
		}
		tx.AddTxIn(wire.NewTxIn(&op, nil))
	}
	rt.Assume(!blockchain.IsCoinBaseTx(tx))
	a.outValue = uint64(rt.NondetU32()) + 1
	if vPinned {
		a.outValue = 600000000 + uint64(rt.NondetLen(0, 1))
	}
	tx.AddTxOut(wire.NewTxOut(int64(a.outValue), vP2WSH(a.shOut)))
	a.rec = &TxRecord{MsgTx: *tx, TxLoc: &wire.TxLoc{TxStart: 100, TxLen: 200}}
	if realID {
		seed := vHash() // drawn in every case, so that replays read the same value sequence
		if vFixedIDs {
			seed = wire.Hash{0xA1}
		}
		vTxIDSeeds = []wire.Hash{seed}
		a.rec.Hash = a.rec.MsgTx.TxHash()
	} else {
		a.rec.Hash = vHash()
	}
	// a transaction cannot spend its own outputs, and transaction ids are distinct
	rt.Assume(a.rec.Hash != a.coin.outPoint.Hash && a.rec.Hash != other.Hash)
	a.rec.RelevantTxIn = []*RelevantMeta{{Index: a.relIn, PkScript: vPk(vP2WSH(shIn)), WalletId: verifWID}}
	a.rec.RelevantTxOut = []*RelevantMeta{{Index: 0, PkScript: vPk(vP2WSH(a.shOut)), WalletId: verifWID}}
	a.block = &BlockMeta{Height: rt.NondetU64(), Hash: vHash(), Loc: &database.BlockLoc{File: 1, Offset: 2, Length: 3}}
	rt.Assume(a.block.Height > a.coin.block.Height && a.block.Height < vMaxHeight)
	a.wasPending = !realID && rt.NondetBool()
	if a.wasPending {
		// T pending: record, input markers; a pending child spends T's output 0
		err := mwdb.Update(s.db, func(dbtx mwdb.DBTransaction) error { return s.tx.insertMemPoolTx(dbtx, a.rec) })
		rt.Assert(err == nil, "pending-record-written")
		ctx := wire.NewMsgTx()
		ctx.AddTxIn(wire.NewTxIn(&wire.OutPoint{Hash: a.rec.Hash, Index: 0}, nil))
		ctx.AddTxOut(wire.NewTxOut(1, vP2WSH(a.shOut)))
		a.child = &TxRecord{MsgTx: *ctx, Hash: vHash()}
		rt.Assume(a.child.Hash != a.rec.Hash && a.child.Hash != a.coin.outPoint.Hash && a.child.Hash != other.Hash)
		a.child.RelevantTxIn = []*RelevantMeta{{Index: 0, PkScript: vPk(vP2WSH(a.shOut)), WalletId: verifWID}}
		err = mwdb.Update(s.db, func(dbtx mwdb.DBTransaction) error { return s.tx.insertMemPoolTx(dbtx, a.child) })
		rt.Assert(err == nil, "pending-child-written")
	}
	return a
}

// VerifC01ApplyMinedTx: one step "a block confirms transaction T" on an arbitrary valid stored state.
func VerifC01ApplyMinedTx() {
	a := vApplySetup()
	s := a.s
	bal := map[string]massutil.Amount{verifWID: a.coin.amount}
	err := mwdb.Update(s.db, func(dbtx mwdb.DBTransaction) error { return s.tx.AddRelevantTx(dbtx, bal, a.rec, a.block) })
	rt.Assert(err == nil, "apply-succeeds")
	if err != nil {
		rt.Reach("end")
		return
	}
	// the spent coin: flagged with its spender, a debit under (T, input position), gone from the unspent index
	credKey := keyCredit(&a.coin.outPoint.Hash, a.coin.outPoint.Index, a.coin.block)
	cv := s.c.Lookup(credKey)
	rt.Assert(len(cv) == 121 && cv[8]&1 == 1, "spent-coin-flagged")
	wantDebitKey := keyDebit(&a.rec.Hash, uint32(a.relIn), a.block)
	rt.Assert(bytes.Equal(readCreditSpender(cv), wantDebitKey), "spender-recorded-on-the-coin")
	dk, dcred, derr := existsDebit(s.d, &a.rec.Hash, uint32(a.relIn), a.block)
	rt.Assert(derr == nil && dk != nil && bytes.Equal(dcred, credKey), "debit-found-under-spender-and-input-position")
	rt.Assert(len(s.d.Ents) == 1, "exactly-one-debit")
	rt.Assert(s.u.Lookup(canonicalUnspentKey(verifWID, &a.coin.outPoint.Hash, a.coin.outPoint.Index)) == nil, "spent-coin-left-the-unspent-index")
	// the new coin
	nk := keyCredit(&a.rec.Hash, 0, a.block)
	nv := s.c.Lookup(nk)
	rt.Assert(len(nv) == 45, "new-credit-stored")
	if len(nv) == 45 {
		var nc credit
		nc.block = &BlockMeta{}
		rt.Assert(readCreditValue(nv, &nc) == nil && nc.amount.UintValue() == a.outValue && !nc.flags.Spent && nc.maturity == 0 && bytes.Equal(nc.scriptHash, a.shOut), "new-credit-content")
	}
	rt.Assert(bytes.Equal(s.u.Lookup(canonicalUnspentKey(verifWID, &a.rec.Hash, 0)), valueUnspent(a.block)), "new-coin-in-the-unspent-index")
	rt.Assert(bal[verifWID].UintValue() == a.balBefore-a.coin.amount.UintValue()+a.outValue, "balance-delta")
	// transaction and block records
	_, tv := existsTxRecord(s.t, &a.rec.Hash, a.block)
	rt.Assert(len(tv) == 28, "transaction-record-stored")
	// pending bookkeeping: T settles exactly once, its pending child stays pending
	rt.Assert(s.m.Lookup(a.rec.Hash[:]) == nil, "settled-transaction-left-the-pending-set")
	rt.Assert(s.mi.Lookup(canonicalOutPoint(&a.coin.outPoint.Hash, a.coin.outPoint.Index)) == nil, "settled-input-marker-removed")
	if a.wasPending {
		rt.Assert(s.m.Lookup(a.child.Hash[:]) != nil, "pending-child-still-pending")
		marks := fetchUnminedInputSpendTxHashes(s.mi, canonicalOutPoint(&a.rec.Hash, 0))
		rt.Assert(len(marks) == 1 && marks[0] == a.child.Hash, "new-coin-still-marked-spent-by-the-pending-child")
	}
	rt.Reach("end")
}
