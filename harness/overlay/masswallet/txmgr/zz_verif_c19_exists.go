//go:build verif

package txmgr

import (
	"github.com/massnetorg/mass-core/database"
	"github.com/massnetorg/mass-core/wire"
	mwdb "massnet.org/mass-wallet/masswallet/db"
	rt "massnet.org/mass-wallet/zzverifrt"
)

// vChainAtLoc: the node returns the transaction at a recorded location of a block height.
type vChainAtLoc struct {
	vChain
	at *wire.MsgTx
}

func (c *vChainAtLoc) FetchTxByLoc(uint64, *wire.TxLoc) (*wire.MsgTx, error) { return c.at, nil }

// VerifC19ExistsTxOutpoint (property C19, the outpoints a client names in a fee estimate or a raw transaction):
// the wallet in use owns output i of a mined transaction T (1..3 outputs), spent or not. For ANY outpoint a client
// names, the real TxStore.ExistsTx returns a transaction only when the outpoint is that coin - so the output index
// its callers use on the returned transaction (estimateSignedSize, constructTxIn: mtx.TxOut[vout]) is in range -
// and it does return T for the coin itself.
func VerifC19ExistsTxOutpoint() {
	s := verifNewStores(verifWID)
	vTxReg, vTxIDReg, vTxIDs = nil, nil, nil
	nOut := rt.NondetLen(1, 3)
	i := uint32(rt.NondetLen(0, 2))
	rt.Assume(int(i) < nOut)
	sh := rt.NondetBytes(32)
	t := wire.NewMsgTx()
	t.AddTxIn(wire.NewTxIn(&wire.OutPoint{Hash: vHash(), Index: rt.NondetU32()}, nil))
	for k := 0; k < nOut; k++ {
		t.AddTxOut(wire.NewTxOut(int64(1000+k), vP2WSH(sh)))
	}
	vTxIDSeeds = []wire.Hash{vHash()}
	T := &TxRecord{MsgTx: *t, TxLoc: &wire.TxLoc{TxStart: 100, TxLen: 50}}
	T.Hash = T.MsgTx.TxHash()
	blk := &BlockMeta{Height: rt.NondetU64(), Hash: vHash(), Loc: &database.BlockLoc{File: 1, Offset: 2, Length: 3}}
	rt.Assume(blk.Height >= 1 && blk.Height < vMaxHeight)
	c := vCredit(sh)
	c.outPoint = wire.OutPoint{Hash: T.Hash, Index: i}
	c.block = blk
	spent := rt.NondetBool()
	vPutCredit(s, verifWID, c)
	if spent {
		s.u.Ents = nil // a spent coin has left the unspent index; its credit record stays
	}
	err := mwdb.Update(s.db, func(dbtx mwdb.DBTransaction) error {
		return putTxRecord(dbtx.FetchBucket(s.meta.nsTxRecords), T, blk)
	})
	rt.Assert(err == nil, "transaction-record-stored")
	s.tx.chainFetcher = &vChainAtLoc{at: &T.MsgTx}
	q := wire.OutPoint{Hash: T.Hash, Index: rt.NondetU32()}
	if rt.NondetBool() {
		q.Hash = vHash()
		rt.Assume(q.Hash != T.Hash) // another transaction's id (the id itself is the other branch)
	}
	var mtx *wire.MsgTx
	var meta *BlockMeta
	err = mwdb.View(s.db, func(rtx mwdb.ReadTransaction) (e error) {
		mtx, meta, e = s.tx.ExistsTx(rtx, &q)
		return
	})
	if err == nil {
		rt.Assert(mtx != nil && meta != nil, "a-found-transaction-is-returned")
		rt.Assert(q.Hash == T.Hash && q.Index == i, "a-transaction-is-found-only-for-an-outpoint-the-wallet-owns")
		if mtx != nil {
			rt.Assert(int(q.Index) < len(mtx.TxOut), "named-output-exists-in-the-returned-transaction")
		}
		rt.Reach("found")
	} else {
		rt.Assert(!(q.Hash == T.Hash && q.Index == i), "the-wallets-own-coin-is-found")
		rt.Reach("refused")
	}
	rt.Reach("end")
}
