//go:build verif

package txmgr

import (
	"bytes"
	"errors"

	"github.com/massnetorg/mass-core/database"
	"github.com/massnetorg/mass-core/massutil"
	"github.com/massnetorg/mass-core/wire"
	"massnet.org/mass-wallet/config"
	"massnet.org/mass-wallet/masswallet/ifc"
	mwdb "massnet.org/mass-wallet/masswallet/db"
	"massnet.org/mass-wallet/masswallet/keystore"
	rt "massnet.org/mass-wallet/zzverifrt"
)

// vChain: model of the node's block files for Rollback: the transaction at a recorded location.
type vChain struct {
	tx *wire.MsgTx
}

var errVChain = errors.New("model chain: not available")

func (c *vChain) FetchLastTxUntilHeight(*wire.Hash, uint64) (*wire.MsgTx, error) { return nil, errVChain }
func (c *vChain) FetchTxBySha(*wire.Hash) (*wire.MsgTx, error)                    { return nil, errVChain }
func (c *vChain) FetchTxByLoc(uint64, *wire.TxLoc) (*wire.MsgTx, error)            { return nil, errVChain }
func (c *vChain) FetchTxByFileLoc(*database.BlockLoc, *wire.TxLoc) (*wire.MsgTx, error) {
	return c.tx, nil
}
func (c *vChain) FetchBlockBySha(*wire.Hash) (*wire.MsgBlock, error)              { return nil, errVChain }
func (c *vChain) FetchBlockByHeight(uint64) (*wire.MsgBlock, error)               { return nil, errVChain }
func (c *vChain) FetchBlockHeaderByHeight(uint64) (*wire.BlockHeader, error)      { return nil, errVChain }
func (c *vChain) FetchBlockHeaderBySha(*wire.Hash) (*wire.BlockHeader, error)     { return nil, errVChain }
func (c *vChain) FetchBlockLocByHeight(uint64) (*database.BlockLoc, error)        { return nil, errVChain }
func (c *vChain) NewestSha() (*wire.Hash, uint64, error)                          { return nil, 0, errVChain }
func (c *vChain) CheckScriptHashUsed([]byte) (bool, error)                        { return false, errVChain }
func (c *vChain) FetchBlockShaByHeight(uint64) (*wire.Hash, error) { return nil, errVChain }
func (c *vChain) FetchScriptHashRelatedTx([][]byte, uint64, uint64, *config.Params) (*ifc.HeightSortedRelatedTx, error) {
	return nil, errVChain
}

// VerifC01RollbackMinedTx: one step "the block that confirmed T is disconnected" on the state produced by
// the real apply step: afterwards the wallet coin T spent is unspent again (index and balance restored), T's
// own output is no longer a mined coin, and T is a pending transaction again - recorded so that the readers
// of the pending set can decode it, with its input marked spent-by-pending.
func VerifC01RollbackMinedTx() { vRollbackMinedTx(false) }

// VerifC12RollbackAddressRecord: the same step when the paid address already has a record - issued and unused
// (height 0), or first paid in an earlier block: the record keeps the height of the first payment through the
// apply step, and the rollback of the later payment's block leaves it (the address is still used).
func VerifC12RollbackAddressRecord() { vRollbackMinedTx(true) }

func vRollbackMinedTx(hadRecord bool) {
	a := vApplySetupID(true)
	s := a.s
	// coins that exist one after the other never add up to more than the money supply (Rollback adds the
	// re-created coin to the balance before it takes the removed one off)
	rt.Assume(a.coin.amount.UintValue()+a.outValue <= massutil.MaxAmount().UintValue())
	// the wallet's addresses are known to the keystore manager
	for _, sh := range [][]byte{a.coin.scriptHash, a.shOut} {
		keystore.VerifAddAddressWithHash(s.utxo.ksmgr, verifWID, vPk(vP2WSH(sh)).StdEncodeAddress(), sh)
	}
	s.tx.chainFetcher = &vChain{tx: &a.rec.MsgTx}
	s.bal.Set([]byte(verifWID), []byte{0, 0, 0, 0, 0, 0, 0, 0})
	bal := map[string]massutil.Amount{verifWID: a.coin.amount}
	// C12: the paid address may already have a record: issued and unused (height 0) or first paid in an
	// earlier block (height h0 below this block)
	var h0 uint64
	if hadRecord {
		h0 = rt.NondetU64()
		rt.Assume(h0 < a.block.Height)
		ar := &addressRecord{walletId: verifWID, encodeAddress: vPk(vP2WSH(a.shOut)).StdEncodeAddress(), addressClass: massutil.AddressClassWitnessV0, blockHeight: h0}
		ak, kerr := keyAddressRecord(ar)
		rt.Assert(kerr == nil, "address-key")
		s.a.Set(ak, valueAddressRecord(ar))
	}
	err := mwdb.Update(s.db, func(dbtx mwdb.DBTransaction) error {
		if e := s.tx.AddRelevantTx(dbtx, bal, a.rec, a.block); e != nil {
			return e
		}
		if e := s.utxo.UpdateMinedBalances(dbtx, bal); e != nil {
			return e
		}
		// the block is the wallet's tip
		v := make([]byte, 36)
		copy(v, a.block.Hash[:])
		s.sy.Set(vHeightKey(a.block.Height), v)
		s.sy.Set([]byte(syncedToName), vHeightKey(a.block.Height))
		return nil
	})
	rt.Assert(err == nil, "apply-succeeds")
	if err != nil {
		rt.Reach("end")
		return
	}
	// the paid address is recorded as used from this block on (C12: used flag)
	if hadRecord && h0 > 0 {
		rt.Assert(len(s.a.Ents) == 1 && readAddressHeight(s.a.Ents[0].V) == h0, "address-record-keeps-the-height-of-its-first-payment")
	} else {
		rt.Assert(len(s.a.Ents) == 1 && readAddressHeight(s.a.Ents[0].V) == a.block.Height, "paid-address-marked-used-at-the-block-height")
	}
	err = mwdb.Update(s.db, func(dbtx mwdb.DBTransaction) error { return s.tx.Rollback(dbtx, a.block.Height) })
	rt.Assert(err == nil, "rollback-succeeds")
	if err != nil {
		rt.Reach("end")
		return
	}
	// the coin T spent is a plain unspent coin again
	credKey := keyCredit(&a.coin.outPoint.Hash, a.coin.outPoint.Index, a.coin.block)
	cv := s.c.Lookup(credKey)
	rt.Assert(len(cv) == 45 && cv[8]&1 == 0, "spent-coin-unspent-again")
	rt.Assert(bytes.Equal(s.u.Lookup(canonicalUnspentKey(verifWID, &a.coin.outPoint.Hash, a.coin.outPoint.Index)), valueUnspent(a.coin.block)), "spent-coin-back-in-the-unspent-index")
	rt.Assert(len(s.d.Ents) == 0, "debit-removed")
	// T's output is no mined coin any more, but a pending credit
	rt.Assert(s.c.Lookup(keyCredit(&a.rec.Hash, 0, a.block)) == nil, "rolled-back-credit-removed")
	rt.Assert(s.u.Lookup(canonicalUnspentKey(verifWID, &a.rec.Hash, 0)) == nil, "rolled-back-coin-left-the-unspent-index")
	rt.Assert(s.mc.Lookup(canonicalOutPoint(&a.rec.Hash, 0)) != nil, "rolled-back-output-is-a-pending-credit")
	// balance
	bv := s.bal.Lookup([]byte(verifWID))
	rt.Assert(len(bv) == 8, "balance-record")
	if len(bv) == 8 {
		var got uint64
		for _, b := range bv {
			got = got<<8 | uint64(b)
		}
		rt.Assert(got == a.balBefore, "balance-restored")
	}
	if hadRecord && h0 > 0 {
		rt.Assert(len(s.a.Ents) == 1 && readAddressHeight(s.a.Ents[0].V) == h0, "address-still-used-while-its-first-payment-is-on-the-chain")
		rt.Reach("later-payment-rolled-back")
	} else {
		used := false
		for _, e := range s.a.Ents {
			used = used || readAddressHeight(e.V) > 0
		}
		rt.Assert(!used, "address-no-longer-used-once-its-first-payment-is-gone")
		if hadRecord {
			// the address was issued (PutNewAddress wrote its record with height 0) before it was paid: it
			// stays listed, as unused
			rt.Assert(len(s.a.Ents) == 1, "issued-address-still-listed-after-its-first-payment-is-rolled-back")
			rt.Reach("first-payment-of-an-issued-address-rolled-back")
		}
	}
	// records of the disconnected block are gone
	_, tv := existsTxRecord(s.t, &a.rec.Hash, a.block)
	rt.Assert(tv == nil && len(s.b.Ents) == 0, "block-and-transaction-records-removed")
	// T is pending again, readable by the pending-set readers, its input marked
	pv := s.m.Lookup(a.rec.Hash[:])
	rt.Assert(pv != nil, "transaction-back-in-the-pending-set")
	if pv != nil {
		var back TxRecord
		derr := readRawUnmined(pv, &back)
		rt.Assert(derr == nil, "pending-record-decodes")
		if derr == nil {
			rt.Assert(len(back.MsgTx.TxIn) == 2 && back.MsgTx.TxIn[a.relIn].PreviousOutPoint == a.coin.outPoint && len(back.MsgTx.TxOut) == 1, "pending-record-is-the-transaction")
		}
	}
	marks := fetchUnminedInputSpendTxHashes(s.mi, canonicalOutPoint(&a.coin.outPoint.Hash, a.coin.outPoint.Index))
	rt.Assert(len(marks) == 1 && marks[0] == a.rec.Hash, "input-marked-spent-by-the-pending-transaction")
	rt.Reach("end")
}

// VerifC01RollbackSpendChain: the disconnected block holds a spend chain of the wallet: T1 spends the wallet's coin C
// and pays the wallet, T2 spends T1's output and pays the wallet (both applied by the real AddRelevantTx, in block
// order). After the real Rollback of that block the ledger is as before the block - C unspent and the only mined
// coin, the balance restored, no debit, no record of the block - and both transactions are pending again, T1's
// output a pending credit marked spent by T2, C marked spent by T1.
func VerifC01RollbackSpendChain() {
	vFixedIDs, vPinned, vPinCtr = true, true, 0
	defer func() { vFixedIDs, vPinned = false, false }()
	a := vApplySetupID(true)
	s := a.s
	rt.Assume(a.coin.amount.UintValue()+a.outValue <= massutil.MaxAmount().UintValue())
	sh2 := vScriptHash()
	for _, sh := range [][]byte{a.coin.scriptHash, a.shOut, sh2} {
		keystore.VerifAddAddressWithHash(s.utxo.ksmgr, verifWID, vPk(vP2WSH(sh)).StdEncodeAddress(), sh)
	}
	t2 := wire.NewMsgTx()
	t2.AddTxIn(wire.NewTxIn(&wire.OutPoint{Hash: a.rec.Hash, Index: 0}, nil))
	out2 := 500 + uint64(rt.NondetLen(0, 1))
	rt.Assume(out2 <= a.outValue)
	t2.AddTxOut(wire.NewTxOut(int64(out2), vP2WSH(sh2)))
	vTxIDSeeds = []wire.Hash{{0xA2}}
	T2 := &TxRecord{MsgTx: *t2, TxLoc: &wire.TxLoc{TxStart: 300, TxLen: 50}}
	T2.Hash = T2.MsgTx.TxHash()
	rt.Assume(T2.Hash != a.rec.Hash && T2.Hash != a.coin.outPoint.Hash)
	T2.RelevantTxIn = []*RelevantMeta{{Index: 0, PkScript: vPk(vP2WSH(a.shOut)), WalletId: verifWID}}
	T2.RelevantTxOut = []*RelevantMeta{{Index: 0, PkScript: vPk(vP2WSH(sh2)), WalletId: verifWID}}
	s.tx.chainFetcher = &vChainByLoc{byStart: map[int]*wire.MsgTx{100: &a.rec.MsgTx, 300: &T2.MsgTx}}
	s.bal.Set([]byte(verifWID), []byte{0, 0, 0, 0, 0, 0, 0, 0})
	bal := map[string]massutil.Amount{verifWID: a.coin.amount}
	err := mwdb.Update(s.db, func(dbtx mwdb.DBTransaction) error {
		if e := s.tx.AddRelevantTx(dbtx, bal, a.rec, a.block); e != nil {
			return e
		}
		if e := s.tx.AddRelevantTx(dbtx, bal, T2, a.block); e != nil {
			return e
		}
		if e := s.utxo.UpdateMinedBalances(dbtx, bal); e != nil {
			return e
		}
		v := make([]byte, 36)
		copy(v, a.block.Hash[:])
		s.sy.Set(vHeightKey(a.block.Height), v)
		s.sy.Set([]byte(syncedToName), vHeightKey(a.block.Height))
		return nil
	})
	rt.Assert(err == nil, "spend-chain-applied")
	if err != nil {
		rt.Reach("end")
		return
	}
	rt.Assert(bal[verifWID].UintValue() == out2, "balance-after-the-chain-is-the-last-output")
	err = mwdb.Update(s.db, func(dbtx mwdb.DBTransaction) error { return s.tx.Rollback(dbtx, a.block.Height) })
	rt.Assert(err == nil, "rollback-of-a-spend-chain-succeeds")
	if err != nil {
		rt.Reach("end")
		return
	}
	cv := s.c.Lookup(keyCredit(&a.coin.outPoint.Hash, a.coin.outPoint.Index, a.coin.block))
	rt.Assert(len(cv) == 45 && cv[8]&1 == 0 && len(s.c.Ents) == 1 && len(s.u.Ents) == 1 && len(s.d.Ents) == 0, "only-the-original-coin-remains-unspent")
	bv := s.bal.Lookup([]byte(verifWID))
	var got uint64
	for _, b := range bv {
		got = got<<8 | uint64(b)
	}
	rt.Assert(len(bv) == 8 && got == a.balBefore, "balance-restored")
	rt.Assert(len(s.t.Ents) == 0 && len(s.b.Ents) == 0, "block-and-transaction-records-removed")
	rt.Assert(s.m.Lookup(a.rec.Hash[:]) != nil && s.m.Lookup(T2.Hash[:]) != nil && len(s.m.Ents) == 2, "both-transactions-pending-again")
	m1 := fetchUnminedInputSpendTxHashes(s.mi, canonicalOutPoint(&a.coin.outPoint.Hash, a.coin.outPoint.Index))
	m2 := fetchUnminedInputSpendTxHashes(s.mi, canonicalOutPoint(&a.rec.Hash, 0))
	rt.Assert(len(m1) == 1 && m1[0] == a.rec.Hash && len(m2) == 1 && m2[0] == T2.Hash, "inputs-marked-spent-by-their-pending-spenders")
	rt.Assert(s.mc.Lookup(canonicalOutPoint(&a.rec.Hash, 0)) != nil && s.mc.Lookup(canonicalOutPoint(&T2.Hash, 0)) != nil, "outputs-are-pending-credits")
	rt.Reach("end")
}
