//go:build verif

package txmgr

import (
	"bytes"

	mwdb "massnet.org/mass-wallet/masswallet/db"
	rt "massnet.org/mass-wallet/zzverifrt"
)

// c01Classify: expected contribution of one stored credit to the balance of its script at tip T (single
// snapshot): the consensus rule is that an output created at height h with lock M can be spent by block
// T+1 iff (T+1)-h >= M, i.e. confirmations = T-h+1 >= M.
func c01Classify(c *credit, tip uint64, minConf uint32, poolSpends bool) (total, spendable, ws, wb uint64) {
	confs := tip - c.block.Height + 1
	amt := c.amount.UintValue()
	if confs < uint64(minConf) {
		return 0, 0, 0, 0
	}
	total = amt
	if confs >= uint64(c.maturity) && !poolSpends {
		switch c.flags.Class {
		case ClassBindingUtxo:
			wb = amt
		case ClassStakingUtxo:
			ws = amt
		default:
			spendable = amt
		}
	}
	return
}

// VerifC01BalanceOneCoin: ScriptAddressBalance over one arbitrary stored credit at a single snapshot.
func VerifC01BalanceOneCoin() {
	s := verifNewStores(verifWID)
	sh := rt.NondetBytes(32)
	c := vCredit(sh)
	tip := rt.NondetU64()
	rt.Assume(c.block.Height >= 1 && c.block.Height <= tip)
	vPutCredit(s, verifWID, c)
	minConf := rt.NondetU32()
	pool := &vPool{spent: rt.NondetBool()}
	query := rt.NondetBytes(32)
	var res map[string]*BalanceDetail
	err := mwdb.View(s.db, func(tx mwdb.ReadTransaction) error {
		r, e := s.utxo.ScriptAddressBalance(tx, map[string]struct{}{string(query): {}}, minConf, tip, pool)
		res = r
		return e
	})
	rt.Assert(err == nil, "balance-succeeds")
	b := res[string(query)]
	rt.Assert(b != nil, "queried-script-has-an-entry")
	if b != nil {
		wt, wsp, wws, wwb := uint64(0), uint64(0), uint64(0), uint64(0)
		if bytes.Equal(query, sh) {
			wt, wsp, wws, wwb = c01Classify(c, tip, minConf, pool.spent)
		}
		rt.Assert(b.Total.UintValue() == wt, "total")
		rt.Assert(b.Spendable.UintValue() == wsp, "spendable-iff-consensus-mature")
		rt.Assert(b.WithdrawableStaking.UintValue() == wws, "withdrawable-staking-iff-mature")
		rt.Assert(b.WithdrawableBinding.UintValue() == wwb, "withdrawable-binding-iff-mature")
	}
	rt.Reach("end")
}

// VerifC01BalanceTwoCoins: two stored credits (same or different scripts, second wallet's coin ignored):
// per-script grouping, no coin counted twice, other wallets' coins not counted.
func VerifC01BalanceTwoCoins() {
	s := verifNewStores(verifWID)
	sh1, sh2 := rt.NondetBytes(32), rt.NondetBytes(32)
	c1, c2 := vCredit(sh1), vCredit(sh2)
	tip := rt.NondetU64()
	rt.Assume(c1.block.Height >= 1 && c1.block.Height <= tip && c2.block.Height >= 1 && c2.block.Height <= tip)
	rt.Assume(c1.outPoint != c2.outPoint)
	// amounts small enough that the sum stays in range
	rt.Assume(c1.amount.UintValue() <= vMaxAmount/2 && c2.amount.UintValue() <= vMaxAmount/2)
	vPutCredit(s, verifWID, c1)
	owner2 := verifWID
	if rt.NondetBool() {
		owner2 = verifWID2
	}
	vPutCredit(s, owner2, c2)
	minConf := rt.NondetU32()
	pool := &vPool{spent: false}
	var res map[string]*BalanceDetail
	err := mwdb.View(s.db, func(tx mwdb.ReadTransaction) error {
		r, e := s.utxo.ScriptAddressBalance(tx, map[string]struct{}{string(sh1): {}}, minConf, tip, pool)
		res = r
		return e
	})
	rt.Assert(err == nil, "balance-succeeds")
	b := res[string(sh1)]
	rt.Assert(b != nil, "entry")
	if b != nil {
		t1, s1, ws1, wb1 := c01Classify(c1, tip, minConf, false)
		if owner2 == verifWID && bytes.Equal(sh1, sh2) {
			t2, s2, ws2, wb2 := c01Classify(c2, tip, minConf, false)
			t1, s1, ws1, wb1 = t1+t2, s1+s2, ws1+ws2, wb1+wb2
		}
		rt.Assert(b.Total.UintValue() == t1, "total-groups-by-script-and-wallet")
		rt.Assert(b.Spendable.UintValue() == s1 && b.WithdrawableStaking.UintValue() == ws1 && b.WithdrawableBinding.UintValue() == wb1, "classes-group-by-script-and-wallet")
	}
	rt.Reach("end")
}

// VerifC01UnspentsOneCoin: ScriptAddressUnspents returns the stored coin with its stored attributes and
// confirmations = tip-h+1 at a single snapshot.
func VerifC01UnspentsOneCoin() {
	s := verifNewStores(verifWID)
	sh := rt.NondetBytes(32)
	c := vCredit(sh)
	tip := rt.NondetU64()
	rt.Assume(c.block.Height >= 1 && c.block.Height <= tip && tip-c.block.Height+1 <= 0xffffffff)
	vPutCredit(s, verifWID, c)
	query := rt.NondetBytes(32)
	var got []*Credit
	err := mwdb.View(s.db, func(tx mwdb.ReadTransaction) error {
		m, e := s.utxo.ScriptAddressUnspents(tx, map[string]struct{}{string(query): {}}, tip, func(*Credit) (bool, bool) { return false, true })
		got = m[string(query)]
		return e
	})
	rt.Assert(err == nil, "listing-succeeds")
	if bytes.Equal(query, sh) {
		rt.Assert(len(got) == 1, "coin-listed-once")
		if len(got) == 1 {
			g := got[0]
			rt.Assert(g.OutPoint == c.outPoint && g.Height == c.block.Height && g.BlockMeta.Hash == c.block.Hash, "identity-and-block")
			rt.Assert(g.Amount.UintValue() == c.amount.UintValue() && g.Maturity == c.maturity, "amount-and-maturity")
			rt.Assert(uint64(g.Confirmations) == tip-c.block.Height+1, "confirmations")
			rt.Assert(g.Flags.Class == c.flags.Class && g.Flags.Change == c.flags.Change && !g.Flags.Spent, "flags")
			rt.Assert(bytes.Equal(g.ScriptHash, sh), "script-hash")
		}
	} else {
		rt.Assert(len(got) == 0, "other-script-not-listed")
	}
	rt.Reach("end")
}
