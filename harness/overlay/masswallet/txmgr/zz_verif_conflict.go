//go:build verif

package txmgr

import (
	"github.com/massnetorg/mass-core/blockchain"
	"github.com/massnetorg/mass-core/database"
	"github.com/massnetorg/mass-core/massutil"
	"github.com/massnetorg/mass-core/wire"
	mwdb "massnet.org/mass-wallet/masswallet/db"
	rt "massnet.org/mass-wallet/zzverifrt"
)

// VerifC09ConflictConfirms: the wallet owns coins C and D. An unconfirmed transaction P spending both and paying
// the wallet is received (the real AddRelevantTx with no block), then an unconfirmed child Q spending P's output.
// While they are pending the coins they spend are marked, the coins they create are pending credits only, and
// nothing confirmed changes. Then a block confirms T, which spends C too (a double spend of P): P and its
// descendant Q vanish from the pending set with their markers and pending credits, D is free again, C is spent
// by T, and T's output is an ordinary coin.
func VerifC09ConflictConfirms() {
	s := verifNewStores(verifWID)
	vTxReg, vTxIDReg, vTxIDs = nil, nil, nil
	shC, shD, shOut := rt.NondetBytes(32), rt.NondetBytes(32), rt.NondetBytes(32)
	C, D := vCredit(shC), vCredit(shD)
	C.flags.Class, D.flags.Class = ClassStandardUtxo, ClassStandardUtxo
	rt.Assume(C.outPoint != D.outPoint)
	// one block holds one version of a transaction: coins of the same transaction share its block
	rt.Assume(C.outPoint.Hash != D.outPoint.Hash || (C.block.Height == D.block.Height && C.block.Hash == D.block.Hash))
	vPutCredit(s, verifWID, C)
	vPutCredit(s, verifWID, D)
	credits0, unspent0 := len(s.c.Ents), len(s.u.Ents)

	// P: pending, inputs C and D (in an arbitrary order), output 0 to the wallet
	ptx := wire.NewMsgTx()
	cPos := rt.NondetLen(0, 1)
	for i := 0; i < 2; i++ {
		op := D.outPoint
		if i == cPos {
			op = C.outPoint
		}
		ptx.AddTxIn(wire.NewTxIn(&op, nil))
	}
	rt.Assume(!blockchain.IsCoinBaseTx(ptx))
	ptx.AddTxOut(wire.NewTxOut(int64(rt.NondetU32())+1, vP2WSH(shOut)))
	P := &TxRecord{MsgTx: *ptx, Hash: vHash()}
	P.RelevantTxIn = []*RelevantMeta{{Index: cPos, PkScript: vPk(vP2WSH(shC)), WalletId: verifWID}, {Index: 1 - cPos, PkScript: vPk(vP2WSH(shD)), WalletId: verifWID}}
	P.RelevantTxOut = []*RelevantMeta{{Index: 0, PkScript: vPk(vP2WSH(shOut)), WalletId: verifWID}}
	// Q: pending child of P
	qtx := wire.NewMsgTx()
	qtx.AddTxIn(wire.NewTxIn(&wire.OutPoint{Hash: P.Hash, Index: 0}, nil))
	qtx.AddTxOut(wire.NewTxOut(1, vP2WSH(shOut)))
	Q := &TxRecord{MsgTx: *qtx, Hash: vHash()}
	Q.RelevantTxIn = []*RelevantMeta{{Index: 0, PkScript: vPk(vP2WSH(shOut)), WalletId: verifWID}}
	Q.RelevantTxOut = []*RelevantMeta{{Index: 0, PkScript: vPk(vP2WSH(shOut)), WalletId: verifWID}}
	// T: the confirmed double spend of C
	ttx := wire.NewMsgTx()
	other := wire.OutPoint{Hash: vHash(), Index: rt.NondetU32()}
	tPos := rt.NondetLen(0, 1)
	for i := 0; i < 2; i++ {
		op := other
		if i == tPos {
			op = C.outPoint
		}
		ttx.AddTxIn(wire.NewTxIn(&op, nil))
	}
	rt.Assume(!blockchain.IsCoinBaseTx(ttx))
	tOut := uint64(rt.NondetU32()) + 1
	ttx.AddTxOut(wire.NewTxOut(int64(tOut), vP2WSH(shOut)))
	T := &TxRecord{MsgTx: *ttx, Hash: vHash(), TxLoc: &wire.TxLoc{TxStart: 100, TxLen: 200}}
	T.RelevantTxIn = []*RelevantMeta{{Index: tPos, PkScript: vPk(vP2WSH(shC)), WalletId: verifWID}}
	T.RelevantTxOut = []*RelevantMeta{{Index: 0, PkScript: vPk(vP2WSH(shOut)), WalletId: verifWID}}
	// transaction ids are distinct, and no transaction spends itself or the stranger's outpoint twice
	ids := []wire.Hash{P.Hash, Q.Hash, T.Hash, C.outPoint.Hash, D.outPoint.Hash, other.Hash}
	for i := 0; i < 3; i++ {
		for j := i + 1; j < len(ids); j++ {
			rt.Assume(ids[i] != ids[j])
		}
	}
	rt.Assume(other != C.outPoint && other != D.outPoint)
	block := &BlockMeta{Height: rt.NondetU64(), Hash: vHash(), Loc: &database.BlockLoc{File: 1, Offset: 2, Length: 3}}
	rt.Assume(block.Height > C.block.Height && block.Height > D.block.Height && block.Height < vMaxHeight)

	bal := map[string]massutil.Amount{verifWID: C.amount}
	bal0 := bal[verifWID].UintValue()
	err := mwdb.Update(s.db, func(dbtx mwdb.DBTransaction) error {
		if e := s.tx.AddRelevantTx(dbtx, bal, P, nil); e != nil {
			return e
		}
		return s.tx.AddRelevantTx(dbtx, bal, Q, nil)
	})
	rt.Assert(err == nil, "pending-transactions-accepted")
	if err != nil {
		rt.Reach("end")
		return
	}
	opC := canonicalOutPoint(&C.outPoint.Hash, C.outPoint.Index)
	opD := canonicalOutPoint(&D.outPoint.Hash, D.outPoint.Index)
	opP0 := canonicalOutPoint(&P.Hash, 0)
	opQ0 := canonicalOutPoint(&Q.Hash, 0)
	mk := func(k []byte, h wire.Hash) bool {
		m := fetchUnminedInputSpendTxHashes(s.mi, k)
		return len(m) == 1 && m[0] == h
	}
	rt.Assert(mk(opC, P.Hash) && mk(opD, P.Hash) && mk(opP0, Q.Hash), "pending-spenders-marked-on-every-coin-they-spend")
	rt.Assert(s.mc.Lookup(opP0) != nil && s.mc.Lookup(opQ0) != nil, "pending-outputs-are-pending-credits")
	rt.Assert(len(s.c.Ents) == credits0 && len(s.u.Ents) == unspent0 && bal[verifWID].UintValue() == bal0, "pending-transactions-change-nothing-confirmed")
	rt.Assert(s.m.Lookup(P.Hash[:]) != nil && s.m.Lookup(Q.Hash[:]) != nil, "pending-records-stored")

	err = mwdb.Update(s.db, func(dbtx mwdb.DBTransaction) error { return s.tx.AddRelevantTx(dbtx, bal, T, block) })
	rt.Assert(err == nil, "conflicting-block-transaction-applied")
	if err != nil {
		rt.Reach("end")
		return
	}
	rt.Assert(s.m.Lookup(P.Hash[:]) == nil && s.m.Lookup(Q.Hash[:]) == nil && len(s.m.Ents) == 0, "conflicting-pending-transaction-and-its-descendant-vanish")
	rt.Assert(len(s.mi.Ents) == 0, "no-marker-of-the-vanished-transactions-remains")
	rt.Assert(len(s.mc.Ents) == 0, "no-pending-credit-of-the-vanished-transactions-remains")
	// D is free again: an unspent, unmarked coin
	dv := s.c.Lookup(keyCredit(&D.outPoint.Hash, D.outPoint.Index, D.block))
	rt.Assert(len(dv) == 45 && dv[8]&1 == 0 && s.u.Lookup(canonicalUnspentKey(verifWID, &D.outPoint.Hash, D.outPoint.Index)) != nil, "other-coin-of-the-vanished-transaction-is-free-again")
	// C is spent by T
	cv := s.c.Lookup(keyCredit(&C.outPoint.Hash, C.outPoint.Index, C.block))
	rt.Assert(len(cv) == 121 && cv[8]&1 == 1 && s.u.Lookup(canonicalUnspentKey(verifWID, &C.outPoint.Hash, C.outPoint.Index)) == nil, "double-spent-coin-is-spent-by-the-confirmed-transaction")
	// T's output is an ordinary coin
	rt.Assert(len(s.c.Lookup(keyCredit(&T.Hash, 0, block))) == 45 && s.u.Lookup(canonicalUnspentKey(verifWID, &T.Hash, 0)) != nil, "confirmed-output-is-an-ordinary-coin")
	rt.Assert(bal[verifWID].UintValue() == bal0-C.amount.UintValue()+tOut, "balance-delta")
	rt.Reach("end")
}
