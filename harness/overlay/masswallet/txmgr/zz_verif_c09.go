//go:build verif

package txmgr

import (
	"github.com/massnetorg/mass-core/wire"
	mwdb "massnet.org/mass-wallet/masswallet/db"
	rt "massnet.org/mass-wallet/zzverifrt"
)

// c09Setup: one unspent coin of the wallet paying scriptHash sh; optionally a pending transaction spends it,
// recorded by the real writer insertUnminedInputs.
func c09Setup(pending bool) (*vStores, *credit, []byte, uint64) {
	s := verifNewStores(verifWID)
	sh := rt.NondetBytes(32)
	c := vCredit(sh)
	tip := rt.NondetU64()
	rt.Assume(c.block.Height >= 1 && c.block.Height <= tip)
	vPutCredit(s, verifWID, c)
	if pending {
		spender := &TxRecord{Hash: vHash()}
		spender.MsgTx.AddTxIn(wire.NewTxIn(&c.outPoint, nil))
		spender.RelevantTxIn = []*RelevantMeta{{Index: 0, WalletId: verifWID}}
		err := mwdb.Update(s.db, func(tx mwdb.DBTransaction) error { return s.utxo.insertUnminedInputs(tx, spender) })
		rt.Assert(err == nil, "pending-input-recorded")
	}
	return s, c, sh, tip
}

// VerifC09FlagInUnspents: the coin list marks a coin spent-by-pending exactly when a pending transaction
// spends it.
func VerifC09FlagInUnspents() {
	pending := rt.NondetBool()
	s, c, sh, tip := c09Setup(pending)
	var got []*Credit
	err := mwdb.View(s.db, func(tx mwdb.ReadTransaction) error {
		m, e := s.utxo.ScriptAddressUnspents(tx, map[string]struct{}{string(sh): {}}, tip,
			func(*Credit) (bool, bool) { return false, true })
		got = m[string(sh)]
		return e
	})
	rt.Assert(err == nil, "listing-succeeds")
	rt.Assert(len(got) == 1, "coin-listed-once")
	if len(got) == 1 {
		rt.Assert(got[0].OutPoint == c.outPoint && got[0].Amount.UintValue() == c.amount.UintValue(), "coin-identity")
		rt.Assert(got[0].Flags.SpentByUnmined == pending, "flag-iff-pending-spender")
		rt.Assert(!got[0].Flags.Spent, "not-mined-spent")
	}
	rt.Reach("end")
}

// VerifC09FlagInExistsUtxo: the single-coin look-up used by transaction construction reports the same flag.
func VerifC09FlagInExistsUtxo() {
	pending := rt.NondetBool()
	s, c, _, _ := c09Setup(pending)
	var flags *UtxoFlags
	err := mwdb.View(s.db, func(tx mwdb.ReadTransaction) error {
		f, e := s.tx.ExistsUtxo(tx, &c.outPoint)
		flags = f
		return e
	})
	rt.Assert(err == nil && flags != nil, "coin-found")
	if err == nil && flags != nil {
		rt.Assert(flags.SpentByUnmined == pending, "flag-iff-pending-spender")
		rt.Assert(!flags.Spent && !flags.IsUnmined, "mined-unspent")
	}
	rt.Reach("end")
}

// VerifC09PendingSpendersList: putRawUnminedInput appends; fetchUnminedInputSpendTxHashes returns the
// hashes in order.
func VerifC09PendingSpendersList() {
	s := verifNewStores(verifWID)
	k := canonicalOutPoint(&wire.Hash{1}, rt.NondetU32())
	n := rt.NondetLen(0, 3)
	var hs []wire.Hash
	err := mwdb.Update(s.db, func(tx mwdb.DBTransaction) error {
		ns := tx.FetchBucket(s.meta.nsUnminedInputs)
		for i := 0; i < n; i++ {
			h := vHash()
			hs = append(hs, h)
			if e := putRawUnminedInput(ns, k, h[:]); e != nil {
				return e
			}
		}
		return nil
	})
	rt.Assert(err == nil, "puts-succeed")
	got := fetchUnminedInputSpendTxHashes(s.mi, k)
	rt.Assert(len(got) == n, "all-spenders-listed")
	for i := 0; i < len(got) && i < n; i++ {
		rt.Assert(got[i] == hs[i], "in-order")
	}
	rt.Reach("end")
}
