//go:build verif

package txmgr

import (
	"bytes"

	"github.com/massnetorg/mass-core/blockchain"
	"github.com/massnetorg/mass-core/database"
	"github.com/massnetorg/mass-core/massutil"
	"github.com/massnetorg/mass-core/wire"
	mwdb "massnet.org/mass-wallet/masswallet/db"
	rt "massnet.org/mass-wallet/zzverifrt"
)

// VerifC07ImportSharedTx: the rescan's insert step (the real AddRelevantTxForImporting) for a transaction the
// node already knows because another, ready wallet V is party to it. The restored wallet W owns coin C;
// transaction T spends C and pays V (output 0) and W (output 1, change). T was recorded live for V only (W was
// not followed yet), or was not recorded at all. After the import step W's ledger is what watching the block
// live would have given it: C spent by T, the change coin recorded and unspent, the balance moved by
// change - C; V's coin is byte-identical, and T has exactly one transaction record and one place in its block.
func VerifC07ImportSharedTx() {
	s := verifNewStores(verifWID) // W = verifWID, V = verifWID2
	const V = verifWID2
	vTxReg, vTxIDReg, vTxIDs = nil, nil, nil
	shC, shV, shW := rt.NondetBytes(32), rt.NondetBytes(32), rt.NondetBytes(32)
	C := vCredit(shC)
	C.flags.Class = ClassStandardUtxo
	vPutCredit(s, verifWID, C)
	cPos := rt.NondetLen(0, 1)
	other := wire.OutPoint{Hash: vHash(), Index: rt.NondetU32()}
	rt.Assume(other != C.outPoint)
	tx := wire.NewMsgTx()
	for i := 0; i < 2; i++ {
		op := other
		if i == cPos {
			op = C.outPoint
		}
		tx.AddTxIn(wire.NewTxIn(&op, nil))
	}
	rt.Assume(!blockchain.IsCoinBaseTx(tx))
	toV, change := uint64(rt.NondetU32())+1, uint64(rt.NondetU32())+1
	tx.AddTxOut(wire.NewTxOut(int64(toV), vP2WSH(shV)))
	tx.AddTxOut(wire.NewTxOut(int64(change), vP2WSH(shW)))
	tid := vHash()
	rt.Assume(tid != C.outPoint.Hash && tid != other.Hash)
	block := &BlockMeta{Height: rt.NondetU64(), Hash: vHash(), Loc: &database.BlockLoc{File: 1, Offset: 2, Length: 3}}
	rt.Assume(block.Height > C.block.Height && block.Height >= 1 && block.Height < vMaxHeight)
	s.bal.Set([]byte(verifWID), []byte{0, 0, 0, 0, 0, 0, 0, 0})
	s.bal.Set([]byte(V), []byte{0, 0, 0, 0, 0, 0, 0, 0})
	// live: T recorded for V only
	knownLive := rt.NondetBool()
	if knownLive {
		live := &TxRecord{MsgTx: *tx, Hash: tid, TxLoc: &wire.TxLoc{TxStart: 100, TxLen: 200}}
		live.RelevantTxOut = []*RelevantMeta{{Index: 0, PkScript: vPk(vP2WSH(shV)), WalletId: V}}
		balV := map[string]massutil.Amount{V: massutil.ZeroAmount()}
		err := mwdb.Update(s.db, func(dbtx mwdb.DBTransaction) error { return s.tx.AddRelevantTx(dbtx, balV, live, block) })
		rt.Assert(err == nil, "live-record-for-the-ready-wallet")
	}
	kV := keyCredit(&tid, 0, block)
	vBefore := append([]byte(nil), s.c.Lookup(kV)...)
	// the rescan reaches the block
	rec := &TxRecord{MsgTx: *tx, Hash: tid, TxLoc: &wire.TxLoc{TxStart: 100, TxLen: 200}}
	rec.RelevantTxIn = []*RelevantMeta{{Index: cPos, PkScript: vPk(vP2WSH(shC)), WalletId: verifWID}}
	rec.RelevantTxOut = []*RelevantMeta{{Index: 1, PkScript: vPk(vP2WSH(shW)), WalletId: verifWID}}
	bal := map[string]massutil.Amount{verifWID: C.amount}
	err := mwdb.Update(s.db, func(dbtx mwdb.DBTransaction) error { return s.tx.AddRelevantTxForImporting(dbtx, bal, rec, block) })
	rt.Assert(err == nil, "import-step-succeeds")
	if err != nil {
		rt.Reach("end")
		return
	}
	cv := s.c.Lookup(keyCredit(&C.outPoint.Hash, C.outPoint.Index, C.block))
	rt.Assert(len(cv) == 121 && cv[8]&1 == 1 && s.u.Lookup(canonicalUnspentKey(verifWID, &C.outPoint.Hash, C.outPoint.Index)) == nil, "restored-wallets-spent-coin-is-spent")
	dk, _, derr := existsDebit(s.d, &tid, uint32(cPos), block)
	rt.Assert(derr == nil && dk != nil && len(s.d.Ents) == 1, "debit-recorded-once")
	rt.Assert(len(s.c.Lookup(keyCredit(&tid, 1, block))) == 45 && s.u.Lookup(canonicalUnspentKey(verifWID, &tid, 1)) != nil, "restored-wallets-change-coin-recorded")
	rt.Assert(bal[verifWID].UintValue() == change, "balance-is-what-live-watching-gives")
	if knownLive {
		rt.Assert(bytes.Equal(s.c.Lookup(kV), vBefore) && len(vBefore) == 45, "other-wallets-coin-untouched")
	}
	rt.Assert(len(s.t.Ents) == 1, "one-transaction-record")
	var br blockRecord
	_, bv, _ := existsBlockRecord(s.b, block.Height)
	rt.Assert(bv != nil && readRawBlockRecord(keyBlockRecord(block.Height), bv, &br) == nil && len(br.transactions) == 1 && br.transactions[0] == tid, "transaction-listed-once-in-its-block")
	rt.Reach("end")
}
