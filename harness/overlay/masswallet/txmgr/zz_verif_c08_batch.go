//go:build verif

package txmgr

import (
	"bytes"

	"github.com/massnetorg/mass-core/massutil"
	"github.com/massnetorg/mass-core/wire"
	mwdb "massnet.org/mass-wallet/masswallet/db"
	"massnet.org/mass-wallet/masswallet/keystore"
	rt "massnet.org/mass-wallet/zzverifrt"
)

// vBatchLimit: the number of credits one removal step erases before it hands back to its caller (the literal
// 20000 in removeRelevantCredit). Under the symbolic executor the literal is scaled down to 2 (registry option
// scale_consts) and this function is redirected to vBatchLimitModel; native replays run the real limit with
// 20001 coins.
func vBatchLimit() int      { return 20000 }
func vBatchLimitModel() int { return 2 }

// VerifC08SweepBatches: the removed wallet R owns one credit more than a removal step erases; a kept wallet owns
// one credit. The real RemoveRelevantTx is repeated the way asyncRemove repeats it. A step that reports
// "finished" has left no credit of R behind; an unfinished step has erased at least one; the kept wallet's
// credit is never touched.
func VerifC08SweepBatches() {
	s := verifNewStores(verifWID)
	const R = verifWID2
	hR, hK := rt.NondetBytes(32), rt.NondetBytes(32)
	rt.Assume(!bytes.Equal(hR, hK))
	amR := keystore.VerifNewAddrManager(R, vPk(vP2WSH(hR)).StdEncodeAddress(), hR)
	keystore.VerifAddManager(s.utxo.ksmgr, amR)
	keystore.VerifAddAddressWithHash(s.utxo.ksmgr, verifWID, vPk(vP2WSH(hK)).StdEncodeAddress(), hK)
	limit := vBatchLimit()
	// two arbitrary unspent credits of R, the rest fixed and pairwise distinct
	var keys [][]byte
	for i := 0; i < 2; i++ {
		c := vCredit(hR)
		c.flags.Class = ClassStandardUtxo
		rt.Assume(c.outPoint.Hash[0] != 0xEE && c.block.Height >= 1 && c.block.Height < vMaxHeight)
		k := keyCredit(&c.outPoint.Hash, c.outPoint.Index, c.block)
		for _, o := range keys {
			rt.Assume(!bytes.Equal(o, k))
		}
		keys = append(keys, k)
		vPutCredit(s, R, c)
	}
	one, _ := massutil.NewAmountFromUint(1)
	for i := 2; i <= limit; i++ {
		c := &credit{outPoint: wire.OutPoint{Hash: wire.Hash{0xEE, byte(i >> 16), byte(i >> 8), byte(i)}}, block: &BlockMeta{Height: 5, Hash: wire.Hash{0xB5}},
			amount: one, scriptHash: hR}
		vPutCredit(s, R, c)
	}
	kc := vCredit(hK)
	kc.flags.Class = ClassStandardUtxo
	kk := keyCredit(&kc.outPoint.Hash, kc.outPoint.Index, kc.block)
	for _, o := range keys {
		rt.Assume(!bytes.Equal(o, kk))
	}
	rt.Assume(kc.outPoint.Hash[0] != 0xEE && kc.block.Height >= 1 && kc.block.Height < vMaxHeight)
	vPutCredit(s, verifWID, kc)
	keptBefore := append([]byte(nil), s.c.Lookup(kk)...)
	total := limit + 1
	rt.Assert(len(s.c.Ents) == total+1, "credits-stored")
	ofR := func() int {
		n := 0
		for _, e := range s.c.Ents {
			if len(e.V) >= 45 && bytes.Equal(e.V[13:45], hR) {
				n++
			}
		}
		return n
	}
	finished := false
	for round := 0; round < 3 && !finished; round++ {
		before := ofR()
		var finish bool
		err := mwdb.Update(s.db, func(dbtx mwdb.DBTransaction) (e error) {
			_, finish, e = s.tx.RemoveRelevantTx(dbtx, amR)
			return
		})
		rt.Assert(err == nil, "removal-step-succeeds")
		if err != nil {
			rt.Reach("end")
			return
		}
		after := ofR()
		if finish {
			rt.Assert(after == 0, "a-step-that-reports-finished-left-no-credit-of-the-removed-wallet")
			finished = true
		} else {
			rt.Assert(after < before, "an-unfinished-step-erased-something")
			rt.Reach("limit-hit")
		}
		rt.Assert(bytes.Equal(s.c.Lookup(kk), keptBefore), "kept-wallets-credit-untouched")
	}
	rt.Assert(finished, "removal-finishes-within-three-steps")
	rt.Reach("end")
}

// VerifC08BlockRecordAfterRemoval: a block record listing 1..4 transactions (written by the real putBlockRecord /
// appendRawBlockRecord, as the apply step writes it); an arbitrary non-empty subset of them is erased by a wallet
// removal. The real checkBlockRecordAfterTxRemoved leaves exactly the surviving transactions, in order, under the
// same block, or no record when none survives: other wallets' transactions stay listed (and so stay reachable for
// a later rollback of that block).
func VerifC08BlockRecordAfterRemoval() {
	s := verifNewStores(verifWID)
	n := rt.NondetLen(1, 4)
	blk := &BlockMeta{Height: rt.NondetU64(), Hash: vHash()}
	rt.Assume(blk.Height < vMaxHeight)
	hashes := make([]wire.Hash, n)
	gone := map[wire.Hash]struct{}{}
	var survivors []wire.Hash
	for i := 0; i < n; i++ {
		hashes[i] = vHash()
		for j := 0; j < i; j++ {
			rt.Assume(hashes[i] != hashes[j])
		}
		if rt.NondetBool() {
			gone[hashes[i]] = struct{}{}
		} else {
			survivors = append(survivors, hashes[i])
		}
	}
	rt.Assume(len(gone) > 0)
	err := mwdb.Update(s.db, func(dbtx mwdb.DBTransaction) error {
		ns := dbtx.FetchBucket(s.meta.nsBlocks)
		if e := putBlockRecord(ns, blk, &hashes[0]); e != nil {
			return e
		}
		for i := 1; i < n; i++ {
			_, v, e := existsBlockRecord(ns, blk.Height)
			if e != nil {
				return e
			}
			nv, e := appendRawBlockRecord(v, &hashes[i])
			if e != nil {
				return e
			}
			if e := putRawBlockRecord(ns, keyBlockRecord(blk.Height), nv); e != nil {
				return e
			}
		}
		return s.tx.checkBlockRecordAfterTxRemoved(ns, map[uint64]map[wire.Hash]struct{}{blk.Height: gone})
	})
	rt.Assert(err == nil, "block-record-updated")
	if err != nil {
		rt.Reach("end")
		return
	}
	k, v, _ := existsBlockRecord(s.b, blk.Height)
	if len(survivors) == 0 {
		rt.Assert(v == nil, "block-record-without-transactions-erased")
		rt.Reach("erased")
	} else {
		var br blockRecord
		rt.Assert(v != nil && readRawBlockRecord(k, v, &br) == nil, "block-record-kept-and-readable")
		if v != nil {
			ok := len(br.transactions) == len(survivors) && br.Hash == blk.Hash && br.Height == blk.Height
			for i := 0; ok && i < len(survivors); i++ {
				ok = br.transactions[i] == survivors[i]
			}
			rt.Assert(ok, "block-record-lists-exactly-the-surviving-transactions")
		}
		rt.Reach("kept")
	}
	rt.Reach("end")
}
