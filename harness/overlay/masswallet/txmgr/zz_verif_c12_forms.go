//go:build verif

package txmgr

import (
	"encoding/binary"

	"github.com/massnetorg/mass-core/blockchain"
	"github.com/massnetorg/mass-core/database"
	"github.com/massnetorg/mass-core/massutil"
	"github.com/massnetorg/mass-core/txscript"
	"github.com/massnetorg/mass-core/wire"
	mwdb "massnet.org/mass-wallet/masswallet/db"
	"massnet.org/mass-wallet/masswallet/keystore"
	rt "massnet.org/mass-wallet/zzverifrt"
)

// VerifC12BothFormsPaid: one mined transaction pays the standard form and the staking form of the same key (the two
// forms share the script hash but are two addresses with two records), in either output order: after the real apply
// step both address records exist and both are marked used from the block's height.
func VerifC12BothFormsPaid() {
	s := verifNewStores(verifWID)
	vTxReg, vTxIDReg, vTxIDs = nil, nil, nil
	sh, frozen := rt.NondetBytes(32), rt.NondetBytes(8)
	stk := vStakingScript(sh, frozen)
	class, pops := txscript.GetScriptInfo(stk)
	rt.Assume(class == txscript.StakingScriptHashTy)
	fp, _, perr := txscript.GetParsedOpcode(pops, class)
	rt.Assert(perr == nil, "consensus-reads-the-frozen-period")
	rt.Assume(wire.IsValidFrozenPeriod(fp))
	std := vP2WSH(sh)
	psStd := vPk(std)
	keystore.VerifAddAddressWithHash(s.utxo.ksmgr, verifWID, psStd.StdEncodeAddress(), sh)
	scripts := [2][]byte{std, stk}
	stakingFirst := rt.NondetBool()
	if stakingFirst {
		scripts = [2][]byte{stk, std}
	}
	tx := wire.NewMsgTx()
	tx.AddTxIn(wire.NewTxIn(&wire.OutPoint{Hash: vHash(), Index: rt.NondetU32()}, nil))
	tx.AddTxOut(wire.NewTxOut(10, scripts[0]))
	tx.AddTxOut(wire.NewTxOut(11, scripts[1]))
	rt.Assume(!blockchain.IsCoinBaseTx(tx))
	vTxIDSeeds = []wire.Hash{vHash()}
	T := &TxRecord{MsgTx: *tx, TxLoc: &wire.TxLoc{TxStart: 100, TxLen: 50}}
	T.Hash = T.MsgTx.TxHash()
	T.RelevantTxOut = []*RelevantMeta{{Index: 0, PkScript: vPk(scripts[0]), WalletId: verifWID}, {Index: 1, PkScript: vPk(scripts[1]), WalletId: verifWID}}
	b := &BlockMeta{Height: rt.NondetU64(), Hash: vHash(), Loc: &database.BlockLoc{File: 1, Offset: 2, Length: 3}}
	rt.Assume(b.Height >= 1 && b.Height < vMaxHeight)
	s.tx.chainFetcher = &vChainByLoc{byStart: map[int]*wire.MsgTx{100: &T.MsgTx}}
	s.bal.Set([]byte(verifWID), []byte{0, 0, 0, 0, 0, 0, 0, 0})
	err := mwdb.Update(s.db, func(dbtx mwdb.DBTransaction) error {
		bal := map[string]massutil.Amount{}
		g, e := s.utxo.GrossBalance(dbtx, verifWID)
		if e != nil {
			return e
		}
		bal[verifWID] = g
		if e := s.tx.AddRelevantTx(dbtx, bal, T, b); e != nil {
			return e
		}
		return s.utxo.UpdateMinedBalances(dbtx, bal)
	})
	rt.Assert(err == nil, "transaction-applied")
	nStd, nStk := 0, 0
	for _, e := range s.a.Ents {
		if len(e.K) > 44 && readAddressHeight(e.V) == b.Height {
			if binary.BigEndian.Uint16(e.K[42:44]) == massutil.AddressClassWitnessStaking {
				nStk++
			} else {
				nStd++
			}
		}
	}
	rt.Assert(len(s.a.Ents) == 2, "one-record-per-address-form")
	rt.Assert(nStd == 1, "standard-form-marked-used-at-the-blocks-height")
	rt.Assert(nStk == 1, "staking-form-marked-used-at-the-blocks-height")
	rt.Reach("end")
}
