//go:build verif

package txmgr

import (
	"bytes"
	"encoding/binary"
	"time"

	"github.com/massnetorg/mass-core/wire"
	mwdb "massnet.org/mass-wallet/masswallet/db"
	mdb "massnet.org/mass-wallet/zzverifmdb"
	rt "massnet.org/mass-wallet/zzverifrt"
)

// vMaxHeight: documented precondition of the sync bucket harnesses. The bucket stores block records under the
// 8-byte big-endian height and the tip pointer under the 8-byte name "syncedto" (0x73796e636564746f as a
// height); the solver found that collision. No chain reaches 2^56 blocks, so heights are assumed below it.
const vMaxHeight = uint64(1) << 56

func vHeightKey(h uint64) []byte {
	k := make([]byte, 8)
	binary.BigEndian.PutUint64(k, h)
	return k
}

// vSyncWindow: sync bucket holding heights tip-2..tip (arbitrary hashes) and the pointer = tip. Heights below
// the window are not materialised; the operations below never read them for the targets considered.
func vSyncWindow(s *vStores, tip uint64) {
	for h := tip - 2; h <= tip; h++ {
		v := make([]byte, 36)
		copy(v, rt.NondetBytes(32))
		s.sy.Set(vHeightKey(h), v)
	}
	s.sy.Set([]byte(syncedToName), vHeightKey(tip))
}

func vSyncHas(s *vStores, h uint64) bool { return s.sy.Lookup(vHeightKey(h)) != nil }

// VerifC01SyncChainPut: from "heights ..tip present, pointer = tip", SetSyncedTo(h) succeeds iff h is tip or
// tip+1 and re-establishes the invariant with pointer = h; a refused call changes nothing.
func VerifC01SyncChainPut() {
	s := verifNewStores(verifWID)
	tip := rt.NondetU64()
	rt.Assume(tip >= 3 && tip < vMaxHeight)
	vSyncWindow(s, tip)
	h := rt.NondetU64()
	rt.Assume(h >= tip-1 && h <= tip+2)
	bs := &BlockMeta{Height: h, Hash: vHash(), Timestamp: time.Unix(int64(rt.NondetU32()), 0)}
	err := mwdb.Update(s.db, func(tx mwdb.DBTransaction) error { return s.sync.SetSyncedTo(tx, bs) })
	rt.Assert((err == nil) == (h == tip || h == tip+1), "accepted-iff-next-or-current-height")
	var got *BlockMeta
	verr := mwdb.View(s.db, func(tx mwdb.ReadTransaction) error {
		b, e := s.sync.SyncedTo(tx)
		got = b
		return e
	})
	rt.Assert(verr == nil && got != nil, "pointer-readable")
	if verr == nil && got != nil {
		if err == nil {
			rt.Assert(got.Height == h && got.Hash == bs.Hash, "pointer-is-new-block")
			rt.Assert(vSyncHas(s, h) && !vSyncHas(s, h+1), "chain-ends-at-pointer")
		} else {
			rt.Assert(got.Height == tip, "refused-call-changes-nothing")
			rt.Assert(vSyncHas(s, tip) && !vSyncHas(s, tip+1) && !vSyncHas(s, tip+2), "refused-call-adds-nothing")
		}
	}
	rt.Reach("end")
}

// VerifC01SyncChainReset: ResetSyncedTo(h) for h in tip-2..tip+1 leaves exactly ..min(h,tip) and the
// pointer there.
func VerifC01SyncChainReset() {
	s := verifNewStores(verifWID)
	tip := rt.NondetU64()
	rt.Assume(tip >= 3 && tip < vMaxHeight)
	vSyncWindow(s, tip)
	h := rt.NondetU64()
	rt.Assume(h >= tip-2 && h <= tip+1)
	err := mwdb.Update(s.db, func(tx mwdb.DBTransaction) error { return s.sync.ResetSyncedTo(tx, h) })
	rt.Assert(err == nil, "reset-succeeds")
	want := h
	if want > tip {
		want = tip
	}
	var got *BlockMeta
	_ = mwdb.View(s.db, func(tx mwdb.ReadTransaction) error {
		b, e := s.sync.SyncedTo(tx)
		got = b
		return e
	})
	rt.Assert(got != nil && got.Height == want, "pointer-at-target")
	for x := tip - 2; x <= tip; x++ {
		rt.Assert(vSyncHas(s, x) == (x <= want), "exactly-heights-up-to-target-remain")
	}
	rt.Reach("end")
}

// VerifC06WalletStatus: the persisted per-wallet status that drives resumption after a restart round-trips
// exactly (height/done marker and removal flag), and MarkDeleteWallet only sets the removal flag.
func VerifC06WalletStatus() {
	s := verifNewStores(verifWID)
	ws := &WalletStatus{WalletID: verifWID, SyncedHeight: rt.NondetU64(), Flags: rt.NondetU8()}
	err := mwdb.Update(s.db, func(tx mwdb.DBTransaction) error { return s.sync.PutWalletStatus(tx, ws) })
	rt.Assert(err == nil, "status-stored")
	mark := rt.NondetBool()
	if mark {
		err = mwdb.Update(s.db, func(tx mwdb.DBTransaction) error { return s.sync.MarkDeleteWallet(tx, verifWID) })
		rt.Assert(err == nil, "mark-succeeds")
	}
	var one *WalletStatus
	var all []*WalletStatus
	err = mwdb.View(s.db, func(tx mwdb.ReadTransaction) error {
		var e error
		if one, e = s.sync.GetWalletStatus(tx, verifWID); e != nil {
			return e
		}
		all, e = s.sync.GetAllWalletStatus(tx)
		return e
	})
	rt.Assert(err == nil && one != nil && len(all) == 1, "status-readable")
	if err == nil && one != nil && len(all) == 1 {
		wantFlags := ws.Flags
		if mark {
			wantFlags |= WalletFlagsRemove
		}
		for _, g := range []*WalletStatus{one, all[0]} {
			rt.Assert(g.WalletID == verifWID && g.SyncedHeight == ws.SyncedHeight && g.Flags == wantFlags, "status-round-trips")
			rt.Assert(g.Ready() == (ws.SyncedHeight == WalletSyncedDone), "ready-iff-done-marker")
			rt.Assert(g.IsRemoved() == (wantFlags&WalletFlagsRemove != 0), "removed-iff-flag")
		}
	}
	rt.Reach("end")
}

// VerifC08PrefixDeletion: removing a wallet's unspent / address / game-history records deletes exactly the
// keys that start with its id and leaves every other wallet's record byte-identical.
func VerifC08PrefixDeletion() {
	s := verifNewStores(verifWID)
	type ent struct {
		b    *mdb.Bucket
		k, v []byte
	}
	var ents []ent
	for _, b := range []*mdb.Bucket{s.u, s.a, s.lg, s.LG} {
		// one record of the removed wallet, one of an arbitrary 42-byte id
		k1 := append([]byte(verifWID), rt.NondetBytes(3)...)
		k2 := append(rt.NondetBytes(42), rt.NondetBytes(3)...)
		rt.Assume(!bytes.Equal(k1, k2))
		for _, k := range [][]byte{k1, k2} {
			v := rt.NondetBytes(2)
			b.Set(k, v)
			ents = append(ents, ent{b, k, v})
		}
	}
	err := mwdb.Update(s.db, func(tx mwdb.DBTransaction) error {
		if e := s.utxo.RemoveUnspentByWalletId(tx, verifWID); e != nil {
			return e
		}
		if e := s.utxo.RemoveAddressByWalletId(tx, verifWID); e != nil {
			return e
		}
		return s.utxo.RemoveGameHistoryByWalletId(tx, verifWID)
	})
	rt.Assert(err == nil, "removal-succeeds")
	for _, e := range ents {
		mine := bytes.HasPrefix(e.k, []byte(verifWID))
		got := e.b.Lookup(e.k)
		if mine {
			rt.Assert(got == nil, "own-record-erased")
		} else {
			rt.Assert(bytes.Equal(got, e.v), "foreign-record-untouched")
		}
	}
	for _, b := range []*mdb.Bucket{s.u, s.a, s.lg, s.LG} {
		for _, e := range b.Ents {
			rt.Assert(!bytes.HasPrefix(e.K, []byte(verifWID)), "no-residue")
		}
	}
	rt.Reach("end")
}

func vGame() gameHistory {
	return gameHistory{walletId: verifWID, txhash: vHash(), vout: rt.NondetU32(), isBinding: rt.NondetBool(), blockHeight: rt.NondetU64()}
}

// VerifC10GameHistoryRecords: deposit record codec, withdraw then un-withdraw restores the single original
// key, each fails exactly when its source record is absent, and the listing prefixes select by type and
// withdrawn state.
func VerifC10GameHistoryRecords() {
	s := verifNewStores(verifWID)
	g := vGame()
	g.withdrawn = false
	present := rt.NondetBool()
	if present {
		s.lg.Set(keyGameHistory(&g), valueGameHistory(&g))
	}
	// codec
	var back gameHistory
	rt.Assert(readGameHistory(false, keyGameHistory(&g), nil, &back) == nil, "key-decodes")
	rt.Assert(back.walletId == g.walletId && back.txhash == g.txhash && back.vout == g.vout && back.isBinding == g.isBinding && back.blockHeight == g.blockHeight && !back.withdrawn, "key-round-trips")
	var uback gameHistory
	rt.Assert(readGameHistory(true, keyUnminedGameHistory(&g), nil, &uback) == nil, "pending-key-decodes")
	rt.Assert(uback.walletId == g.walletId && uback.txhash == g.txhash && uback.vout == g.vout && uback.isBinding == g.isBinding, "pending-key-round-trips")
	// withdraw
	err := mwdb.Update(s.db, func(tx mwdb.DBTransaction) error { return withdrawGame(tx.FetchBucket(s.meta.nsGameHistory), g) })
	rt.Assert((err == nil) == present, "withdraw-iff-deposit-recorded")
	wk := g
	wk.withdrawn = true
	if err == nil {
		rt.Assert(len(s.lg.Ents) == 1 && s.lg.Lookup(keyGameHistory(&wk)) != nil && s.lg.Lookup(keyGameHistory(&g)) == nil, "withdrawn-record-replaces-deposit")
		gt := gameStaking
		if g.isBinding {
			gt = gameBinding
		}
		live, e1 := getRawGameHistoryByWalletId(s.lg, verifWID, gt, true)
		all, e2 := getRawGameHistoryByWalletId(s.lg, verifWID, gt, false)
		rt.Assert(e1 == nil && e2 == nil && len(live) == 0 && len(all) == 1, "listing-excludes-withdrawn-on-request")
		err = mwdb.Update(s.db, func(tx mwdb.DBTransaction) error { return unwithdrawGame(tx.FetchBucket(s.meta.nsGameHistory), g) })
		rt.Assert(err == nil, "unwithdraw-succeeds")
		rt.Assert(len(s.lg.Ents) == 1 && s.lg.Lookup(keyGameHistory(&g)) != nil && s.lg.Lookup(keyGameHistory(&wk)) == nil, "unwithdraw-restores-the-deposit-record")
	} else {
		rt.Assert(len(s.lg.Ents) == 0, "failed-withdraw-changes-nothing")
		err = mwdb.Update(s.db, func(tx mwdb.DBTransaction) error { return unwithdrawGame(tx.FetchBucket(s.meta.nsGameHistory), g) })
		rt.Assert(err != nil && len(s.lg.Ents) == 0, "unwithdraw-without-withdrawn-record-fails")
	}
	rt.Reach("end")
}

// ---- C18: a failing database call is reported, and the atomic update leaves no trace ----

type vKernel func(s *vStores, tx mwdb.DBTransaction) error

func c18Run(s *vStores, k vKernel) {
	// snapshot of every bucket
	type snap struct {
		b    *mdb.Bucket
		ents []mdb.Ent
	}
	var before []snap
	for _, b := range []*mdb.Bucket{s.sy, s.ws, s.lg, s.u, s.c, s.mi, s.a, s.LG} {
		before = append(before, snap{b, append([]mdb.Ent(nil), b.Ents...)})
	}
	s.db.Calls = 0
	s.db.FaultAt = rt.NondetLen(0, 8)
	err := mwdb.Update(s.db, func(tx mwdb.DBTransaction) error { return k(s, tx) })
	faulted := s.db.FaultAt != 0 && s.db.Calls >= s.db.FaultAt
	if faulted {
		rt.Assert(err != nil, "storage-fault-is-reported")
	}
	if err != nil {
		for _, sn := range before {
			rt.Assert(len(sn.b.Ents) == len(sn.ents), "failed-update-leaves-no-trace")
			for i := range sn.ents {
				if i < len(sn.b.Ents) {
					rt.Assert(bytes.Equal(sn.b.Ents[i].K, sn.ents[i].K) && bytes.Equal(sn.b.Ents[i].V, sn.ents[i].V), "failed-update-leaves-no-trace")
				}
			}
		}
		// retry once storage works again
		s.db.FaultAt = 0
		err2 := mwdb.Update(s.db, func(tx mwdb.DBTransaction) error { return k(s, tx) })
		if faulted {
			rt.Observe("retry", err2 == nil)
		}
	}
}

// VerifC18SyncStep: SetSyncedTo / ResetSyncedTo / PutWalletStatus / MarkDeleteWallet with the n-th database
// call failing (n = 0 none .. 8).
func VerifC18SyncStep() {
	s := verifNewStores(verifWID)
	tip := rt.NondetU64()
	rt.Assume(tip >= 3 && tip < vMaxHeight)
	vSyncWindow(s, tip)
	s.ws.Set([]byte(verifWID), []byte{0, 0, 0, 0, 0, 0, 0, 9, 0})
	bs := &BlockMeta{Height: tip + 1, Hash: vHash(), Timestamp: time.Unix(1, 0)}
	switch rt.NondetLen(0, 3) {
	case 0:
		c18Run(s, func(s *vStores, tx mwdb.DBTransaction) error { return s.sync.SetSyncedTo(tx, bs) })
	case 1:
		c18Run(s, func(s *vStores, tx mwdb.DBTransaction) error { return s.sync.ResetSyncedTo(tx, tip-1) })
	case 2:
		c18Run(s, func(s *vStores, tx mwdb.DBTransaction) error {
			return s.sync.PutWalletStatus(tx, &WalletStatus{WalletID: verifWID, SyncedHeight: tip})
		})
	case 3:
		c18Run(s, func(s *vStores, tx mwdb.DBTransaction) error { return s.sync.MarkDeleteWallet(tx, verifWID) })
	}
	rt.Reach("end")
}

// VerifC18StoreStep: withdraw/unwithdraw, prefix removal, pending-input append and the balance reader with
// the n-th database call failing.
func VerifC18StoreStep() {
	s := verifNewStores(verifWID)
	g := vGame()
	g.withdrawn = false
	s.lg.Set(keyGameHistory(&g), valueGameHistory(&g))
	sh := rt.NondetBytes(32)
	c := vCredit(sh)
	tip := rt.NondetU64()
	rt.Assume(c.block.Height >= 1 && c.block.Height <= tip)
	vPutCredit(s, verifWID, c)
	switch rt.NondetLen(0, 3) {
	case 0:
		c18Run(s, func(s *vStores, tx mwdb.DBTransaction) error { return withdrawGame(tx.FetchBucket(s.meta.nsGameHistory), g) })
	case 1:
		c18Run(s, func(s *vStores, tx mwdb.DBTransaction) error { return s.utxo.RemoveUnspentByWalletId(tx, verifWID) })
	case 2:
		k := canonicalOutPoint(&c.outPoint.Hash, c.outPoint.Index)
		h := wire.Hash{7}
		c18Run(s, func(s *vStores, tx mwdb.DBTransaction) error {
			return putRawUnminedInput(tx.FetchBucket(s.meta.nsUnminedInputs), k, h[:])
		})
	case 3:
		c18Run(s, func(s *vStores, tx mwdb.DBTransaction) error {
			_, e := s.utxo.ScriptAddressBalance(tx, map[string]struct{}{string(sh): {}}, 1, tip, &vPool{})
			return e
		})
	}
	rt.Reach("end")
}
