//go:build verif

package txmgr

import (
	"github.com/massnetorg/mass-core/massutil"
	"github.com/massnetorg/mass-core/wire"
	"massnet.org/mass-wallet/config"
	"massnet.org/mass-wallet/masswallet/keystore"
	mdb "massnet.org/mass-wallet/zzverifmdb"
	rt "massnet.org/mass-wallet/zzverifrt"
)

// 42-character wallet ids (the length the store requires)
const (
	verifWID  = "ac10aaaaaaaaaaaaaaaaaaaaaaaaaaaaaaaaaaaaaa"
	verifWID2 = "ac10bbbbbbbbbbbbbbbbbbbbbbbbbbbbbbbbbbbbbb"
)

type vPool struct{ spent bool }

func (p *vPool) CheckPoolOutPointSpend(op *wire.OutPoint) bool { return p.spent }

type vStores struct {
	db   *mdb.DB
	meta *StoreBucketMeta
	utxo *UtxoStore
	tx   *TxStore
	sync *SyncStore
	// buckets, by the names of txmgr/type.go
	m, t, b, a, lg, LG, u, mi, mc, bal, c, d, sy, ws *mdb.Bucket
}

// verifNewStores builds the real stores over the model database (buckets empty).
func verifNewStores(wid string) *vStores {
	db := mdb.New()
	root := db.Top("wallet")
	s := &vStores{db: db, meta: &StoreBucketMeta{}}
	mk := func(name string) *mdb.Bucket { return root.Sub(name) }
	s.m, s.t, s.b, s.a, s.lg, s.LG = mk(bucketUnmined), mk(bucketTxRecords), mk(bucketBlocks), mk(bucketAddresses), mk(bucketGameHistory), mk(bucketUnminedGameHistory)
	s.u, s.mi, s.mc, s.bal, s.c, s.d = mk(bucketUnspent), mk(bucketUnminedInputs), mk(bucketUnminedCredits), mk(bucketMinedBalance), mk(bucketCredits), mk(bucketDebits)
	s.sy, s.ws = mk(syncBucketName), mk(bucketWalletStatus)
	s.meta.nsUnmined, s.meta.nsTxRecords, s.meta.nsBlocks, s.meta.nsAddresses = s.m.GetBucketMeta(), s.t.GetBucketMeta(), s.b.GetBucketMeta(), s.a.GetBucketMeta()
	s.meta.nsGameHistory, s.meta.nsUnminedGameHistory = s.lg.GetBucketMeta(), s.LG.GetBucketMeta()
	s.meta.nsUnspent, s.meta.nsUnminedInputs, s.meta.nsUnminedCredits = s.u.GetBucketMeta(), s.mi.GetBucketMeta(), s.mc.GetBucketMeta()
	s.meta.nsMinedBalance, s.meta.nsCredits, s.meta.nsDebits = s.bal.GetBucketMeta(), s.c.GetBucketMeta(), s.d.GetBucketMeta()
	s.meta.nsSyncBucketName, s.meta.nsWalletStatus = s.sy.GetBucketMeta(), s.ws.GetBucketMeta()
	ks := keystore.VerifNewManager(wid)
	s.utxo = &UtxoStore{chainParams: config.ChainParams, ksmgr: ks, bucketMeta: s.meta}
	s.sync = &SyncStore{chainParams: config.ChainParams, bucketMeta: s.meta}
	s.tx = &TxStore{chainParams: config.ChainParams, bucketMeta: s.meta, utxoStore: s.utxo, syncStore: s.sync, ksmgr: ks}
	return s
}

// vPinned: hashes, script hashes and coin amounts are fixed pairwise distinct constants instead of arbitrary
// values (harnesses with several transactions, where arbitrary 32-byte keys make every database look-up a solver
// question; the arbitrary versions are covered by the single-transaction harnesses). Set by the harness in
// symbolic and native runs alike, so replays read the same value sequence.
var vPinned bool
var vPinCtr byte

func vHash() wire.Hash {
	var h wire.Hash
	if vPinned {
		vPinCtr++
		h[0], h[31] = 0xC0, vPinCtr
		return h
	}
	copy(h[:], rt.NondetBytes(32))
	return h
}

func vScriptHash() []byte {
	if vPinned {
		vPinCtr++
		sh := make([]byte, 32)
		sh[0], sh[31] = 0xD0, vPinCtr
		return sh
	}
	return rt.NondetBytes(32)
}

const vMaxAmount = 206438400 * 100000000

func vAmount() massutil.Amount {
	if vPinned {
		a, _ := massutil.NewAmountFromUint(7000000000)
		return a
	}
	v := rt.NondetU64()
	rt.Assume(v >= 1 && v <= vMaxAmount)
	a, err := massutil.NewAmountFromUint(v)
	rt.Assert(err == nil, "amount-in-range")
	return a
}

// vCredit: an arbitrary unspent mined credit (amount in range, class standard/staking/binding).
func vCredit(scriptHash []byte) *credit {
	c := &credit{
		outPoint:   wire.OutPoint{Hash: vHash(), Index: rt.NondetU32()},
		block:      &BlockMeta{Height: rt.NondetU64(), Hash: vHash()},
		amount:     vAmount(),
		maturity:   rt.NondetU32(),
		scriptHash: scriptHash,
	}
	switch rt.NondetLen(0, 2) {
	case 1:
		c.flags.Class = ClassStakingUtxo
	case 2:
		c.flags.Class = ClassBindingUtxo
	}
	c.flags.Change = rt.NondetBool()
	return c
}

// vPutCredit stores the credit and its unspent entry the way AddCredits does (real encoders).
func vPutCredit(s *vStores, wid string, c *credit) {
	v, err := valueUnspentCredit(c)
	rt.Assert(err == nil, "credit-value-encodes")
	s.c.Set(keyCredit(&c.outPoint.Hash, c.outPoint.Index, c.block), v)
	s.u.Set(canonicalUnspentKey(wid, &c.outPoint.Hash, c.outPoint.Index), valueUnspent(c.block))
}

// VerifStores: the real stores over a fresh model database, for harnesses of package masswallet.
type VerifStores struct {
	DB      *mdb.DB
	Meta    *StoreBucketMeta
	Utxo    *UtxoStore
	Tx      *TxStore
	Sync    *SyncStore
	Ks      *keystore.KeystoreManager
	Bal, WS *mdb.Bucket
	Root    *mdb.Bucket
}

// VerifNewStoresWithKeystoreManager builds the stores and a real (empty) keystore manager in the same database.
func VerifNewStoresWithKeystoreManager(pubPass []byte) *VerifStores {
	s := verifNewStores(verifWID)
	root := s.db.Top("wallet")
	root.Sub("km").Sub("aid") // the buckets NewKeystoreManager creates inside the opening transaction
	ks, err := keystore.NewKeystoreManager(root, pubPass, config.ChainParams)
	rt.Assert(err == nil, "harness-keystore-manager")
	s.utxo.ksmgr, s.tx.ksmgr = ks, ks
	return &VerifStores{DB: s.db, Meta: s.meta, Utxo: s.utxo, Tx: s.tx, Sync: s.sync, Ks: ks, Bal: s.bal, WS: s.ws, Root: root}
}

// VerifSetSyncedChain writes the synced-chain records of the given blocks (consecutive heights, lowest first)
// straight into the sync bucket and points "synced to" at the last one.
func (v *VerifStores) VerifSetSyncedChain(chain []BlockMeta) {
	sy := v.Root.Sub(syncBucketName)
	for _, bm := range chain {
		val := make([]byte, 36)
		copy(val, bm.Hash[:])
		sy.Set(vHeightKey(bm.Height), val)
	}
	sy.Set([]byte(syncedToName), vHeightKey(chain[len(chain)-1].Height))
}

// VerifSyncedRecord: the hash recorded for a height (nil if none); VerifSyncedToHeight: the pointer.
func (v *VerifStores) VerifSyncedRecord(height uint64) []byte {
	return v.Root.Sub(syncBucketName).Lookup(vHeightKey(height))
}

func (v *VerifStores) VerifSyncedToHeight() []byte {
	return v.Root.Sub(syncBucketName).Lookup([]byte(syncedToName))
}

func (v *VerifStores) VerifSyncRecords() int { return len(v.Root.Sub(syncBucketName).Ents) }

// VerifPutStandardCredit stores a mined, unspent standard coin of wallet wid (real encoders), as AddCredits does.
func (v *VerifStores) VerifPutStandardCredit(wid string, op wire.OutPoint, height uint64, blockHash wire.Hash, amount uint64, scriptHash []byte) {
	amt, err := massutil.NewAmountFromUint(amount)
	rt.Assert(err == nil, "harness-amount")
	c := &credit{outPoint: op, block: &BlockMeta{Height: height, Hash: blockHash}, amount: amt, scriptHash: scriptHash}
	c.flags.Class = ClassStandardUtxo
	val, err := valueUnspentCredit(c)
	rt.Assert(err == nil, "credit-value-encodes")
	v.Root.Sub(bucketCredits).Set(keyCredit(&op.Hash, op.Index, c.block), val)
	v.Root.Sub(bucketUnspent).Set(canonicalUnspentKey(wid, &op.Hash, op.Index), valueUnspent(c.block))
}

// VerifPutCoin stores a mined, unspent coin of wallet wid with the given class (0 standard, 1 staking, 2 binding)
// and maturity, and optionally a pending spender's marker on it.
func (v *VerifStores) VerifPutCoin(wid string, op wire.OutPoint, height uint64, blockHash wire.Hash, amount uint64, scriptHash []byte, class int, maturity uint32, pendingSpender *wire.Hash) {
	amt, err := massutil.NewAmountFromUint(amount)
	rt.Assert(err == nil, "harness-amount")
	c := &credit{outPoint: op, block: &BlockMeta{Height: height, Hash: blockHash}, amount: amt, scriptHash: scriptHash, maturity: maturity}
	switch class {
	case 1:
		c.flags.Class = ClassStakingUtxo
	case 2:
		c.flags.Class = ClassBindingUtxo
	default:
		c.flags.Class = ClassStandardUtxo
	}
	val, err := valueUnspentCredit(c)
	rt.Assert(err == nil, "credit-value-encodes")
	v.Root.Sub(bucketCredits).Set(keyCredit(&op.Hash, op.Index, c.block), val)
	v.Root.Sub(bucketUnspent).Set(canonicalUnspentKey(wid, &op.Hash, op.Index), valueUnspent(c.block))
	if pendingSpender != nil {
		v.Root.Sub(bucketUnminedInputs).Set(canonicalOutPoint(&op.Hash, op.Index), pendingSpender[:])
	}
}

// VerifLedgerCounts: number of mined credits, unspent entries, transaction records and block records stored.
func (v *VerifStores) VerifLedgerCounts() (credits, unspent, txs, blocks int) {
	return len(v.Root.Sub(bucketCredits).Ents), len(v.Root.Sub(bucketUnspent).Ents), len(v.Root.Sub(bucketTxRecords).Ents), len(v.Root.Sub(bucketBlocks).Ents)
}
