//go:build verif

package txmgr

import (
	"bytes"
	"encoding/binary"

	"github.com/massnetorg/mass-core/blockchain"
	"github.com/massnetorg/mass-core/database"
	"github.com/massnetorg/mass-core/massutil"
	"github.com/massnetorg/mass-core/txscript"
	"github.com/massnetorg/mass-core/wire"
	mwdb "massnet.org/mass-wallet/masswallet/db"
	"massnet.org/mass-wallet/masswallet/keystore"
	rt "massnet.org/mass-wallet/zzverifrt"
)

func vStakingScript(sh, frozen []byte) []byte {
	s := append([]byte{txscript.OP_0, txscript.OP_DATA_32}, sh...)
	return append(append(s, 8), frozen...)
}

// VerifC10StakingLifecycle: a staking deposit to the wallet through the real store steps. Block b1 confirms the
// deposit D (AddRelevantTx): the coin is recorded as a staking coin with maturity frozen period + 1 and the
// deposit appears exactly once in the staking history, at b1, not withdrawn. Block b2 confirms a withdrawal W
// spending it: the history shows it withdrawn, still exactly once. b2 is reorganised away (Rollback): it is
// shown as not withdrawn again and the coin is unspent. b1 is reorganised away: the deposit leaves the mined
// history and the coin is no mined coin any more.
func VerifC10StakingLifecycle() { vStakingLifecycle(false) }

// VerifC12StakingIssuedLifecycle: the same history for a staking-form address that was issued by a new-address
// request before (PutNewAddress wrote its record, unused): when the deposit's block is reorganised away the
// address is still listed, as unused.
func VerifC12StakingIssuedLifecycle() { vStakingLifecycle(true) }

// vUsedAddresses: the number of address records marked used (height of a first payment recorded)
func vUsedAddresses(s *vStores) int {
	n := 0
	for _, e := range s.a.Ents {
		if readAddressHeight(e.V) > 0 {
			n++
		}
	}
	return n
}

func vStakingLifecycle(issued bool) {
	s := verifNewStores(verifWID)
	vTxReg, vTxIDReg, vTxIDs = nil, nil, nil
	sh, frozen, shOut := rt.NondetBytes(32), rt.NondetBytes(8), rt.NondetBytes(32)
	script := vStakingScript(sh, frozen)
	class, pops := txscript.GetScriptInfo(script)
	rt.Assume(class == txscript.StakingScriptHashTy) // a frozen period consensus accepts
	fp, _, perr := txscript.GetParsedOpcode(pops, class)
	rt.Assert(perr == nil, "consensus-reads-the-frozen-period")
	rt.Assume(wire.IsValidFrozenPeriod(fp)) // a legal frozen period (the rule of transaction relay and script building)
	ps := vPk(script)
	rt.Assert(ps.IsStaking(), "wallet-reads-a-staking-script")
	// the wallet's addresses (history and rollback look the owner up by the withdraw address)
	keystore.VerifAddAddressWithHash(s.utxo.ksmgr, verifWID, ps.StdEncodeAddress(), sh)
	keystore.VerifAddAddressWithHash(s.utxo.ksmgr, verifWID, vPk(vP2WSH(shOut)).StdEncodeAddress(), shOut)

	if issued {
		err := mwdb.Update(s.db, func(dbtx mwdb.DBTransaction) error {
			return s.utxo.PutNewAddress(dbtx, verifWID, ps.SecondEncodeAddress(), massutil.AddressClassWitnessStaking)
		})
		rt.Assert(err == nil && len(s.a.Ents) == 1, "issued-staking-address-recorded")
	}
	amount := uint64(rt.NondetU32()) + 1
	dtx := wire.NewMsgTx()
	dtx.AddTxIn(wire.NewTxIn(&wire.OutPoint{Hash: vHash(), Index: rt.NondetU32()}, nil))
	// the deposit is output di of its transaction (a payment to a stranger may come first), and the withdrawal spends
	// it with input wi (an input spending a stranger's coin may come first): the history is keyed by the deposit's
	// output index, not by a position in the spending transaction
	di, wi := uint32(0), 0
	if rt.NondetBool() {
		di = 1
		dtx.AddTxOut(wire.NewTxOut(7, vP2WSH(rt.NondetBytes(32))))
	}
	if rt.NondetBool() {
		wi = 1
	}
	dtx.AddTxOut(wire.NewTxOut(int64(amount), script))
	rt.Assume(!blockchain.IsCoinBaseTx(dtx))
	vTxIDSeeds = []wire.Hash{vHash(), vHash()}
	D := &TxRecord{MsgTx: *dtx, TxLoc: &wire.TxLoc{TxStart: 100, TxLen: 50}}
	D.Hash = D.MsgTx.TxHash()
	D.RelevantTxOut = []*RelevantMeta{{Index: int(di), PkScript: ps, WalletId: verifWID}}
	wtx := wire.NewMsgTx()
	if wi == 1 {
		wtx.AddTxIn(wire.NewTxIn(&wire.OutPoint{Hash: vHash(), Index: rt.NondetU32()}, nil))
	}
	wtx.AddTxIn(wire.NewTxIn(&wire.OutPoint{Hash: D.Hash, Index: di}, nil))
	wtx.AddTxOut(wire.NewTxOut(int64(amount), vP2WSH(shOut)))
	W := &TxRecord{MsgTx: *wtx, TxLoc: &wire.TxLoc{TxStart: 200, TxLen: 50}}
	W.Hash = W.MsgTx.TxHash()
	rt.Assume(W.Hash != D.Hash && D.Hash != dtx.TxIn[0].PreviousOutPoint.Hash && wtx.TxIn[0].PreviousOutPoint.Hash != dtx.TxIn[0].PreviousOutPoint.Hash)
	if wi == 1 {
		rt.Assume(wtx.TxIn[0].PreviousOutPoint.Hash != D.Hash && wtx.TxIn[0].PreviousOutPoint.Hash != W.Hash)
	}
	// the relevance filter reports no inputs for a coinbase-shaped transaction (filterTx), so the apply step never
	// sees one with a relevant input
	rt.Assume(!blockchain.IsCoinBaseTx(wtx))
	W.RelevantTxIn = []*RelevantMeta{{Index: wi, PkScript: ps, WalletId: verifWID}}
	W.RelevantTxOut = []*RelevantMeta{{Index: 0, PkScript: vPk(vP2WSH(shOut)), WalletId: verifWID}}
	b1 := &BlockMeta{Height: rt.NondetU64(), Hash: vHash(), Loc: &database.BlockLoc{File: 1, Offset: 2, Length: 3}}
	rt.Assume(b1.Height >= 1 && b1.Height < vMaxHeight-2)
	b2 := &BlockMeta{Height: b1.Height + 1, Hash: vHash(), Loc: &database.BlockLoc{File: 1, Offset: 9, Length: 3}}
	s.tx.chainFetcher = &vChainByLoc{byStart: map[int]*wire.MsgTx{100: &D.MsgTx, 200: &W.MsgTx}}
	s.bal.Set([]byte(verifWID), []byte{0, 0, 0, 0, 0, 0, 0, 0})
	setTip := func(bm ...*BlockMeta) {
		s.sy.Ents = nil
		for _, b := range bm {
			v := make([]byte, 36)
			copy(v, b.Hash[:])
			s.sy.Set(vHeightKey(b.Height), v)
		}
		s.sy.Set([]byte(syncedToName), vHeightKey(bm[len(bm)-1].Height))
	}
	history := func(onlyLive bool) []*gameHistory {
		raw, err := getRawGameHistoryByWalletId(s.lg, verifWID, gameStaking, onlyLive)
		rt.Assert(err == nil, "history-readable")
		var out []*gameHistory
		for _, e := range raw {
			g := &gameHistory{}
			rt.Assert(readGameHistory(false, e.Key, e.Value, g) == nil, "history-record-decodes")
			out = append(out, g)
		}
		return out
	}
	apply := func(rec *TxRecord, b *BlockMeta) error {
		return mwdb.Update(s.db, func(dbtx mwdb.DBTransaction) error {
			bal := map[string]massutil.Amount{}
			g, e := s.utxo.GrossBalance(dbtx, verifWID)
			if e != nil {
				return e
			}
			bal[verifWID] = g
			if e := s.tx.AddRelevantTx(dbtx, bal, rec, b); e != nil {
				return e
			}
			return s.utxo.UpdateMinedBalances(dbtx, bal)
		})
	}

	// 1. the deposit confirms
	rt.Assert(apply(D, b1) == nil, "deposit-applied")
	setTip(b1)
	ck := keyCredit(&D.Hash, di, b1)
	cv := s.c.Lookup(ck)
	rt.Assert(len(cv) == 45, "deposit-coin-stored")
	if len(cv) == 45 {
		var c credit
		c.block = &BlockMeta{}
		rt.Assert(readCreditValue(cv, &c) == nil && c.flags.Class == ClassStakingUtxo && !c.flags.Spent && uint64(c.maturity) == fp+1 && c.amount.UintValue() == amount && bytes.Equal(c.scriptHash, sh), "coin-is-a-staking-coin-maturing-after-the-frozen-period")
	}
	h1 := history(false)
	rt.Assert(len(h1) == 1 && h1[0].txhash == D.Hash && h1[0].vout == di && h1[0].blockHeight == b1.Height && !h1[0].withdrawn && !h1[0].isBinding, "deposit-listed-exactly-once")
	// the staking-form address is recorded as used from the deposit's height (C12: used flag)
	rt.Assert(len(s.a.Ents) == 1 && readAddressHeight(s.a.Ents[0].V) == b1.Height, "staking-address-marked-used-at-the-deposit-height")
	// 2. the withdrawal confirms
	rt.Assert(apply(W, b2) == nil, "withdrawal-applied")
	setTip(b1, b2)
	h2all, h2live := history(false), history(true)
	rt.Assert(len(h2all) == 1 && h2all[0].txhash == D.Hash && h2all[0].vout == di && h2all[0].withdrawn && len(h2live) == 0, "deposit-shown-withdrawn-exactly-once")
	rt.Assert(len(s.a.Ents) == 2 && vUsedAddresses(s) == 2, "withdrawal-target-address-marked-used")
	// 3. the withdrawal's block is reorganised away - on its own, or together with the deposit's block by the one
	// Rollback call of step 4 (a reorganisation two blocks deep)
	both := rt.NondetBool()
	if !both {
		err := mwdb.Update(s.db, func(dbtx mwdb.DBTransaction) error { return s.tx.Rollback(dbtx, b2.Height) })
		rt.Assert(err == nil, "withdrawal-block-rolled-back")
		setTip(b1)
		h3 := history(true)
		rt.Assert(len(h3) == 1 && h3[0].txhash == D.Hash && h3[0].vout == di && !h3[0].withdrawn && h3[0].blockHeight == b1.Height && len(history(false)) == 1, "deposit-not-withdrawn-again")
		cv = s.c.Lookup(ck)
		rt.Assert(len(cv) == 45 && cv[8]&1 == 0 && s.u.Lookup(canonicalUnspentKey(verifWID, &D.Hash, di)) != nil, "deposit-coin-unspent-again")
		rt.Assert(vUsedAddresses(s) == 1, "only-the-staking-address-is-still-used")
	} else {
		rt.Reach("two-blocks-in-one-rollback")
	}
	// 4. the deposit's block is reorganised away
	err := mwdb.Update(s.db, func(dbtx mwdb.DBTransaction) error { return s.tx.Rollback(dbtx, b1.Height) })
	rt.Assert(err == nil, "deposit-block-rolled-back")
	rt.Assert(s.c.Lookup(keyCredit(&W.Hash, 0, b2)) == nil && len(s.c.Ents) == 0 && len(s.d.Ents) == 0 && len(s.u.Ents) == 0, "no-mined-coin-or-debit-of-a-rolled-back-block-remains")
	rt.Assert(vUsedAddresses(s) == 0, "staking-address-no-longer-used-once-its-first-payment-is-gone")
	listed := false
	if issued {
		for _, e := range s.a.Ents {
			listed = listed || (len(e.K) > 44 && binary.BigEndian.Uint16(e.K[42:44]) == massutil.AddressClassWitnessStaking)
		}
		rt.Reach("issued")
	}
	rt.Assert(len(history(false)) == 0 && s.c.Lookup(ck) == nil && s.u.Lookup(canonicalUnspentKey(verifWID, &D.Hash, di)) == nil, "deposit-left-the-confirmed-history")
	// the deposit is a pending transaction again: the pending history lists it, once, under its own output index
	npend := 0
	for _, e := range s.LG.Ents {
		g := &gameHistory{}
		rt.Assert(len(e.K) == 80 && readGameHistory(true, e.K, e.V, g) == nil, "pending-history-record-decodes")
		if g.txhash == D.Hash && g.vout == di && g.walletId == verifWID && !g.withdrawn && !g.isBinding {
			npend++
		}
	}
	rt.Assert(npend == 1 && len(s.LG.Ents) == 1, "rolled-back-deposit-listed-once-in-the-pending-history-under-its-output-index")
	rt.Reach("end")
	if issued {
		// last, so that the known finding recorded for this assertion does not hide the checks above
		rt.Assert(listed, "issued-staking-address-still-listed-after-its-first-deposit-is-rolled-back")
	}
}
