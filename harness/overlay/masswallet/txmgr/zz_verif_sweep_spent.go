//go:build verif

package txmgr

import (
	"bytes"

	"github.com/massnetorg/mass-core/blockchain"
	"github.com/massnetorg/mass-core/database"
	"github.com/massnetorg/mass-core/massutil"
	"github.com/massnetorg/mass-core/wire"
	mwdb "massnet.org/mass-wallet/masswallet/db"
	"massnet.org/mass-wallet/masswallet/keystore"
	rt "massnet.org/mass-wallet/zzverifrt"
)

// VerifC08SweepSpentCredits: the removed wallet R owns two outputs of one transaction T1; one of them (either) was
// spent by a mined transaction T2 that pays the kept wallet K, so T2 and its block record survive the removal. The
// real removal of R (the wallet-keyed deletions, then RemoveRelevantTx) erases both coins of R, T1's record *and the debit record of the spent coin* - a debit
// that outlives the coin it points at makes the next reorganisation of T2's block fail, which would stop the
// follower for every remaining wallet. So after the sweep the real Rollback of T2's block must still succeed and
// take K's coin with it. K's coin, transaction record and balance are untouched by the sweep itself.
func VerifC08SweepSpentCredits() {
	s := verifNewStores(verifWID) // K = verifWID
	const R = verifWID2
	vTxReg, vTxIDReg, vTxIDs = nil, nil, nil
	hR, hK := rt.NondetBytes(32), rt.NondetBytes(32)
	rt.Assume(!bytes.Equal(hR, hK))
	amR := keystore.VerifNewAddrManager(R, vPk(vP2WSH(hR)).StdEncodeAddress(), hR)
	keystore.VerifAddManager(s.utxo.ksmgr, amR)
	keystore.VerifAddAddressWithHash(s.utxo.ksmgr, verifWID, vPk(vP2WSH(hK)).StdEncodeAddress(), hK)
	keystore.VerifSetCurrent(s.utxo.ksmgr, "")
	spentIdx := uint32(0)
	if rt.NondetBool() {
		spentIdx = 1
	}
	tx1 := wire.NewMsgTx()
	tx1.AddTxIn(wire.NewTxIn(&wire.OutPoint{Hash: vHash(), Index: rt.NondetU32()}, nil))
	tx1.AddTxOut(wire.NewTxOut(10, vP2WSH(hR)))
	tx1.AddTxOut(wire.NewTxOut(11, vP2WSH(hR)))
	rt.Assume(!blockchain.IsCoinBaseTx(tx1))
	vTxIDSeeds = []wire.Hash{vHash(), vHash()}
	T1 := &TxRecord{MsgTx: *tx1, TxLoc: &wire.TxLoc{TxStart: 100, TxLen: 50}}
	T1.Hash = T1.MsgTx.TxHash()
	tx2 := wire.NewMsgTx()
	tx2.AddTxIn(wire.NewTxIn(&wire.OutPoint{Hash: T1.Hash, Index: spentIdx}, nil))
	tx2.AddTxOut(wire.NewTxOut(9, vP2WSH(hK)))
	T2 := &TxRecord{MsgTx: *tx2, TxLoc: &wire.TxLoc{TxStart: 200, TxLen: 50}}
	T2.Hash = T2.MsgTx.TxHash()
	rt.Assume(T1.Hash != T2.Hash && tx1.TxIn[0].PreviousOutPoint.Hash != T1.Hash && tx1.TxIn[0].PreviousOutPoint.Hash != T2.Hash)
	T1.RelevantTxOut = []*RelevantMeta{{Index: 0, PkScript: vPk(vP2WSH(hR)), WalletId: R}, {Index: 1, PkScript: vPk(vP2WSH(hR)), WalletId: R}}
	T2.RelevantTxIn = []*RelevantMeta{{Index: 0, PkScript: vPk(vP2WSH(hR)), WalletId: R}}
	T2.RelevantTxOut = []*RelevantMeta{{Index: 0, PkScript: vPk(vP2WSH(hK)), WalletId: verifWID}}
	b1 := &BlockMeta{Height: rt.NondetU64(), Hash: vHash(), Loc: &database.BlockLoc{File: 1, Offset: 2, Length: 3}}
	rt.Assume(b1.Height >= 1 && b1.Height < vMaxHeight-2)
	b2 := &BlockMeta{Height: b1.Height + 1, Hash: vHash(), Loc: &database.BlockLoc{File: 1, Offset: 9, Length: 3}}
	s.tx.chainFetcher = &vChainByLoc{byStart: map[int]*wire.MsgTx{100: &T1.MsgTx, 200: &T2.MsgTx}}
	s.bal.Set([]byte(R), []byte{0, 0, 0, 0, 0, 0, 0, 0})
	s.bal.Set([]byte(verifWID), []byte{0, 0, 0, 0, 0, 0, 0, 0})
	apply := func(rec *TxRecord, b *BlockMeta) error {
		return mwdb.Update(s.db, func(dbtx mwdb.DBTransaction) error {
			bal := map[string]massutil.Amount{}
			for _, w := range []string{R, verifWID} {
				g, e := s.utxo.GrossBalance(dbtx, w)
				if e != nil {
					return e
				}
				bal[w] = g
			}
			if e := s.tx.AddRelevantTx(dbtx, bal, rec, b); e != nil {
				return e
			}
			return s.utxo.UpdateMinedBalances(dbtx, bal)
		})
	}
	ok := apply(T1, b1) == nil && apply(T2, b2) == nil
	rt.Assert(ok, "state-written-by-the-apply-step")
	if !ok {
		rt.Reach("end")
		return
	}
	setTip := func(bm ...*BlockMeta) {
		s.sy.Ents = nil
		for _, b := range bm {
			v := make([]byte, 36)
			copy(v, b.Hash[:])
			s.sy.Set(vHeightKey(b.Height), v)
		}
		s.sy.Set([]byte(syncedToName), vHeightKey(bm[len(bm)-1].Height))
	}
	setTip(b1, b2)
	rt.Assert(len(s.c.Ents) == 3 && len(s.d.Ents) == 1, "two-coins-of-the-removed-wallet-one-spent-and-the-kept-wallets-coin")
	kK := keyCredit(&T2.Hash, 0, b2)
	keptCoin := append([]byte(nil), s.c.Lookup(kK)...)
	_, t2rec := existsTxRecord(s.t, &T2.Hash, b2)
	t2rec = append([]byte(nil), t2rec...)
	balK := append([]byte(nil), s.bal.Lookup([]byte(verifWID))...)

	// phase 1 of asyncRemove: the wallet-keyed deletions
	err := mwdb.Update(s.db, func(dbtx mwdb.DBTransaction) error {
		if e := s.utxo.RemoveUnspentByWalletId(dbtx, R); e != nil {
			return e
		}
		if e := s.utxo.RemoveAddressByWalletId(dbtx, R); e != nil {
			return e
		}
		if e := s.utxo.RemoveGameHistoryByWalletId(dbtx, R); e != nil {
			return e
		}
		return s.utxo.RemoveMinedBalance(dbtx, R)
	})
	rt.Assert(err == nil, "wallet-keyed-deletions-succeed")
	// phase 2: the sweep
	var finish bool
	err = mwdb.Update(s.db, func(dbtx mwdb.DBTransaction) (e error) {
		_, finish, e = s.tx.RemoveRelevantTx(dbtx, amR)
		return
	})
	rt.Assert(err == nil && finish, "sweep-completes")
	if err != nil {
		rt.Reach("end")
		return
	}
	rt.Assert(s.c.Lookup(keyCredit(&T1.Hash, 0, b1)) == nil && s.c.Lookup(keyCredit(&T1.Hash, 1, b1)) == nil, "removed-wallets-coins-erased")
	rt.Assert(len(s.d.Ents) == 0, "debit-of-an-erased-coin-erased")
	_, t1rec := existsTxRecord(s.t, &T1.Hash, b1)
	rt.Assert(t1rec == nil, "transaction-that-concerned-only-the-removed-wallet-erased")
	_, now := existsTxRecord(s.t, &T2.Hash, b2)
	rt.Assert(bytes.Equal(s.c.Lookup(kK), keptCoin) && bytes.Equal(now, t2rec) && bytes.Equal(s.bal.Lookup([]byte(verifWID)), balK) && s.u.Lookup(canonicalUnspentKey(verifWID, &T2.Hash, 0)) != nil, "kept-wallets-coin-record-and-balance-untouched")
	// the follower can still reorganise the spender's block away
	err = mwdb.Update(s.db, func(dbtx mwdb.DBTransaction) error { return s.tx.Rollback(dbtx, b2.Height) })
	rt.Assert(err == nil, "spenders-block-can-still-be-rolled-back")
	if err == nil {
		rt.Assert(s.c.Lookup(kK) == nil && s.u.Lookup(canonicalUnspentKey(verifWID, &T2.Hash, 0)) == nil, "kept-wallets-coin-leaves-with-its-block")
		rt.Assert(s.c.Lookup(keyCredit(&T1.Hash, 0, b1)) == nil && s.c.Lookup(keyCredit(&T1.Hash, 1, b1)) == nil && len(s.u.Ents) == 0, "no-coin-of-the-removed-wallet-reappears")
	}
	rt.Reach("end")
}
