//go:build verif

package txmgr

import (
	mwdb "massnet.org/mass-wallet/masswallet/db"
	rt "massnet.org/mass-wallet/zzverifrt"
)

// A query reads the tip first (syncRead) and creates its coin iterator later, when blocks may have been
// committed in between (tipIter >= syncRead; the LevelDB driver takes no snapshot for a read transaction).
// The schedule is the pair (syncRead, tipIter); the coin is any coin present when the iterator is created.

// VerifC17BalanceUnderCommits: no coin that is immature at every block boundary of the window is reported
// spendable/withdrawable, and no coin is counted twice.
func VerifC17BalanceUnderCommits() {
	s := verifNewStores(verifWID)
	sh := rt.NondetBytes(32)
	c := vCredit(sh)
	syncRead, tipIter := rt.NondetU64(), rt.NondetU64()
	rt.Assume(syncRead <= tipIter && c.block.Height >= 1 && c.block.Height <= tipIter)
	vPutCredit(s, verifWID, c)
	minConf := rt.NondetU32()
	pool := &vPool{spent: false}
	var res map[string]*BalanceDetail
	err := mwdb.View(s.db, func(tx mwdb.ReadTransaction) error {
		r, e := s.utxo.ScriptAddressBalance(tx, map[string]struct{}{string(sh): {}}, minConf, syncRead, pool)
		res = r
		return e
	})
	rt.Assert(err == nil, "balance-succeeds")
	b := res[string(sh)]
	if b != nil {
		// maturity only grows with the tip, so "mature at some boundary of the window" = mature at tipIter
		matureAtEnd := tipIter-c.block.Height+1 >= uint64(c.maturity)
		reported := b.Spendable.UintValue() > 0 || b.WithdrawableStaking.UintValue() > 0 || b.WithdrawableBinding.UintValue() > 0
		rt.Assert(!reported || matureAtEnd, "no-immature-coin-reported-spendable")
		rt.Assert(b.Total.UintValue() <= c.amount.UintValue(), "coin-not-counted-twice")
		rt.Assert(b.Spendable.UintValue()+b.WithdrawableStaking.UintValue()+b.WithdrawableBinding.UintValue() <= c.amount.UintValue(), "classes-not-counted-twice")
	}
	rt.Reach("end")
}

// VerifC17UnspentsUnderCommits: a listed coin whose reported confirmations reach its maturity (the test
// callers apply before selecting it) is mature at some boundary of the window.
func VerifC17UnspentsUnderCommits() {
	s := verifNewStores(verifWID)
	sh := rt.NondetBytes(32)
	c := vCredit(sh)
	syncRead, tipIter := rt.NondetU64(), rt.NondetU64()
	rt.Assume(syncRead <= tipIter && c.block.Height >= 1 && c.block.Height <= tipIter)
	rt.Assume(tipIter-c.block.Height+1 <= 0xffffffff)
	vPutCredit(s, verifWID, c)
	var got []*Credit
	err := mwdb.View(s.db, func(tx mwdb.ReadTransaction) error {
		m, e := s.utxo.ScriptAddressUnspents(tx, map[string]struct{}{string(sh): {}}, syncRead, func(*Credit) (bool, bool) { return false, true })
		got = m[string(sh)]
		return e
	})
	rt.Assert(err == nil, "listing-succeeds")
	rt.Assert(len(got) <= 1, "coin-not-listed-twice")
	for _, g := range got {
		matureAtEnd := tipIter-c.block.Height+1 >= uint64(c.maturity)
		rt.Assert(!(g.Confirmations >= g.Maturity) || matureAtEnd, "no-immature-coin-passes-the-maturity-test")
	}
	rt.Reach("end")
}
