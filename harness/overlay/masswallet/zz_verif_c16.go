//go:build verif

package masswallet

import (
	"bytes"

	"github.com/massnetorg/mass-core/massutil"
	"github.com/massnetorg/mass-core/txscript"
	"github.com/massnetorg/mass-core/wire"
	"massnet.org/mass-wallet/config"
	"massnet.org/mass-wallet/masswallet/utils"
	rt "massnet.org/mass-wallet/zzverifrt"
)

// VerifC16PayToAddressText: the wallet's own output builders, driven through the address TEXT they receive
// from clients. A standard-form address (every script hash) yields OP_0 <hash> that reads back to the same
// address; a staking-form address is refused by the standard builder and, with a frozen period, accepted
// exactly by the staking builder, whose script reads back to the same address and period.
func VerifC16PayToAddressText() {
	params := config.ChainParams
	h := rt.NondetBytes(32)
	w0, e1 := massutil.NewAddressWitnessScriptHash(h, params)
	st, e2 := massutil.NewAddressStakingScriptHash(h, params)
	rt.Assert(e1 == nil && e2 == nil, "addresses-from-hash")
	stdText, stakingText := w0.EncodeAddress(), st.EncodeAddress()
	switch rt.NondetLen(0, 4) {
	case 0:
		script, err := PayToWitnessV0Address(stdText, params)
		rt.Assert(err == nil, "standard-address-accepted")
		if err == nil {
			info, perr := utils.ParsePkScript(script, params)
			rt.Assert(perr == nil, "built-script-reads")
			if perr == nil {
				rt.Assert(info.ScriptClass() == txscript.WitnessV0ScriptHashTy && bytes.Equal(info.StdScriptAddress(), h), "reads-back-as-standard-output-of-the-hash")
				rt.Assert(info.StdEncodeAddress() == stdText && info.Maturity() == 0, "reads-back-to-the-same-address")
			}
		}
	case 1:
		_, err := PayToWitnessV0Address(stakingText, params)
		rt.Assert(err == ErrInvalidAddress, "staking-address-refused-by-standard-builder")
	case 2:
		frozen := rt.NondetU32()
		mtx := wire.NewMsgTx()
		amt, _ := massutil.NewAmountFromUint(5000)
		err := constructStakingTxOut([]*StakingTxOut{{Address: stakingText, FrozenPeriod: frozen, Amount: amt}}, mtx)
		rt.Assert((err == nil) == wire.IsValidFrozenPeriod(uint64(frozen)), "staking-output-built-iff-valid-period")
		if err == nil {
			rt.Assert(len(mtx.TxOut) == 1 && mtx.TxOut[0].Value == 5000, "one-output-with-the-amount")
			info, perr := utils.ParsePkScript(mtx.TxOut[0].PkScript, params)
			rt.Assert(perr == nil, "built-script-reads")
			if perr == nil {
				rt.Assert(info.IsStaking() && bytes.Equal(info.StdScriptAddress(), h) && info.Maturity() == uint64(frozen)+1, "reads-back-as-staking-output")
				rt.Assert(info.SecondEncodeAddress() == stakingText && info.StdEncodeAddress() == stdText, "reads-back-to-the-same-addresses")
			}
		}
	case 4:
		// two staking outputs in one request, to the same address or to two addresses, each with its own period:
		// every output carries its own period
		h2 := h
		if rt.NondetBool() {
			h2 = rt.NondetBytes(32)
		}
		st2, e3 := massutil.NewAddressStakingScriptHash(h2, params)
		rt.Assert(e3 == nil, "second-address-from-hash")
		f1, f2 := rt.NondetU32(), rt.NondetU32()
		mtx := wire.NewMsgTx()
		amt, _ := massutil.NewAmountFromUint(5000)
		err := constructStakingTxOut([]*StakingTxOut{{Address: stakingText, FrozenPeriod: f1, Amount: amt}, {Address: st2.EncodeAddress(), FrozenPeriod: f2, Amount: amt}}, mtx)
		rt.Assert((err == nil) == (wire.IsValidFrozenPeriod(uint64(f1)) && wire.IsValidFrozenPeriod(uint64(f2))), "two-staking-outputs-built-iff-both-periods-valid")
		if err == nil {
			rt.Assert(len(mtx.TxOut) == 2, "two-outputs")
			for i, want := range []struct {
				h []byte
				f uint32
			}{{h, f1}, {h2, f2}} {
				info, perr := utils.ParsePkScript(mtx.TxOut[i].PkScript, params)
				rt.Assert(perr == nil && info.IsStaking() && bytes.Equal(info.StdScriptAddress(), want.h) && info.Maturity() == uint64(want.f)+1, "each-output-carries-its-own-address-and-period")
			}
		}
	case 3:
		mtx := wire.NewMsgTx()
		amt, _ := massutil.NewAmountFromUint(5000)
		err := constructStakingTxOut([]*StakingTxOut{{Address: stdText, FrozenPeriod: 70000, Amount: amt}}, mtx)
		rt.Assert(err == ErrInvalidStakingAddress && len(mtx.TxOut) == 0, "standard-address-refused-by-staking-builder")
	}
	rt.Reach("end")
}
