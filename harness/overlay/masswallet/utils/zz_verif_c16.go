//go:build verif

package utils

import (
	"bytes"
	"encoding/binary"

	"github.com/massnetorg/mass-core/consensus"
	"github.com/massnetorg/mass-core/massutil"
	"github.com/massnetorg/mass-core/txscript"
	"github.com/massnetorg/mass-core/wire"
	"massnet.org/mass-wallet/config"
	rt "massnet.org/mass-wallet/zzverifrt"
)

// c16Agree: the wallet's reading of script equals the consensus library's template matching and addresses.
func c16Agree(script []byte) {
	params := config.ChainParams
	info, err := ParsePkScript(script, params)
	class, addrs, _, _, cerr := txscript.ExtractPkScriptAddrs(script, params)
	want := cerr == nil &&
		((class == txscript.WitnessV0ScriptHashTy && len(addrs) == 1) ||
			(class == txscript.StakingScriptHashTy && len(addrs) == 1) ||
			(class == txscript.BindingScriptHashTy && len(addrs) == 2))
	rt.Assert((err == nil) == want, "parse-iff-consensus-classifies")
	if err != nil || !want {
		if err != nil {
			rt.Assert(info == nil, "no-info-on-error")
		}
		return
	}
	rt.Assert(info.ScriptClass() == class, "same-class")
	rt.Assert(info.IsStaking() == (class == txscript.StakingScriptHashTy) && info.IsBinding() == (class == txscript.BindingScriptHashTy), "class-predicates")
	switch class {
	case txscript.WitnessV0ScriptHashTy:
		rt.Assert(bytes.Equal(info.StdScriptAddress(), addrs[0].ScriptAddress()), "w0-owner-hash")
		rt.Assert(info.StdEncodeAddress() == addrs[0].EncodeAddress(), "w0-owner-text")
		rt.Assert(info.Maturity() == 0, "w0-maturity")
		rt.Assert(info.AddressClass() == massutil.AddressClassWitnessV0, "w0-address-class")
		rt.Assert(info.SecondAddress() == nil, "w0-no-second")
	case txscript.StakingScriptHashTy:
		rt.Assert(bytes.Equal(info.StdScriptAddress(), addrs[0].ScriptAddress()), "staking-owner-hash")
		rt.Assert(info.SecondEncodeAddress() == addrs[0].EncodeAddress(), "staking-address-text")
		std, e := massutil.NewAddressWitnessScriptHash(addrs[0].ScriptAddress(), params)
		rt.Assert(e == nil && info.StdEncodeAddress() == std.EncodeAddress(), "staking-owner-text")
		frozen := binary.LittleEndian.Uint64(script[35:43])
		rt.Assert(info.Maturity() == frozen+1, "staking-maturity-is-frozen-plus-1")
		rt.Assert(info.AddressClass() == massutil.AddressClassWitnessStaking, "staking-address-class")
	case txscript.BindingScriptHashTy:
		rt.Assert(bytes.Equal(info.StdScriptAddress(), addrs[0].ScriptAddress()), "binding-owner-hash")
		rt.Assert(info.StdEncodeAddress() == addrs[0].EncodeAddress(), "binding-owner-text")
		rt.Assert(bytes.Equal(info.SecondScriptAddress(), addrs[1].ScriptAddress()), "binding-target-bytes")
		rt.Assert(info.SecondEncodeAddress() == addrs[1].EncodeAddress(), "binding-target-text")
		if len(addrs[1].ScriptAddress()) == 20 {
			rt.Assert(info.Maturity() == 0, "old-binding-maturity")
		} else {
			rt.Assert(info.Maturity() == consensus.MASSIP0002BindingLockedPeriod, "new-binding-maturity")
		}
		rt.Assert(info.AddressClass() == massutil.AddressClassWitnessV0, "binding-address-class")
	}
}

func c16Template(tail int) []byte {
	s := []byte{txscript.OP_0, txscript.OP_DATA_32}
	s = append(s, rt.NondetBytes(32)...)
	if tail > 0 {
		s = append(s, byte(tail))
		s = append(s, rt.NondetBytes(tail)...)
	}
	return s
}

// Exact template shapes, every payload.
func VerifC16TemplateW0()        { c16Agree(c16Template(0)); rt.Reach("end") }
func VerifC16TemplateStaking()   { c16Agree(c16Template(8)); rt.Reach("end") }
func VerifC16TemplateBinding20() { c16Agree(c16Template(20)); rt.Reach("end") }
func VerifC16TemplateBinding22() { c16Agree(c16Template(22)); rt.Reach("end") }

// Other second pushes (1..40 bytes): never one of the three classes unless the length is 8, 20 or 22.
func VerifC16TemplateOtherTail() {
	n := rt.NondetLen(1, 40)
	c16Agree(c16Template(n))
	rt.Reach("end")
}

// Arbitrary short scripts (every byte value).
func VerifC16Short()  { c16Agree(rt.NondetBytes(rt.NondetLen(0, 3))); rt.Reach("end") }
func VerifC16Short45() { c16Agree(rt.NondetBytes(rt.NondetLen(4, 5))); rt.Reach("end") }

// Truncated templates: every proper prefix of the staking and the 22-byte binding template.
func VerifC16Truncated() {
	full := c16Template(8)
	if rt.NondetBool() {
		full = c16Template(22)
	}
	n := rt.NondetLen(0, len(full)-1)
	rt.Assume(n < len(full))
	c16Agree(full[:n])
	rt.Reach("end")
}

// One opcode position of a template replaced by an arbitrary byte, payload bytes fixed (0x51 = OP_1, so that
// a mis-parsed payload is a run of one-byte opcodes).
func VerifC16MutatedOpcode() {
	tail := 8
	switch rt.NondetLen(0, 2) {
	case 1:
		tail = 20
	case 2:
		tail = 22
	}
	s := []byte{txscript.OP_0, txscript.OP_DATA_32}
	for i := 0; i < 32; i++ {
		s = append(s, 0x51)
	}
	s = append(s, byte(tail))
	for i := 0; i < tail; i++ {
		s = append(s, 0x51)
	}
	pos := 0
	switch rt.NondetLen(0, 2) {
	case 1:
		pos = 1
	case 2:
		pos = 34
	}
	s[pos] = rt.NondetU8()
	c16Agree(s)
	rt.Reach("end")
}

// Builders read back: scripts built by the consensus builders the wallet uses read back to their inputs.
func VerifC16BuildersReadBack() {
	params := config.ChainParams
	h := rt.NondetBytes(32)
	w0, err := massutil.NewAddressWitnessScriptHash(h, params)
	rt.Assert(err == nil, "address-from-hash")
	switch rt.NondetLen(0, 2) {
	case 0:
		script, err := txscript.PayToAddrScript(w0)
		rt.Assert(err == nil, "p2wsh-builds")
		info, perr := ParsePkScript(script, params)
		rt.Assert(perr == nil, "p2wsh-reads")
		if perr == nil {
			rt.Assert(info.ScriptClass() == txscript.WitnessV0ScriptHashTy && bytes.Equal(info.StdScriptAddress(), h) && info.Maturity() == 0, "p2wsh-readback")
			rt.Assert(info.StdEncodeAddress() == w0.EncodeAddress(), "p2wsh-text")
		}
	case 1:
		st, err := massutil.NewAddressStakingScriptHash(h, params)
		rt.Assert(err == nil, "staking-address-from-hash")
		frozen := rt.NondetU64()
		script, err := txscript.PayToStakingAddrScript(st, frozen)
		rt.Assert((err == nil) == wire.IsValidFrozenPeriod(frozen), "staking-builds-iff-valid-period")
		if err == nil {
			info, perr := ParsePkScript(script, params)
			rt.Assert(perr == nil, "staking-reads")
			if perr == nil {
				rt.Assert(info.IsStaking() && bytes.Equal(info.StdScriptAddress(), h) && info.Maturity() == frozen+1, "staking-readback")
				rt.Assert(info.SecondEncodeAddress() == st.EncodeAddress() && info.StdEncodeAddress() == w0.EncodeAddress(), "staking-text")
			}
		}
	case 2:
		tl := 20
		if rt.NondetBool() {
			tl = 22
		}
		target := rt.NondetBytes(tl)
		script, err := txscript.PayToBindingScriptHashScript(h, target)
		rt.Assert(err == nil, "binding-builds")
		info, perr := ParsePkScript(script, params)
		valid := tl == 20 || ((target[20] == 0 || target[20] == 1) && target[21] >= 20 && target[21] <= 200)
		rt.Assert((perr == nil) == valid, "binding-reads-iff-valid-target")
		if perr == nil {
			rt.Assert(info.IsBinding() && bytes.Equal(info.StdScriptAddress(), h) && bytes.Equal(info.SecondScriptAddress(), target), "binding-readback")
			if tl == 20 {
				rt.Assert(info.Maturity() == 0, "old-binding-maturity")
			} else {
				rt.Assert(info.Maturity() == consensus.MASSIP0002BindingLockedPeriod, "new-binding-maturity")
			}
		}
	}
	rt.Reach("end")
}
