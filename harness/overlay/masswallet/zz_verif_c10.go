//go:build verif

package masswallet

import (
	"github.com/massnetorg/mass-core/txscript"
	"github.com/massnetorg/mass-core/wire"
	"massnet.org/mass-wallet/config"
	"massnet.org/mass-wallet/masswallet/keystore"
	"massnet.org/mass-wallet/masswallet/txmgr"
	"massnet.org/mass-wallet/masswallet/utils"
	rt "massnet.org/mass-wallet/zzverifrt"
)

// VerifC10WithdrawSequence: the real addTxIn (the input builder of every automatically constructed transaction,
// withdrawals included) or the real constructTxIn (client-chosen inputs) for one wallet coin whose previous output is a staking script with an arbitrary
// frozen period, or a standard script. The script engine evaluates OP_CHECKSEQUENCEVERIFY of a staking output with
// frozenPeriod+1 (mass-core txscript/engine.go), so the input must carry exactly that value as its sequence -
// with the frozen period read by the consensus parser, not by the wallet's; a standard coin keeps the final
// sequence, or final-1 when the transaction has a lock time.
func VerifC10WithdrawSequence() {
	ks := keystore.VerifNewManager(c19WID)
	w := &WalletManager{ksmgr: ks, chainParams: config.ChainParams}
	script := []byte{txscript.OP_0, txscript.OP_DATA_32}
	script = append(script, rt.NondetBytes(32)...)
	staking := rt.NondetBool()
	if staking {
		script = append(append(script, 8), rt.NondetBytes(8)...)
	}
	prev := wire.NewMsgTx()
	prev.AddTxOut(wire.NewTxOut(5, script))
	c19Prev.mode, c19Prev.tx, c19Prev.block = 0, prev, &txmgr.BlockMeta{Height: rt.NondetU64()}
	lock := rt.NondetU64()
	msg := wire.NewMsgTx()
	var err error
	manual := rt.NondetBool()
	if manual {
		// the manual path (CreateRawTransaction with client-chosen inputs): the coin is the current wallet's
		if ps, perr := utils.ParsePkScript(script, config.ChainParams); perr == nil {
			keystore.VerifAddAddress(ks, c19WID, ps.StdEncodeAddress())
		}
		var built *wire.MsgTx
		built, _, _, err = w.constructTxIn([]*TxIn{{TxId: "00000000000000000000000000000000000000000000000000000000000000aa", Vout: 0}}, lock)
		if err == nil {
			msg = built
		}
	} else {
		cr := &txmgr.Credit{}
		cr.OutPoint = wire.OutPoint{Index: 0}
		err = w.addTxIn(msg, lock, []*txmgr.Credit{cr})
	}
	// what consensus reads from the same script
	class, pops := txscript.GetScriptInfo(script)
	if staking && class != txscript.StakingScriptHashTy {
		// a frozen period consensus does not accept: not a staking output at all
		rt.Reach("end")
		return
	}
	rt.Assert(err == nil, "input-built")
	if err != nil || len(msg.TxIn) != 1 {
		rt.Assert(err != nil || len(msg.TxIn) == 1, "one-input-added")
		rt.Reach("end")
		return
	}
	if staking {
		frozen, _, perr := txscript.GetParsedOpcode(pops, class)
		rt.Assert(perr == nil, "consensus-reads-the-frozen-period")
		rt.Assert(msg.TxIn[0].Sequence == frozen+1, "withdrawal-sequence-is-frozen-period-plus-one")
		rt.Reach("staking")
	} else {
		want := uint64(wire.MaxTxInSequenceNum)
		if lock != 0 {
			want = wire.MaxTxInSequenceNum - 1
		}
		rt.Assert(msg.TxIn[0].Sequence == want, "standard-input-keeps-the-final-sequence")
		rt.Reach("standard")
	}
	rt.Reach("end")
}
