//go:build verif

package masswallet

import (
	rt "massnet.org/mass-wallet/zzverifrt"
)

// VerifC20RequeueNeverDropped (C20: "every accepted import or removal eventually finishes"): the task queue has no
// persistence, so a task that is pushed and silently dropped is an import or removal that never finishes. One
// inductive step on the real NewWalletTaskChan / IsBusy / PushImport / PushRemove from an arbitrary state that
// satisfies the queue invariant
//
//	waiting + (1 if the worker runs a task it took from the queue) <= capacity of the queue
//
// which holds initially (NewNtfnsHandler sizes the queue by the number of wallets W, and the worker's start-up pass
// queues at most one task per wallet: asserted here as W <= capacity): (a) the API admits a task only when !IsBusy()
// (CreateWallet/ImportWallet/RemoveWallet test IsWorkerBusy first) - an admitted task is queued; (b) the idle worker
// takes a task; (c) the worker finishes its task; (d) the worker puts its unfinished task back (the re-queue after an
// import round that is not final, a failed round, or a removal step that is not final) - it is queued, never
// dropped. Every step re-establishes the invariant.
func VerifC20RequeueNeverDropped() {
	wallets := rt.NondetLen(0, 6) // NewNtfnsHandler passes the number of wallets
	c := NewWalletTaskChan(wallets)
	rt.Assert(wallets <= cap(c.C), "start-up-pass-fits-one-task-per-wallet")
	waiting := rt.NondetLen(0, 7)
	running := rt.NondetBool()
	inv := func(w int, r bool) bool {
		if r {
			return w+1 <= cap(c.C)
		}
		return w <= cap(c.C)
	}
	rt.Assume(inv(waiting, running))
	for i := 0; i < waiting; i++ {
		c.C <- WalletTask{taskType: WalletTaskImport, walletId: "w"}
	}
	switch rt.NondetLen(0, 3) {
	case 0: // API request
		if !c.IsBusy() {
			if rt.NondetBool() {
				c.PushImport("new")
			} else {
				c.PushRemove("new")
			}
			rt.Assert(len(c.C) == waiting+1, "admitted-task-is-queued")
			waiting++
			rt.Reach("api")
		}
	case 1: // the idle worker takes a task
		if !running && waiting > 0 {
			<-c.C
			waiting--
			running = true
		}
	case 2: // the worker finishes
		running = false
	case 3: // the worker puts its unfinished task back
		if running {
			if rt.NondetBool() {
				c.PushImport("again")
			} else {
				c.PushRemove("again")
			}
			rt.Assert(len(c.C) == waiting+1, "requeued-task-is-not-dropped")
			waiting++
			running = false
			rt.Reach("requeued")
		}
	}
	rt.Assert(len(c.C) == waiting, "queue-length-as-counted")
	rt.Assert(inv(waiting, running), "queue-invariant-re-established")
	rt.Reach("end")
}
