//go:build verif

package masswallet

import (
	"bytes"

	"github.com/massnetorg/mass-core/blockchain"
	"github.com/massnetorg/mass-core/database"
	"github.com/massnetorg/mass-core/netsync"
	"github.com/massnetorg/mass-core/wire"
	"massnet.org/mass-wallet/config"
	"massnet.org/mass-wallet/masswallet/keystore"
	"massnet.org/mass-wallet/masswallet/txmgr"
	"massnet.org/mass-wallet/masswallet/utils"
	rt "massnet.org/mass-wallet/zzverifrt"
)

// ---- cut: the in-memory "recently handed out" mark of a coin (a cache keyed by the outpoint's text) ----

var c02Used map[wire.OutPoint]bool

func (w *WalletManager) UTXOUsed(op *wire.OutPoint) bool {
	if !rt.CutActive("utxoUsed") {
		return w.UTXOUsed__real(op)
	}
	return c02Used[*op]
}

type c02Server struct{ pool *blockchain.TxPool }

func (s *c02Server) Blockchain() *blockchain.Blockchain   { return nil }
func (s *c02Server) ChainDB() database.Db                 { return nil }
func (s *c02Server) TxMemPool() *blockchain.TxPool        { return s.pool }
func (s *c02Server) SyncManager() *netsync.SyncManager    { return nil }

// VerifC02EligibleCoins: the coin source of automatic transaction construction (the real
// getUtxosExcludeBindingAndStaking over the real ScriptAddressUnspents) with two stored coins, each arbitrary: paid to
// the requested address or to another one, standard / staking / binding, any maturity and height, with or without
// a pending spender, marked as recently handed out or not. Every coin offered for spending is the requested
// address's, standard, mature at the next block, free of pending spenders and not handed out already; when such a
// coin exists, one is offered.
func VerifC02EligibleCoins() {
	st := txmgr.VerifNewStoresWithKeystoreManager([]byte("DJr6BomK"))
	const W = "ac10wwwwwwwwwwwwwwwwwwwwwwwwwwwwwwwwwwwwww"
	hMine, hOther := rt.NondetBytes(32), rt.NondetBytes(32)
	rt.Assume(!bytes.Equal(hMine, hOther))
	text := func(sh []byte) string {
		ps, err := utils.ParsePkScript(c01P2WSH(sh), config.ChainParams)
		rt.Assert(err == nil, "harness-script-parses")
		return ps.StdEncodeAddress()
	}
	keystore.VerifAddWallet(st.Ks, W)
	keystore.VerifAddAddressWithHash(st.Ks, W, text(hMine), hMine)
	keystore.VerifAddAddressWithHash(st.Ks, W, text(hOther), hOther)
	keystore.VerifSetCurrent(st.Ks, W)
	tip := rt.NondetU64()
	rt.Assume(tip >= 1 && tip < 1<<32) // Credit.Confirmations is a 32-bit value: heights a chain reaches in thousands of years
	st.VerifSetSyncedChain([]txmgr.BlockMeta{{Height: tip}})
	c02Used = map[wire.OutPoint]bool{}
	type coin struct {
		op       wire.OutPoint
		mine     bool
		class    int
		maturity uint32
		height   uint64
		pending  bool
		used     bool
		amount   uint64
	}
	var coins [2]coin
	for i := range coins {
		c := &coins[i]
		copy(c.op.Hash[:], rt.NondetBytes(32))
		c.op.Index = rt.NondetU32()
		c.mine = rt.NondetBool()
		c.class = rt.NondetLen(0, 2)
		c.maturity = rt.NondetU32()
		c.height = rt.NondetU64()
		rt.Assume(c.height >= 1 && c.height <= tip)
		c.pending = rt.NondetBool()
		c.used = rt.NondetBool()
		c.amount = uint64(rt.NondetU32()) + 1
	}
	rt.Assume(coins[0].op != coins[1].op)
	// coins of one transaction share its block
	rt.Assume(coins[0].op.Hash != coins[1].op.Hash || coins[0].height == coins[1].height)
	for i := range coins {
		c := &coins[i]
		sh := hOther
		if c.mine {
			sh = hMine
		}
		var spender *wire.Hash
		if c.pending {
			spender = &wire.Hash{0xab}
		}
		st.VerifPutCoin(W, c.op, c.height, wire.Hash{byte(i + 1)}, c.amount, sh, c.class, c.maturity, spender)
		c02Used[c.op] = c.used
	}
	w := &WalletManager{config: &config.Config{Wallet: config.NewDefWalletConfig()}, db: st.DB, chainParams: config.ChainParams,
		ksmgr: st.Ks, bucketMeta: st.Meta, utxoStore: st.Utxo, txStore: st.Tx, syncStore: st.Sync, server: &c02Server{pool: blockchain.NewTxPool(nil, nil, nil)}}
	got, _, err := w.getUtxosExcludeBindingAndStaking([]string{text(hMine)}, c02Amt(1))
	rt.Assert(err == nil, "coin-source-readable")
	if err != nil {
		rt.Reach("end")
		return
	}
	anyEligible := false
	for i := range coins {
		c := &coins[i]
		eligible := c.mine && c.class == 0 && tip-c.height+1 >= uint64(c.maturity) && !c.pending && !c.used
		offered := false
		for _, g := range got {
			if g.OutPoint == c.op {
				offered = true
				rt.Assert(g.Amount.UintValue() == c.amount, "offered-coin-carries-its-amount")
			}
		}
		// the selector keeps only as many of the largest eligible coins as the wanted amount needs, so an eligible
		// coin may be left out; an offered coin is always eligible
		rt.Assert(!offered || eligible, "offered-coin-is-own-standard-mature-and-free")
		if eligible {
			anyEligible = true
		}
	}
	rt.Assert(len(got) <= 2, "no-coin-offered-twice")
	rt.Assert(!anyEligible || len(got) >= 1, "an-eligible-coin-is-offered-when-there-is-one")
	rt.Reach("end")
}
