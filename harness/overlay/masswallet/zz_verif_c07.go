//go:build verif

package masswallet

import (
	"encoding/binary"
	"errors"

	"github.com/massnetorg/mass-core/logging"
	"github.com/massnetorg/mass-core/wire"
	"massnet.org/mass-wallet/config"
	mwdb "massnet.org/mass-wallet/masswallet/db"
	"massnet.org/mass-wallet/masswallet/ifc"
	"massnet.org/mass-wallet/masswallet/keystore"
	"massnet.org/mass-wallet/masswallet/txmgr"
	rt "massnet.org/mass-wallet/zzverifrt"
)

// ---- cut: the hand-shake that parks the block follower (its absence of deadlocks and races is C20 / C17).
// Under the cut it succeeds or reports "stopping", and the calls are counted. ----

var c07 struct {
	suspends, resumes int
	stopping          bool
}

func (h *NtfnsHandler) suspend(log bool, msg string, fields logging.LogFormat) bool {
	if !rt.CutActive("handshake") {
		return h.suspend__real(log, msg, fields)
	}
	if c07.stopping {
		return false
	}
	c07.suspends++
	return true
}

func (h *NtfnsHandler) resume(log bool, msg string, fields logging.LogFormat) {
	if !rt.CutActive("handshake") {
		h.resume__real(log, msg, fields)
		return
	}
	c07.resumes++
}

// ---- the node's script-hash index: answers "nothing for these scripts in [start, stop)" and records the range ----

type c07Node struct {
	ifc.ChainFetcher
	start, stop uint64
	calls       int
	fail        bool
	newest      uint64 // the node's own tip: at or above the follower's (blocks the follower has not processed yet)
}

// NewestSha: the node's chain tip. The rescan must not take its bounds from it - what lies above the follower's tip is
// the follower's to process - so it is an arbitrary height at or above the follower's.
func (n *c07Node) NewestSha() (*wire.Hash, uint64, error) {
	var h wire.Hash
	return &h, n.newest, nil
}

var errC07Node = errors.New("verif: chain index error")

func (n *c07Node) FetchScriptHashRelatedTx(scriptHashes [][]byte, start, stop uint64, p *config.Params) (*ifc.HeightSortedRelatedTx, error) {
	n.calls++
	n.start, n.stop = start, stop
	if n.fail {
		return nil, errC07Node
	}
	return &ifc.HeightSortedRelatedTx{Data: map[uint64][]*wire.TxLoc{}}, nil
}

const c07Wallet = "ac10dddddddddddddddddddddddddddddddddddddd"

type c07State struct {
	st   *txmgr.VerifStores
	w    *WalletManager
	h    *NtfnsHandler
	node *c07Node
}

func c07Setup(cursor, best uint64) *c07State {
	st := txmgr.VerifNewStoresWithKeystoreManager([]byte("DJr6BomK"))
	keystore.VerifAddWallet(st.Ks, c07Wallet)
	node := &c07Node{newest: best + uint64(rt.NondetU8()&3)}
	w := &WalletManager{config: &config.Config{Wallet: config.NewDefWalletConfig()}, db: st.DB, chainParams: config.ChainParams,
		ksmgr: st.Ks, bucketMeta: st.Meta, utxoStore: st.Utxo, txStore: st.Tx, syncStore: st.Sync, chainFetcher: node}
	h := &NtfnsHandler{walletMgr: w, mempool: map[wire.Hash]struct{}{}, expiredMempool: map[uint64]map[wire.Hash]struct{}{}}
	h.bestBlock.Height = best
	v := make([]byte, 9)
	binary.BigEndian.PutUint64(v, cursor)
	st.WS.Set([]byte(c07Wallet), v)
	st.Bal.Set([]byte(c07Wallet), []byte{0, 0, 0, 0, 0, 0, 0, 0})
	c07.suspends, c07.resumes, c07.stopping = 0, 0, false
	return &c07State{st: st, w: w, h: h, node: node}
}

func (s *c07State) cursor() uint64 {
	v := s.st.WS.Lookup([]byte(c07Wallet))
	rt.Assert(len(v) == 9, "status-row-present")
	return binary.BigEndian.Uint64(v)
}

// VerifC07ImportRound: one round of the rescan worker (the real asyncImport) for an importing wallet whose
// cursor is c, with the follower's tip at B >= c: the node's index is asked for exactly the heights c+1 ..
// min(c+1000, B); afterwards the cursor is that upper end, or "ready" exactly when it is B; until then the wallet is
// not ready and cannot be selected; a failed round (index error, storage fault, shutdown) changes nothing; the
// follower is resumed exactly when it was parked.
func VerifC07ImportRound() {
	c := rt.NondetU64()
	B := rt.NondetU64()
	rt.Assume(c <= B && B < 1<<56)
	s := c07Setup(c, B)
	s.node.fail = rt.NondetBool()
	c07.stopping = rt.NondetBool()
	s.st.DB.Calls = 0
	s.st.DB.FaultWrites = true
	s.st.DB.FaultAt = rt.NondetLen(0, 12)
	ready0, _ := s.w.CheckReady(c07Wallet)
	rt.Assert(!ready0, "importing-wallet-is-not-ready")
	fin, err := s.h.asyncImport(c07Wallet)
	s.st.DB.FaultAt = 0
	rt.Assert(c07.resumes == c07.suspends && c07.suspends <= 1, "follower-resumed-exactly-when-parked")
	stop := c + 1000
	if stop > B {
		stop = B
	}
	if err != nil {
		rt.Assert(!fin, "failed-round-is-not-final")
		rt.Assert(s.cursor() == c, "failed-round-leaves-the-cursor")
		rt.Reach("failed")
	} else {
		rt.Assert(s.node.calls == 1 && s.node.start == c+1 && s.node.stop == stop+1, "index-asked-for-exactly-the-next-heights")
		if stop == B {
			rt.Assert(fin && s.cursor() == txmgr.WalletSyncedDone, "round-reaching-the-tip-makes-the-wallet-ready")
			rt.Reach("finished")
		} else {
			rt.Assert(!fin && s.cursor() == stop, "cursor-advances-to-the-end-of-the-batch")
			rt.Reach("advanced")
		}
	}
	ready, rerr := s.w.CheckReady(c07Wallet)
	rt.Assert(rerr == nil && ready == (err == nil && stop == B), "ready-exactly-after-the-final-round")
	_, uerr := s.w.UseWallet(c07Wallet)
	if !ready {
		rt.Assert(uerr == ErrWalletUnready, "importing-wallet-cannot-be-selected")
	}
	rt.Reach("end")
}

// VerifC07CursorUnderDisconnect: the real disconnectBlock of the tip block at height d with an importing wallet
// (cursor c) and a ready wallet present: the importing wallet's cursor ends at min(c, d-1), the ready wallet stays
// ready, so no height above the fork is considered scanned.
func VerifC07CursorUnderDisconnect() {
	c := rt.NondetU64()
	d := rt.NondetU64()
	rt.Assume(d >= 2 && d < 1<<56 && c < 1<<56)
	s := c07Setup(c, d)
	const other = "ac10eeeeeeeeeeeeeeeeeeeeeeeeeeeeeeeeeeeeee"
	keystore.VerifAddWallet(s.st.Ks, other)
	v := make([]byte, 9)
	binary.BigEndian.PutUint64(v, txmgr.WalletSyncedDone)
	s.st.WS.Set([]byte(other), v)
	var h0, h1 wire.Hash
	copy(h0[:], rt.NondetBytes(32))
	copy(h1[:], rt.NondetBytes(32))
	s.st.VerifSetSyncedChain([]txmgr.BlockMeta{{Height: d - 1, Hash: h0}, {Height: d, Hash: h1}})
	err := mwdbUpdate(s, func(tx mwdbTx) error { return s.h.disconnectBlock(tx, d) })
	rt.Assert(err == nil, "disconnect-succeeds")
	if err == nil {
		want := c
		if want > d-1 {
			want = d - 1
		}
		rt.Assert(s.cursor() == want, "cursor-pulled-back-to-the-fork")
		ov := s.st.WS.Lookup([]byte(other))
		rt.Assert(len(ov) == 9 && binary.BigEndian.Uint64(ov) == txmgr.WalletSyncedDone, "ready-wallet-stays-ready")
	}
	rt.Reach("end")
}

type mwdbTx = mwdb.DBTransaction

func mwdbUpdate(s *c07State, f func(tx mwdbTx) error) error { return mwdb.Update(s.st.DB, f) }
