//go:build verif

package keystore

import (
	"bytes"
	"crypto/sha256"
	"crypto/sha512"
	"strings"

	"golang.org/x/crypto/pbkdf2"

	rt "massnet.org/mass-wallet/zzverifrt"
)

// vPadModel: the summary of padByteSlice used by the composition harnesses under the symbolic executor (redirect):
// it takes the undecided-length bytes of a big.Int without forking on their length. VerifC13PadSummary checks
// the real padByteSlice against it.
func vPadModel(slice []byte, length int) []byte { return rt.PadBigEndian(slice, length) }

// VerifC13PadSummary: padByteSlice(s, n) == PadBigEndian(s, n) for every slice of 0..4 bytes and n in 0..5.
func VerifC13PadSummary() {
	n := rt.NondetLen(0, 4)
	s := rt.NondetBytes(n)
	l := rt.NondetLen(0, 5)
	got := padByteSlice(append([]byte(nil), s...), l)
	want := rt.PadBigEndian(append([]byte(nil), s...), l)
	rt.Assert(bytes.Equal(got, want), "pad-equals-its-summary")
	rt.Reach("end")
}

// c13Spec: the BIP-39 word indexes of an entropy: the bits of entropy || first ENT/32 bits of SHA-256(entropy),
// cut into groups of 11, most significant first.
func c13Spec(entropy []byte) []int {
	ent := len(entropy) * 8
	cs := sha256.Sum256(entropy)
	n := (ent + ent/32) / 11
	out := make([]int, n)
	for i := 0; i < n; i++ {
		idx := 0
		for j := 0; j < 11; j++ {
			pos := 11*i + j
			var b byte
			if pos < ent {
				b = (entropy[pos/8] >> (7 - uint(pos%8))) & 1
			} else {
				b = (cs[0] >> (7 - uint(pos-ent))) & 1
			}
			idx = idx<<1 | int(b)
		}
		out[i] = idx
	}
	return out
}

func c13Words(idx []int) string {
	ws := make([]string, len(idx))
	for i, x := range idx {
		ws[i] = wordList[x]
	}
	return strings.Join(ws, " ")
}

func c13Encode(nbytes int) {
	entropy := rt.NondetBytes(nbytes)
	m, err := NewMnemonic(append([]byte(nil), entropy...))
	rt.Assert(err == nil, "legal-entropy-size-accepted")
	if err != nil {
		rt.Reach("end")
		return
	}
	rt.Assert(m == c13Words(c13Spec(entropy)), "mnemonic-is-the-bip39-encoding")
	back, err := EntropyFromMnemonic(m)
	rt.Assert(err == nil && bytes.Equal(back, entropy), "decoding-returns-the-entropy")
	raw, err := MnemonicToByteArray(m, true)
	rt.Assert(err == nil && bytes.Equal(raw, entropy), "byte-array-form-returns-the-entropy")
	rt.Assert(IsMnemonicValid(m), "produced-mnemonic-is-valid")
	// decoding is a function of the text: a second decode in the same process (after the first one and after the
	// validity check) returns the same entropy
	again, err := EntropyFromMnemonic(m)
	rt.Assert(err == nil && bytes.Equal(again, entropy), "second-decoding-returns-the-entropy")
	rt.Reach("end")
}

// VerifC13Encode16..32: for every entropy of the size, NewMnemonic is the BIP-39 encoding and both decoders return it.
func VerifC13Encode16() { c13Encode(16) }
func VerifC13Encode20() { c13Encode(20) }
func VerifC13Encode24() { c13Encode(24) }
func VerifC13Encode28() { c13Encode(28) }
func VerifC13Encode32() { c13Encode(32) }

// c13Decode: an arbitrary sequence of n list words (optionally one word replaced by a string that is not in the
// list) is accepted exactly when n is a legal length, every word is in the list and the checksum bits are the
// first bits of SHA-256 of the entropy bits; what is returned is those entropy bits.
func c13Decode(n int, foreignWord string) {
	foreign := foreignWord != ""
	idx := make([]int, n)
	ws := make([]string, n)
	for i := range idx {
		idx[i] = int(rt.NondetU16() & 2047) // every index; the mask keeps the bound visible to the executor
		ws[i] = wordList[idx[i]]
	}
	if foreign {
		ws[rt.NondetLen(0, n-1)] = foreignWord
	}
	m := strings.Join(ws, " ")
	legal := n%3 == 0 && n >= 12 && n <= 24
	rt.Assert(IsMnemonicValid(m) == (legal && !foreign), "valid-iff-legal-length-and-list-words")
	ent, err := EntropyFromMnemonic(m)
	_, err2 := MnemonicToByteArray(m)
	if !legal || foreign {
		rt.Assert(err != nil && err2 != nil, "illegal-sequence-refused")
		rt.Reach("end")
		return
	}
	// the bits
	total := 11 * n
	entBits := total - total/33
	want := make([]byte, entBits/8)
	var csGot byte
	for pos := 0; pos < total; pos++ {
		b := byte(idx[pos/11]>>(10-uint(pos%11))) & 1
		if pos < entBits {
			want[pos/8] |= b << (7 - uint(pos%8))
		} else {
			csGot |= b << (7 - uint(pos-entBits))
		}
	}
	h := sha256.Sum256(want)
	mask := byte(0xff) << (8 - uint(total/33))
	ok := h[0]&mask == csGot
	rt.Assert((err == nil) == ok, "accepted-iff-checksum-correct")
	rt.Assert((err2 == nil) == ok, "byte-array-form-accepted-iff-checksum-correct")
	if err == nil {
		rt.Assert(bytes.Equal(ent, want), "decoded-entropy-is-the-leading-bits")
	}
	rt.Reach("end")
}

func VerifC13Decode12()        { c13Decode(12, "") }
func VerifC13Decode15()        { c13Decode(15, "") }
func VerifC13Decode24()        { c13Decode(24, "") }
func VerifC13DecodeLen9()      { c13Decode(9, "") }
func VerifC13DecodeLen11()     { c13Decode(11, "") }
func VerifC13DecodeLen13()     { c13Decode(13, "") }
func VerifC13DecodeLen27()     { c13Decode(27, "") }
// a list word in another letter case is not a list word
func VerifC13DecodeForeignCase12() { c13Decode(12, "Zoo") }
func VerifC13DecodeForeignUpper12() { c13Decode(12, "ABANDON") }
func VerifC13DecodeForeign12() { c13Decode(12, "zzzzzz") }

// VerifC13Seed: the seed is PBKDF2-HMAC-SHA512(mnemonic, "mnemonic"+passphrase, 2048 rounds, 64 bytes).
func VerifC13Seed() { c13Seed(0, 3) }

// long passphrases: BIP-39 puts no limit on the passphrase; the lengths around 56 (a 64-byte salt buffer), 64
// and 128 (hash block sizes) are where a fixed buffer or a block-wise copy would show
func VerifC13SeedLong()     { c13Seed(52, 68) }
func VerifC13SeedLonger()   { c13Seed(118, 132) }
func VerifC13SeedAllLen() { c13Seed(0, 160) }

func c13Seed(lo, hi int) {
	m := "abandon abandon abandon abandon abandon abandon abandon abandon abandon abandon abandon about"
	p := string(rt.NondetBytes(rt.NondetLen(lo, hi)))
	got := NewSeed(m, p)
	want := pbkdf2.Key([]byte(m), []byte("mnemonic"+p), 2048, 64, sha512.New)
	rt.Assert(bytes.Equal(got, want), "seed-is-the-bip39-pbkdf2")
	s2, err := NewSeedWithErrorChecking(m, p)
	rt.Assert(err == nil && bytes.Equal(s2, want), "checked-seed-is-the-same")
	rt.Reach("end")
}

// VerifC13Whitespace: the three decoders split a mnemonic on any run of white space. A valid 12-word sentence is
// written with one separator - at an arbitrary position - replaced by two arbitrary white-space bytes (space, tab,
// line feed, carriage return), and optionally a leading and a trailing arbitrary white-space byte: every decoder accepts it and returns the entropy of the single-spaced sentence.
func VerifC13Whitespace() {
	words := []string{"legal", "winner", "thank", "year", "wave", "sausage", "worth", "useful", "legal", "winner", "thank", "yellow"}
	want := bytes.Repeat([]byte{0x7f}, 16)
	kinds := [4]byte{' ', '\t', '\n', '\r'}
	ws := func() byte { return kinds[rt.NondetU8()&3] } // a table look-up, not a disjunction: no fork per separator
	dbl := rt.NondetRange(0, len(words)-2)
	var m []byte
	if rt.NondetBool() {
		m = append(m, ws())
	}
	for i, w := range words {
		m = append(m, w...)
		if i < len(words)-1 {
			if i == dbl {
				m = append(m, ws(), ws())
			} else {
				m = append(m, ' ')
			}
		}
	}
	if rt.NondetBool() {
		m = append(m, ws())
	}
	text := string(m)
	rt.Assert(IsMnemonicValid(text), "re-spaced-sentence-is-valid")
	ent, err := EntropyFromMnemonic(text)
	rt.Assert(err == nil && bytes.Equal(ent, want), "re-spaced-sentence-decodes-to-the-entropy")
	raw, err := MnemonicToByteArray(text, true)
	rt.Assert(err == nil && bytes.Equal(raw, want), "byte-array-form-of-the-re-spaced-sentence")
	_, err = NewSeedWithErrorChecking(text, "")
	rt.Assert(err == nil, "seed-call-accepts-the-re-spaced-sentence")
	rt.Reach("end")
}

// VerifC13WordList: the word list in use is the BIP-39 English list (2048 words, the published file's SHA-256).
// Concrete data: the executor evaluates it without the solver; it is the side condition of the other harnesses.
func VerifC13WordList() {
	rt.Assert(len(wordList) == 2048, "2048-words")
	sum := sha256.Sum256([]byte(strings.Join(wordList, "\n") + "\n"))
	want := [32]byte{0x2f, 0x5e, 0xed, 0x53, 0xa4, 0x72, 0x7b, 0x4b, 0xf8, 0x88, 0x0d, 0x8f, 0x3f, 0x19, 0x9e, 0xfc, 0x90, 0xe5, 0x85, 0x03, 0x64, 0x6d, 0x9f, 0xf8, 0xef, 0xf3, 0xa2, 0xed, 0x3b, 0x24, 0xdb, 0xda}
	rt.Assert(sum == want, "word-list-is-bip39-english")
	for i, w := range wordList {
		j, ok := wordMap[w]
		rt.Assert(ok && j == i, "reverse-map-inverts-the-list")
	}
	rt.Reach("end")
}
