//go:build verif

package keystore

import "github.com/massnetorg/mass-core/config"

// VerifNewManager: a keystore manager whose current keystore is an (empty) address manager named walletId.
// Overlay-only hook for harnesses of other packages (txmgr, masswallet) that need CurrentKeystore().Name().
func VerifNewManager(walletId string) *KeystoreManager {
	am := &AddrManager{keystoreName: walletId, index: map[uint32]string{}, addrs: map[string]*ManagedAddress{}}
	return &KeystoreManager{
		managedKeystores: map[string]*AddrManager{walletId: am},
		currentKeystore:  &currentKeystore{accountName: walletId},
		params:           &config.ChainParams,
	}
}
