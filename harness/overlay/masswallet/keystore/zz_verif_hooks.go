//go:build verif

package keystore

import "github.com/massnetorg/mass-core/config"

// VerifNewManager: a keystore manager whose current keystore is an (empty) address manager named walletId.
// Overlay-only hook for harnesses of other packages (txmgr, masswallet) that need CurrentKeystore().Name().
func VerifNewManager(walletId string) *KeystoreManager {
	am := &AddrManager{keystoreName: walletId, index: map[uint32]string{}, addrs: map[string]*ManagedAddress{}, acctInfo: &accountInfo{}, branchInfo: &branchInfo{}}
	return &KeystoreManager{
		managedKeystores: map[string]*AddrManager{walletId: am},
		currentKeystore:  &currentKeystore{accountName: walletId},
		params:           &config.ChainParams,
	}
}

// VerifAddAddress registers addr as an address of the current keystore (only the look-up by text is used).
func VerifAddAddress(km *KeystoreManager, walletId, addr string) {
	km.managedKeystores[walletId].addrs[addr] = &ManagedAddress{address: addr, keystoreName: walletId}
}

// VerifAddAddressWithHash registers an address of walletId by its text, with its script hash.
func VerifAddAddressWithHash(km *KeystoreManager, walletId, addr string, scriptHash []byte) {
	km.managedKeystores[walletId].addrs[addr] = &ManagedAddress{address: addr, keystoreName: walletId, scriptHash: scriptHash}
}

// VerifAddWallet registers an (address-less) address manager named walletId with a keystore manager.
func VerifAddWallet(km *KeystoreManager, walletId string) {
	km.managedKeystores[walletId] = &AddrManager{keystoreName: walletId, index: map[uint32]string{}, addrs: map[string]*ManagedAddress{}, acctInfo: &accountInfo{}, branchInfo: &branchInfo{}}
}

// VerifNewAddrManager: an address manager named walletId with one address (text, script hash).
func VerifNewAddrManager(walletId, addr string, scriptHash []byte) *AddrManager {
	am := &AddrManager{keystoreName: walletId, index: map[uint32]string{}, addrs: map[string]*ManagedAddress{}, acctInfo: &accountInfo{}, branchInfo: &branchInfo{}}
	am.addrs[addr] = &ManagedAddress{address: addr, keystoreName: walletId, scriptHash: scriptHash}
	return am
}

// VerifAddManager registers an address manager with a keystore manager.
func VerifAddManager(km *KeystoreManager, am *AddrManager) { km.managedKeystores[am.keystoreName] = am }

// VerifSetCurrent selects the wallet in use ("" = none).
func VerifSetCurrent(km *KeystoreManager, walletId string) {
	if walletId == "" {
		km.currentKeystore = nil
		return
	}
	km.currentKeystore = &currentKeystore{accountName: walletId}
}
