//go:build verif

package keystore

import (
	"github.com/massnetorg/mass-core/config"

	wconfig "massnet.org/mass-wallet/config"
	mwdb "massnet.org/mass-wallet/masswallet/db"
	mdb "massnet.org/mass-wallet/zzverifmdb"
	rt "massnet.org/mass-wallet/zzverifrt"
)

// VerifNewManager: a keystore manager whose current keystore is an (empty) address manager named walletId.
// Overlay-only hook for harnesses of other packages (txmgr, masswallet) that need CurrentKeystore().Name().
func VerifNewManager(walletId string) *KeystoreManager {
	am := &AddrManager{keystoreName: walletId, index: map[uint32]string{}, addrs: map[string]*ManagedAddress{}, acctInfo: &accountInfo{}, branchInfo: &branchInfo{}}
	return &KeystoreManager{
		managedKeystores: map[string]*AddrManager{walletId: am},
		currentKeystore:  &currentKeystore{accountName: walletId},
		params:           &config.ChainParams,
	}
}

// VerifAddAddress registers addr as an address of the current keystore (only the look-up by text is used).
func VerifAddAddress(km *KeystoreManager, walletId, addr string) {
	km.managedKeystores[walletId].addrs[addr] = &ManagedAddress{address: addr, keystoreName: walletId}
}

// VerifAddAddressWithHash registers an address of walletId by its text, with its script hash.
func VerifAddAddressWithHash(km *KeystoreManager, walletId, addr string, scriptHash []byte) {
	km.managedKeystores[walletId].addrs[addr] = &ManagedAddress{address: addr, keystoreName: walletId, scriptHash: scriptHash}
}

// VerifAddWallet registers an (address-less) address manager named walletId with a keystore manager.
func VerifAddWallet(km *KeystoreManager, walletId string) {
	km.managedKeystores[walletId] = &AddrManager{keystoreName: walletId, index: map[uint32]string{}, addrs: map[string]*ManagedAddress{}, acctInfo: &accountInfo{}, branchInfo: &branchInfo{}}
}

// VerifNewAddrManager: an address manager named walletId with one address (text, script hash).
func VerifNewAddrManager(walletId, addr string, scriptHash []byte) *AddrManager {
	am := &AddrManager{keystoreName: walletId, index: map[uint32]string{}, addrs: map[string]*ManagedAddress{}, acctInfo: &accountInfo{}, branchInfo: &branchInfo{}}
	am.addrs[addr] = &ManagedAddress{address: addr, keystoreName: walletId, scriptHash: scriptHash}
	return am
}

// VerifAddManager registers an address manager with a keystore manager.
func VerifAddManager(km *KeystoreManager, am *AddrManager) { km.managedKeystores[am.keystoreName] = am }

// VerifSetCurrent selects the wallet in use ("" = none).
func VerifSetCurrent(km *KeystoreManager, walletId string) {
	if walletId == "" {
		km.currentKeystore = nil
		return
	}
	km.currentKeystore = &currentKeystore{accountName: walletId}
}

// VerifInstallKeystore: walletId as a *stored* keystore of km - the bucket km/<walletId> (with one entry standing for
// its contents), its entry in the account-id bucket, and the cache entry whose storage is that bucket.
func VerifInstallKeystore(km *KeystoreManager, root *mdb.Bucket, walletId string) {
	kmB := root.Sub(ksMgrBucket)
	amB := kmB.Sub(walletId)
	amB.Set([]byte("contents"), []byte{1})
	kmB.Sub(accountIDBucket).Set([]byte(walletId), []byte{0})
	km.managedKeystores[walletId] = &AddrManager{keystoreName: walletId, index: map[uint32]string{}, addrs: map[string]*ManagedAddress{},
		acctInfo: &accountInfo{}, branchInfo: &branchInfo{}, storage: amB.GetBucketMeta()}
}

// VerifKeystoreStored / VerifKeystoreCached: is anything of walletId left in the store / in the cache?
func VerifKeystoreStored(root *mdb.Bucket, walletId string) bool {
	kmB := root.Sub(ksMgrBucket)
	return kmB.Bucket(walletId) != nil || kmB.Sub(accountIDBucket).Lookup([]byte(walletId)) != nil
}

func VerifKeystoreCached(km *KeystoreManager, walletId string) bool {
	_, ok := km.managedKeystores[walletId]
	return ok
}

// cut "loadAddrManager": reloading an address manager from its bucket (decryption with the public passphrase, parsing
// of the stored keys: C04's create-then-reload harness runs the real function). Contract kept: the manager is named by
// its bucket and its storage is that bucket.
func loadAddrManager(amBucket mwdb.Bucket, pubPassphrase []byte, net *wconfig.Params) (*AddrManager, error) {
	if !rt.CutActive("loadAddrManager") {
		return loadAddrManager__real(amBucket, pubPassphrase, net)
	}
	meta := amBucket.GetBucketMeta()
	return &AddrManager{keystoreName: meta.Name(), index: map[uint32]string{}, addrs: map[string]*ManagedAddress{},
		acctInfo: &accountInfo{}, branchInfo: &branchInfo{}, storage: meta}, nil
}

// cut "validatePassphrase": the passphrase rule is a regular expression (^[0-9a-zA-Z@#$%^&]{6,40}$); the regexp engine
// is not executed symbolically. Contract kept: the length window.
func ValidatePassphrase(pass []byte) bool {
	if !rt.CutActive("validatePassphrase") {
		return ValidatePassphrase__real(pass)
	}
	return len(pass) >= 6 && len(pass) <= 40
}
