//go:build verif

package keystore

import (
	"encoding/hex"

	"github.com/btcsuite/btcd/btcec"

	"massnet.org/mass-wallet/config"
	mwdb "massnet.org/mass-wallet/masswallet/db"
	"massnet.org/mass-wallet/masswallet/keystore/hdkeychain"
	mdb "massnet.org/mass-wallet/zzverifmdb"
	rt "massnet.org/mass-wallet/zzverifrt"
)

// c05PubTag: the tag of the public counterpart of a private path tag - a one-way function of it (the path indexes
// in the last eight bytes are kept, so that the chain oracle of the restore scan still reads branch and index).
func c05PubTag(tag []byte) []byte {
	t := make([]byte, 33)
	t[0] = 3
	copy(t[1:25], rt.OneWay(tag[:25], 24))
	copy(t[25:], tag[25:])
	if !rt.Symbolic() {
		// natively the tag has to be a point of the curve for ECPubKey (under the executor decompression is
		// uninterpreted and may succeed or fail): walk one byte of the one-way part until it is
		for i := 0; i < 256; i++ {
			if _, err := btcec.ParsePubKey(t, btcec.S256()); err == nil {
				break
			}
			t[24]++
		}
	}
	return t
}

// VerifC05ScopeErrorTexts: no error and no log line of the real createManagerKeyScope carries private key material -
// on the first import of a seed (with one failing storage call at an arbitrary point) and on the re-import of the
// same seed, which must be refused as a duplicate. The root private key is 32 arbitrary secret bytes (rt.Secret);
// key derivation is cut to the path tagging of the C12 restore scan, with public keys a one-way function of the
// private ones. Under the executor every text sink reached is the obligation (two-run query, engine/symex/secret.go);
// natively the returned error texts are searched for the serialised private keys.
func VerifC05ScopeErrorTexts() {
	sec := rt.NondetBytes(32)
	rt.Secret(sec)
	hdkeychain.VerifChildStub = func(k *hdkeychain.ExtendedKey, i uint32) (*hdkeychain.ExtendedKey, error) {
		return hdkeychain.VerifOpaqueKey(c12PathChild(k.VerifTag(), i), k.IsPrivate()), nil
	}
	hdkeychain.VerifNeuterStub = func(k *hdkeychain.ExtendedKey) (*hdkeychain.ExtendedKey, error) {
		if !k.IsPrivate() {
			return k, nil
		}
		return hdkeychain.VerifOpaqueKey(c05PubTag(k.VerifTag()), false), nil
	}
	root := hdkeychain.VerifOpaqueKey(append([]byte{2}, sec...), true)
	// the private keys of the hierarchy, for the native search
	var secrets []string
	if !rt.Symbolic() {
		secrets = append(secrets, string(sec), hex.EncodeToString(sec), root.String())
		k := root
		for _, i := range []uint32{Net2KeyScope[config.ChainParams.HDCoinType].Purpose + hdkeychain.HardenedKeyStart, Net2KeyScope[config.ChainParams.HDCoinType].Coin + hdkeychain.HardenedKeyStart, hdkeychain.HardenedKeyStart} {
			k, _ = k.Child(i)
			secrets = append(secrets, k.String(), string(k.VerifTag()), hex.EncodeToString(k.VerifTag()))
		}
		for _, b := range []uint32{InternalBranch, ExternalBranch} {
			c, _ := k.Child(b)
			secrets = append(secrets, c.String(), string(c.VerifTag()), hex.EncodeToString(c.VerifTag()))
		}
	}
	db := mdb.New()
	db.Top("km")
	db.FaultWrites = true
	db.FaultAt = rt.NondetRange(0, 40)
	check := func(sh []byte) (bool, error) { return false, nil }
	run := func() error {
		return mwdb.Update(db, func(tx mwdb.DBTransaction) error {
			path := &hdPath{Account: 0, ExternalChildNum: 1, InternalChildNum: 0}
			_, e := createManagerKeyScope(tx.TopLevelBucket("km"), root, c12PubEnc{}, c12Enc{}, path, check, config.ChainParams, 2)
			return e
		})
	}
	err1 := run()
	if err1 != nil {
		rt.Reach("first-import-failed")
		rt.Assert(!rt.TextHasSecret(err1.Error(), secrets...), "no-secret-in-an-error-or-log-text")
	}
	err2 := run()
	if err1 == nil {
		rt.Assert(err2 != nil, "re-import-of-a-managed-seed-is-refused")
		rt.Reach("duplicate-refused")
	}
	if err2 != nil {
		rt.Assert(!rt.TextHasSecret(err2.Error(), secrets...), "no-secret-in-an-error-or-log-text")
	}
	rt.Reach("end")
}
