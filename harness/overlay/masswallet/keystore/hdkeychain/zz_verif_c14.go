//go:build verif

package hdkeychain

import (
	"bytes"
	"crypto/hmac"
	"crypto/sha512"
	"encoding/binary"
	"math/big"

	"github.com/btcsuite/btcd/btcec"
	"github.com/massnetorg/mass-core/massutil"
	"github.com/massnetorg/mass-core/massutil/base58"
	"github.com/massnetorg/mass-core/wire"
	rt "massnet.org/mass-wallet/zzverifrt"
)

var c14PrivVer = []byte{0x04, 0x88, 0xad, 0xe4}
var c14PubVer = []byte{0x04, 0x88, 0xb2, 0x1e}

// ser256: 32-byte big-endian form of a scalar given with 1..32 bytes.
func c14Ser256(k []byte) []byte {
	out := make([]byte, 32)
	copy(out[32-len(k):], k)
	return out
}

// serP(point(k)) through the curve API (uninterpreted symbolically, real natively).
func c14SerP(scalar []byte) []byte {
	x, y := btcec.S256().ScalarBaseMult(scalar)
	pk := btcec.PublicKey{Curve: btcec.S256(), X: x, Y: y}
	return pk.SerializeCompressed()
}

func c14HMAC(key, data []byte) []byte {
	h := hmac.New(sha512.New, key)
	h.Write(data)
	return h.Sum(nil)
}

func c14Ser32(i uint32) []byte {
	var b [4]byte
	binary.BigEndian.PutUint32(b[:], i)
	return b[:]
}

// c14ValidScalar: 0 < k < n (documented precondition for a private extended key).
func c14ValidScalar(k []byte) bool {
	v := new(big.Int).SetBytes(k)
	return v.Sign() > 0 && v.Cmp(btcec.S256().N) < 0
}

// c14PrivParent builds an arbitrary private parent whose scalar is stored in klen bytes.
func c14PrivParent(klen int) (*ExtendedKey, []byte, []byte) {
	key := rt.NondetBytes(klen)
	rt.Assume(c14ValidScalar(key))
	cc := rt.NondetBytes(32)
	fp := rt.NondetBytes(4)
	depth := rt.NondetU8()
	rt.Assume(depth < 255)
	num := rt.NondetU32()
	return NewExtendedKey(c14PrivVer, key, cc, fp, depth, num, true), key, cc
}

// c14CheckPrivChild asserts the BIP-32 CKDpriv result for parent k (scalar bytes key) and index i.
func c14CheckPrivChild(k *ExtendedKey, key, cc []byte, i uint32) {
	depth, fpOfParent := k.depth, massutil.Hash160(c14SerP(key))[:4]
	child, err := k.Child(i)
	// specification
	var data []byte
	if i >= HardenedKeyStart {
		data = append(append([]byte{0x00}, c14Ser256(key)...), c14Ser32(i)...)
	} else {
		data = append(append([]byte{}, c14SerP(key)...), c14Ser32(i)...)
	}
	I := c14HMAC(cc, data)
	il := new(big.Int).SetBytes(I[:32])
	n := btcec.S256().N
	valid := il.Cmp(n) < 0 && il.Sign() != 0
	rt.Assert((err == nil) == valid, "child-valid-iff-IL-in-range")
	if err != nil {
		rt.Assert(child == nil, "no-key-on-error")
		rt.Reach("end")
		return
	}
	sum := new(big.Int).Add(il, new(big.Int).SetBytes(key))
	want := sum.Mod(sum, n)
	rt.Assert(bytes.Equal(child.chainCode, I[32:]), "child-chain-code-is-IR")
	rt.Assert(new(big.Int).SetBytes(child.key).Cmp(want) == 0, "child-key-is-IL-plus-k-mod-n")
	rt.Assert(child.isPrivate, "child-is-private")
	rt.Assert(child.depth == depth+1, "child-depth")
	rt.Assert(child.childNum == i, "child-number")
	rt.Assert(bytes.Equal(child.parentFP, fpOfParent), "child-fingerprint")
	rt.Assert(bytes.Equal(child.version, c14PrivVer), "child-version")
	rt.Reach("end")
}

// VerifC14ChildPrivHardened: CKDpriv, hardened index, parent scalar stored in 1..32 bytes.
// The 32-byte case is kept apart from the shorter ones: the latter is a known finding (known_findings.json)
// and must not mask a regression of the former.
func VerifC14ChildPrivHardened32()       { c14ChildPrivHardened(32) }
func VerifC14ChildPrivHardenedShort()    { c14ChildPrivHardened(rt.NondetLen(30, 31)) }
func VerifC14ChildPrivHardenedShortAll() { c14ChildPrivHardened(rt.NondetLen(1, 29)) }

func c14ChildPrivHardened(klen int) {
	k, key, cc := c14PrivParent(klen)
	i := rt.NondetU32()
	rt.Assume(i >= HardenedKeyStart)
	c14CheckPrivChild(k, key, cc, i)
}

// VerifC14ChildPrivNormal: CKDpriv, non-hardened index.
func VerifC14ChildPrivNormal()    { c14ChildPrivNormal(rt.NondetLen(30, 32)) }
func VerifC14ChildPrivNormalAll() { c14ChildPrivNormal(rt.NondetLen(1, 29)) }

func c14ChildPrivNormal(klen int) {
	k, key, cc := c14PrivParent(klen)
	i := rt.NondetU32()
	rt.Assume(i < HardenedKeyStart)
	c14CheckPrivChild(k, key, cc, i)
}

// VerifC14ChildPublic: CKDpub for an arbitrary compressed parent point; hardened indexes refused.
func VerifC14ChildPublic() { c14ChildPublic(false) }

// VerifC14ChildAfterSiblingZeroed: derivation is a function of (parent, index) only - a child derived after an
// earlier child of the same parent was derived and wiped (the key store's derive-then-Zero loops) is still the
// BIP-32 child, fingerprint included. The specification is computed from copies taken before anything is wiped.
func VerifC14ChildAfterSiblingZeroed() { c14ChildPublic(true) }

// the secp256k1 generator, compressed: a parent point that is on the curve in native runs too
var c14G = []byte{0x02, 0x79, 0xBE, 0x66, 0x7E, 0xF9, 0xDC, 0xBB, 0xAC, 0x55, 0xA0, 0x62, 0x95, 0xCE, 0x87, 0x0B, 0x07, 0x02, 0x9B, 0xFC, 0xDB, 0x2D, 0xCE, 0x28, 0xD9, 0x59, 0xF2, 0x81, 0x5B, 0x16, 0xF8, 0x17, 0x98}

func c14ChildPublic(wipeSibling bool) {
	pub := rt.NondetBytes(33)
	if wipeSibling {
		// the parent point is fixed to a real curve point (chain code, fingerprint, depth, indexes stay arbitrary),
		// so that a counterexample does not depend on the uninterpreted "is on the curve" predicate
		for i := range pub {
			rt.Assume(pub[i] == c14G[i])
		}
	}
	cc := rt.NondetBytes(32)
	fp := rt.NondetBytes(4)
	depth := rt.NondetU8()
	rt.Assume(depth < 255)
	k := NewExtendedKey(c14PubVer, append([]byte{}, pub...), append([]byte{}, cc...), fp, depth, rt.NondetU32(), false)
	if wipeSibling {
		first, ferr := k.Child(rt.NondetU32())
		if ferr == nil {
			first.Zero()
			rt.Reach("sibling-wiped")
		}
	}
	i := rt.NondetU32()
	child, err := k.Child(i)
	if i >= HardenedKeyStart {
		rt.Assert(err == ErrDeriveHardFromPublic && child == nil, "hardened-from-public-refused")
		rt.Reach("end")
		return
	}
	I := c14HMAC(cc, append(append([]byte{}, pub...), c14Ser32(i)...))
	il := new(big.Int).SetBytes(I[:32])
	inRange := il.Cmp(btcec.S256().N) < 0 && il.Sign() != 0
	if !inRange {
		rt.Assert(err == ErrInvalidChild, "IL-out-of-range-refused")
		rt.Reach("end")
		return
	}
	parent, perr := btcec.ParsePubKey(pub, btcec.S256())
	ilx, ily := btcec.S256().ScalarBaseMult(I[:32])
	if ilx.Sign() == 0 || ily.Sign() == 0 {
		rt.Assert(err != nil, "point-at-infinity-refused")
		rt.Reach("end")
		return
	}
	rt.Assert((err == nil) == (perr == nil), "valid-iff-parent-on-curve")
	if err == nil && perr == nil {
		cx, cy := btcec.S256().Add(ilx, ily, parent.X, parent.Y)
		pk := btcec.PublicKey{Curve: btcec.S256(), X: cx, Y: cy}
		rt.Assert(bytes.Equal(child.key, pk.SerializeCompressed()), "child-point-is-IL*G+Kpar")
		rt.Assert(bytes.Equal(child.chainCode, I[32:]), "child-chain-code-is-IR")
		rt.Assert(!child.isPrivate && child.depth == depth+1 && child.childNum == i, "child-meta")
		rt.Assert(bytes.Equal(child.parentFP, massutil.Hash160(pub)[:4]), "child-fingerprint")
		rt.Assert(bytes.Equal(child.version, c14PubVer), "child-version")
	}
	rt.Reach("end")
}

// VerifC14NeuterCommutes: N(CKDpriv(k,i)) == CKDpub(N(k),i) for non-hardened i, given the group law
// point(a+b mod n) = point(a)+point(b) at the two scalars involved (stated through the curve API).
func VerifC14NeuterCommutes()      { c14NeuterCommutes(32) }
func VerifC14NeuterCommutesShort() { c14NeuterCommutes(rt.NondetLen(29, 31)) }

func c14NeuterCommutes(klen int) {
	k, key, _ := c14PrivParent(klen)
	i := rt.NondetU32()
	rt.Assume(i < HardenedKeyStart)
	privChild, err1 := k.Child(i)
	nk, errN := k.Neuter()
	rt.Assert(errN == nil, "neuter-succeeds")
	pubChild, err2 := nk.Child(i)
	if err1 != nil {
		rt.Reach("end")
		return
	}
	// group law instance: point(childScalar) = point(IL) + point(k)
	I := c14HMAC(k.chainCode, append(append([]byte{}, c14SerP(key)...), c14Ser32(i)...))
	ilx, ily := btcec.S256().ScalarBaseMult(I[:32])
	kx, ky := btcec.S256().ScalarBaseMult(key)
	sx, sy := btcec.S256().Add(ilx, ily, kx, ky)
	cx, cy := btcec.S256().ScalarBaseMult(privChild.key)
	rt.Assume(cx.Cmp(sx) == 0 && cy.Cmp(sy) == 0)
	rt.Assume(ilx.Sign() != 0 && ily.Sign() != 0)
	// serP(point(k)) parses back to point(k) (contract of ParsePubKey on a valid encoding)
	pp, perr := btcec.ParsePubKey(c14SerP(key), btcec.S256())
	rt.Assume(perr == nil && pp.X.Cmp(kx) == 0 && pp.Y.Cmp(ky) == 0)
	rt.Assert(err2 == nil, "public-derivation-succeeds")
	if err2 == nil {
		npc, errN2 := privChild.Neuter()
		rt.Assert(errN2 == nil, "neuter-child-succeeds")
		rt.Assert(bytes.Equal(npc.key, pubChild.key), "neutered-child-equals-public-child-key")
		rt.Assert(bytes.Equal(npc.chainCode, pubChild.chainCode), "same-chain-code")
		rt.Assert(npc.depth == pubChild.depth && npc.childNum == pubChild.childNum, "same-meta")
		rt.Assert(bytes.Equal(npc.parentFP, pubChild.parentFP), "same-fingerprint")
		rt.Assert(bytes.Equal(npc.version, pubChild.version), "same-version")
	}
	rt.Reach("end")
}

// VerifC14SerializePriv: String() of a private key (scalar stored in 1..32 bytes) is
// base58(payload || checksum) with the BIP-32 78-byte payload, and parsing it returns equal fields.
func VerifC14SerializePriv()    { c14SerializePriv(rt.NondetLen(29, 32)) }
func VerifC14SerializePrivAll() { c14SerializePriv(rt.NondetLen(1, 28)) }

func c14SerializePriv(klen int) {
	k, key, cc := c14PrivParent(klen)
	s := k.String()
	payload := make([]byte, 0, 82)
	payload = append(payload, c14PrivVer...)
	payload = append(payload, k.depth)
	payload = append(payload, k.parentFP...)
	payload = append(payload, c14Ser32(k.childNum)...)
	payload = append(payload, cc...)
	payload = append(payload, 0x00)
	payload = append(payload, c14Ser256(key)...)
	rt.Assert(len(payload) == 78, "payload-length")
	payload = append(payload, wire.DoubleHashB(payload)[:4]...)
	rt.Assert(s == base58.Encode(payload), "serialisation-layout")
	k2, err := NewKeyFromString(s)
	rt.Assert(err == nil, "parse-own-serialisation")
	if err == nil {
		rt.Assert(k2.isPrivate, "parsed-private")
		rt.Assert(bytes.Equal(k2.key, c14Ser256(key)), "parsed-key-is-ser256")
		rt.Assert(bytes.Equal(k2.chainCode, cc), "parsed-chain-code")
		rt.Assert(k2.depth == k.depth && k2.childNum == k.childNum, "parsed-meta")
		rt.Assert(bytes.Equal(k2.parentFP, k.parentFP) && bytes.Equal(k2.version, k.version), "parsed-fp-version")
	}
	rt.Reach("end")
}

// VerifC14ParseArbitrary: NewKeyFromString on base58 text of arbitrary 80..84 decoded bytes: accepted iff
// 82 bytes, checksum = first 4 bytes of the double hash of the payload, and key material valid.
func VerifC14ParseArbitrary() {
	n := rt.NondetLen(80, 84)
	raw := rt.NondetBytes(n)
	k, err := NewKeyFromString(base58.Encode(raw))
	if n != 82 {
		rt.Assert(err == ErrInvalidKeyLen && k == nil, "wrong-length-refused")
		rt.Reach("end")
		return
	}
	sumOK := bytes.Equal(wire.DoubleHashB(raw[:78])[:4], raw[78:])
	if !sumOK {
		rt.Assert(err == ErrBadChecksum && k == nil, "bad-checksum-refused")
		rt.Reach("end")
		return
	}
	if raw[45] == 0 {
		rt.Assert((err == nil) == c14ValidScalar(raw[46:78]), "private-scalar-range")
	} else {
		_, perr := btcec.ParsePubKey(raw[45:78], btcec.S256())
		rt.Assert((err == nil) == (perr == nil), "public-point-validity")
	}
	if err == nil {
		rt.Assert(bytes.Equal(k.version, raw[:4]) && k.depth == raw[4] && bytes.Equal(k.parentFP, raw[5:9]), "fields-1")
		rt.Assert(k.childNum == binary.BigEndian.Uint32(raw[9:13]) && bytes.Equal(k.chainCode, raw[13:45]), "fields-2")
	}
	rt.Reach("end")
}

// ---- cut wrapper for Child (used by keystore harnesses that treat derivation as opaque) ----

// VerifChildStub, when set and the cut "hdChild" is active, replaces Child.
var VerifChildStub func(k *ExtendedKey, i uint32) (*ExtendedKey, error)

func (k *ExtendedKey) Child(i uint32) (*ExtendedKey, error) {
	if rt.CutActive("hdChild") && VerifChildStub != nil {
		return VerifChildStub(k, i)
	}
	return k.Child__real(i)
}

// VerifOpaqueKey: an extended key carrying only a tag (for stubs).
func VerifOpaqueKey(tag []byte, private bool) *ExtendedKey {
	return &ExtendedKey{key: tag, chainCode: []byte{}, parentFP: []byte{0, 0, 0, 0}, version: []byte{0, 0, 0, 0}, isPrivate: private}
}

func (k *ExtendedKey) VerifTag() []byte { return k.key }

// VerifOpaqueKey32: as VerifOpaqueKey, with a 32-byte chain code, so that the real String / NewKeyFromString
// round-trip applies to it.
func VerifOpaqueKey32(tag []byte, private bool) *ExtendedKey {
	return &ExtendedKey{key: tag, chainCode: make([]byte, 32), parentFP: []byte{0, 0, 0, 0}, version: []byte{0, 0, 0, 0}, isPrivate: private}
}

// VerifIsOpaque: the key is a stub made by VerifOpaqueKey* (or parsed back from the text of one): version zero.
func (k *ExtendedKey) VerifIsOpaque() bool {
	return len(k.version) == 4 && k.version[0] == 0 && k.version[1] == 0 && k.version[2] == 0 && k.version[3] == 0
}

// VerifNeuterStub, when set and the cut "hdNeuter" is active, replaces Neuter (used with VerifChildStub: the real
// Neuter would replace a path tag by a curve value).
var VerifNeuterStub func(k *ExtendedKey) (*ExtendedKey, error)

func (k *ExtendedKey) Neuter() (*ExtendedKey, error) {
	if rt.CutActive("hdNeuter") && VerifNeuterStub != nil {
		return VerifNeuterStub(k)
	}
	return k.Neuter__real()
}


// cut "hdString": the text of a path-tag key made by VerifOpaqueKey is 'xkey' + a private/public letter + the raw tag
// bytes - an injective function of the key, of fixed length (the real base58 serialisation cannot be executed on
// symbolic bytes, and its abstract form has no length). Everything else goes to the real String.
func (k *ExtendedKey) String() string {
	if rt.CutActive("hdString") && k.VerifIsOpaque() && len(k.key) > 0 {
		if k.isPrivate {
			return "xkeyS" + string(k.key)
		}
		return "xkeyP" + string(k.key)
	}
	return k.String__real()
}

// VerifC04ECPrivKey: the signing key handed out for a private extended key is the key's scalar - also when the scalar
// is stored in fewer than 32 bytes (Child strips leading zero bytes) - and its public key is the point the key
// serialises as its public key (what addresses are built from).
func VerifC04ECPrivKey() {
	k, key, _ := c14PrivParent(rt.NondetLen(29, 32))
	priv, err := k.ECPrivKey()
	rt.Assert(err == nil && priv != nil, "private-key-available")
	if err != nil || priv == nil {
		return
	}
	rt.Assert(priv.D.Cmp(new(big.Int).SetBytes(key)) == 0, "signing-scalar-is-the-stored-scalar")
	rt.Assert(bytes.Equal(priv.PubKey().SerializeCompressed(), c14SerP(key)), "public-key-of-the-signing-key-is-the-keys-public-key")
	rt.Reach("end")
}
