//go:build verif

package keystore

import (
	"bytes"
	"encoding/binary"
	"math/big"

	"github.com/btcsuite/btcd/btcec"
	"github.com/massnetorg/mass-core/massutil"

	"massnet.org/mass-wallet/config"
	mwdb "massnet.org/mass-wallet/masswallet/db"
	"massnet.org/mass-wallet/masswallet/keystore/hdkeychain"
	mdb "massnet.org/mass-wallet/zzverifmdb"
	rt "massnet.org/mass-wallet/zzverifrt"
)

// ---- key derivation as an injective tagging of the path, in a form that survives the real serialisation
// (String / NewKeyFromString): the private key at path p is the 32-byte tag p (the last eight indexes of the
// path), its public key is 0x02 || p. A key that is not a tag (the master key made from the seed) is the empty
// path. ----

func c04Path(k *hdkeychain.ExtendedKey) []byte {
	p := make([]byte, 32)
	if !k.VerifIsOpaque() {
		return p
	}
	t := k.VerifTag()
	copy(p, t[len(t)-32:])
	p[0] = 0 // the nonce of a public tag (paths here are at most five indexes deep: the first twelve bytes are free)
	return p
}

// c04Nonce: native replays run the real curve code on these tags, so a public tag must be the x coordinate of a
// curve point: its first byte is the smallest value that makes it one. Under the symbolic executor (where point
// decompression is an uninterpreted function) the nonce is 0 (c04NonceModel).
func c04Nonce(p []byte) byte {
	for n := 0; n < 256; n++ {
		t := append([]byte{2, byte(n)}, p[1:]...)
		if _, err := btcec.ParsePubKey(t, btcec.S256()); err == nil {
			return byte(n)
		}
	}
	return 0
}

func c04NonceModel(p []byte) byte { return 0 }

func c04Key(p []byte, private bool) *hdkeychain.ExtendedKey {
	if private {
		return hdkeychain.VerifOpaqueKey32(p, true)
	}
	return hdkeychain.VerifOpaqueKey32(append([]byte{2, c04Nonce(p)}, p[1:]...), false)
}

func c04ChildStub(k *hdkeychain.ExtendedKey, i uint32) (*hdkeychain.ExtendedKey, error) {
	p := c04Path(k)
	t := make([]byte, 32)
	copy(t, p[4:])
	binary.BigEndian.PutUint32(t[28:], i)
	return c04Key(t, k.IsPrivate()), nil
}

func c04NeuterStub(k *hdkeychain.ExtendedKey) (*hdkeychain.ExtendedKey, error) {
	return c04Key(c04Path(k), false), nil
}

// VerifC04CreateReload (property C04, "whether the address was derived this session or reloaded from disk"):
// the real initAcctBucket creates a keystore (as wallet creation and mnemonic import do: index hints 0..2 on
// either branch), storing everything sealed under keys derived from the two passphrases; the real
// loadAddrManager then reloads it with the public passphrase, as a restart does. Every stored address comes
// back, under the derivation path of the public key it commits to, and the key the real getPrivKeyBtcec derives
// for it after the private passphrase was checked is the private key at that same path.
func VerifC04CreateReload() {
	pubPass := rt.NondetBytes(rt.NondetLen(1, 2))
	privPass := rt.NondetBytes(rt.NondetLen(1, 2))
	G := uint32(rt.NondetLen(1, 2))
	hintE := uint32(rt.NondetLen(0, 2))
	hintI := uint32(rt.NondetLen(0, 2))
	entropy := rt.NondetBytes(16)
	seed := make([]byte, 32)
	for i := range seed {
		seed[i] = byte(7*i + 1)
	}
	db := mdb.New()
	db.Top("km")
	hdkeychain.VerifChildStub = c04ChildStub
	hdkeychain.VerifNeuterStub = c04NeuterStub
	check := func(sh []byte) (bool, error) { return false, nil }
	params := &WalletParams{Version: KeystoreVersionLatest, PrivatePassphrase: append([]byte(nil), privPass...), AddressGapLimit: G}
	var am *AddrManager
	err := mwdb.Update(db, func(tx mwdb.DBTransaction) error {
		kmb := tx.TopLevelBucket("km")
		meta, e := initAcctBucket(tx, kmb.GetBucketMeta(), config.ChainParams, params, &ScryptOptions{N: 16, R: 8, P: 1},
			&hdPath{Account: 0, InternalChildNum: hintI, ExternalChildNum: hintE}, append([]byte(nil), pubPass...), entropy, seed, check)
		if e != nil {
			return e
		}
		b := tx.FetchBucket(meta)
		rt.Assert(b != nil, "account-bucket-exists")
		am, e = loadAddrManager(b, pubPass, config.ChainParams)
		return e
	})
	if err != nil {
		rt.Reach("unusable") // the curve rejects a derived key (uninterpreted)
		rt.Reach("end")
		return
	}
	// SHA-256 does not collide on the witness scripts of the stored keys (distinct keys, distinct addresses)
	var hashes [][]byte
	var refs []*ManagedAddress
	for b := uint32(0); b <= 1; b++ {
		for i := uint32(0); i < 2; i++ {
			if b == ExternalBranch && i >= hintE || b == InternalBranch && i >= hintI {
				continue
			}
			k := c04Key(make([]byte, 32), false)
			scope := Net2KeyScope[config.ChainParams.HDCoinType]
			for _, c := range []uint32{scope.Purpose + hdkeychain.HardenedKeyStart, scope.Coin + hdkeychain.HardenedKeyStart, hdkeychain.HardenedKeyStart, b, i} {
				k, _ = c04ChildStub(k, c)
			}
			pk, perr := btcec.ParsePubKey(k.VerifTag(), btcec.S256())
			rt.Assert(perr == nil, "stored-key-parsed-before")
			if perr != nil {
				continue
			}
			ref, rerr := newManagedAddressWithoutPrivKey(am.keystoreName, DerivationPath{Branch: b, Index: i}, pk, nRequiredDefault, massutil.AddressClassWitnessStaking, config.ChainParams)
			rt.Assert(rerr == nil, "reference-address")
			for _, h := range hashes {
				rt.Assume(!bytes.Equal(h, ref.scriptHash))
			}
			hashes = append(hashes, ref.scriptHash)
			refs = append(refs, ref)
		}
	}
	for _, ref := range refs {
		got := am.addrs[ref.address]
		rt.Assert(got != nil && got.derivationPath.Branch == ref.derivationPath.Branch && got.derivationPath.Index == ref.derivationPath.Index,
			"address-of-the-key-at-a-path-reloads-under-that-path")
	}
	rt.Assert(am.branchInfo.nextExternalIndex == hintE && am.branchInfo.nextInternalIndex == hintI, "reloaded-counters")
	rt.Assert(uint32(len(am.addrs)) == hintE+hintI, "every-stored-address-reloaded")
	for _, ma := range am.addrs {
		pk := ma.pubKey.SerializeCompressed()
		rt.Assert(ma.derivationPath.Branch == binary.BigEndian.Uint32(pk[25:29]) && ma.derivationPath.Index == binary.BigEndian.Uint32(pk[29:33]),
			"reloaded-path-is-the-path-of-the-committed-key")
		rt.Assert(ma.derivationPath.Branch <= 1 && (ma.derivationPath.Branch == ExternalBranch && ma.derivationPath.Index < hintE ||
			ma.derivationPath.Branch == InternalBranch && ma.derivationPath.Index < hintI), "reloaded-path-was-issued")
	}
	rt.Assert(am.checkPassword(privPass) == nil, "private-passphrase-accepted-after-reload")
	for _, ma := range am.addrs {
		priv, perr := am.getPrivKeyBtcec(ma.address, privPass)
		rt.Assert(perr == nil && priv != nil, "signing-key-derived-after-reload")
		if perr == nil && priv != nil {
			pk := ma.pubKey.SerializeCompressed()
			rt.Assert(priv.D.Cmp(new(big.Int).SetBytes(pk[2:])) == 0, "signing-key-is-the-key-the-reloaded-address-commits-to")
		}
		rt.Reach("derived")
	}
	rt.Reach("end")
}

// c04SeedModel (symbolic runs only): the PBKDF2 seed feeds nothing but key derivation, which these harnesses cut.
func c04SeedModel(mnemonic string, password string) []byte {
	seed := make([]byte, 64)
	for i := range seed {
		seed[i] = byte(5*i + 3)
	}
	return seed
}

// VerifC04ExportImport (property C04, the wallet's secret across export and import): a keystore is created by the
// real initAcctBucket with arbitrary entropy, reloaded, exported with the private passphrase (real
// exportKeystore), imported into a fresh database by the real allocAddrMgrNamespace (the body of ImportKeystore)
// and reloaded there. The mnemonic the imported wallet reveals is the mnemonic of the original entropy - the
// secret every address and signing key of the wallet is derived from.
func VerifC04ExportImport() {
	pubPass := rt.NondetBytes(rt.NondetLen(1, 2))
	privPass := rt.NondetBytes(rt.NondetLen(1, 2))
	entropy := rt.NondetBytes(16)
	want, werr := NewMnemonic(append([]byte(nil), entropy...))
	rt.Assert(werr == nil, "reference-mnemonic")
	seed := make([]byte, 32)
	for i := range seed {
		seed[i] = byte(7*i + 1)
	}
	hdkeychain.VerifChildStub = c04ChildStub
	hdkeychain.VerifNeuterStub = c04NeuterStub
	check := func(sh []byte) (bool, error) { return false, nil }
	sc := &ScryptOptions{N: 16, R: 8, P: 1}
	db1 := mdb.New()
	db1.Top("km")
	params := &WalletParams{Version: KeystoreVersionLatest, PrivatePassphrase: append([]byte(nil), privPass...), AddressGapLimit: 1}
	var ks *Keystore
	err := mwdb.Update(db1, func(tx mwdb.DBTransaction) error {
		kmb := tx.TopLevelBucket("km")
		meta, e := initAcctBucket(tx, kmb.GetBucketMeta(), config.ChainParams, params, sc,
			&hdPath{}, append([]byte(nil), pubPass...), append([]byte(nil), entropy...), seed, check)
		if e != nil {
			return e
		}
		am, e := loadAddrManager(tx.FetchBucket(meta), pubPass, config.ChainParams)
		if e != nil {
			return e
		}
		ks, e = am.exportKeystore(tx, privPass)
		rt.Assert(e == nil, "export-with-the-right-passphrase")
		return e
	})
	if err != nil {
		rt.Reach("unusable")
		rt.Reach("end")
		return
	}
	db2 := mdb.New()
	db2.Top("km")
	var got string
	err = mwdb.Update(db2, func(tx mwdb.DBTransaction) error {
		kmb := tx.TopLevelBucket("km")
		km := &KeystoreManager{managedKeystores: map[string]*AddrManager{}, ksMgrMeta: kmb.GetBucketMeta(), pubPassphrase: pubPass}
		meta, e := km.allocAddrMgrNamespace(tx, privPass, pubPass, ks, check, config.ChainParams, sc, 1)
		rt.Assert(e == nil, "import-of-an-exported-keystore-with-its-passphrase")
		if e != nil {
			return e
		}
		am, e := loadAddrManager(tx.FetchBucket(meta), pubPass, config.ChainParams)
		rt.Assert(e == nil, "imported-keystore-reloads")
		if e != nil {
			return e
		}
		got, _, e = am.getMnemonic(tx, privPass)
		rt.Assert(e == nil, "imported-wallet-reveals-its-mnemonic")
		return e
	})
	if err == nil {
		rt.Assert(got == want, "imported-wallet-has-the-exported-wallets-mnemonic")
		rt.Reach("imported")
	}
	rt.Reach("end")
}
