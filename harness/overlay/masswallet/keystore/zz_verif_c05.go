//go:build verif

package keystore

import (
	"bytes"
	"crypto/sha256"
	"crypto/sha512"

	"golang.org/x/crypto/scrypt"
	"massnet.org/mass-wallet/config"
	mwdb "massnet.org/mass-wallet/masswallet/db"
	"massnet.org/mass-wallet/masswallet/keystore/snacl"
	mdb "massnet.org/mass-wallet/zzverifmdb"
	rt "massnet.org/mass-wallet/zzverifrt"
)

// c05Manager: an address manager whose private master key was created for the passphrase `right` by the real
// snacl.NewSecretKey (scrypt is an uninterpreted function of passphrase, salt and cost), then zeroed as after
// wallet creation.
func c05Manager(right []byte) *AddrManager {
	pw := append([]byte(nil), right...)
	sk, err := snacl.NewSecretKey(&pw, 16, 8, 1)
	rt.Assert(err == nil, "secret-key-created")
	sk.Zero()
	return &AddrManager{keystoreName: "w", index: map[uint32]string{}, addrs: map[string]*ManagedAddress{},
		acctInfo: &accountInfo{}, branchInfo: &branchInfo{}, masterKeyPriv: sk, cryptoKeyPriv: &cryptoKey{}}
}

// c05Distinct: the contract under which a key-derivation / hash check distinguishes two passphrases: the
// primitives do not collide on the two inputs compared (stated through the same API the code calls).
func c05Distinct(a *AddrManager, right, wrong []byte) {
	if c05SameHMACKey(right, wrong) {
		return // the same key to scrypt's HMAC: not two inputs (see VerifC05GateLockedZeroPadded)
	}
	k1, _ := scrypt.Key(right, a.masterKeyPriv.Parameters.Salt[:], a.masterKeyPriv.Parameters.N, a.masterKeyPriv.Parameters.R, a.masterKeyPriv.Parameters.P, len(a.masterKeyPriv.Key))
	k2, _ := scrypt.Key(wrong, a.masterKeyPriv.Parameters.Salt[:], a.masterKeyPriv.Parameters.N, a.masterKeyPriv.Parameters.R, a.masterKeyPriv.Parameters.P, len(a.masterKeyPriv.Key))
	d1, d2 := sha256.Sum256(k1), sha256.Sum256(k2)
	rt.Assume(!bytes.Equal(d1[:], d2[:]))
}

// c05SameHMACKey: equal after dropping trailing zero bytes. scrypt keys HMAC-SHA256 with the passphrase, and HMAC
// pads keys of up to 64 bytes with zero bytes, so two such passphrases are one and the same key.
func c05SameHMACKey(a, b []byte) bool {
	for len(a) > 0 && a[len(a)-1] == 0 {
		a = a[:len(a)-1]
	}
	for len(b) > 0 && b[len(b)-1] == 0 {
		b = b[:len(b)-1]
	}
	return bytes.Equal(a, b)
}

// VerifC05GateLockedZeroPadded: the candidates left out of VerifC05GateLocked - a candidate that differs from
// the right passphrase only in trailing zero bytes is another byte string and must be refused like any other.
func VerifC05GateLockedZeroPadded() {
	n := rt.NondetLen(1, 3)
	base := rt.NondetBytes(n)
	rt.Assume(base[n-1] != 0)
	zr, zw := rt.NondetLen(0, 2), rt.NondetLen(0, 2)
	rt.Assume(zr != zw)
	right := append(append([]byte(nil), base...), make([]byte, zr)...)
	wrong := append(append([]byte(nil), base...), make([]byte, zw)...)
	a := c05Manager(right)
	err := a.checkPassword(wrong)
	rt.Reach("end") // the witness comes first: on the current tree every path fails the assertion below
	rt.Assert(err == ErrInvalidPassphrase, "zero-padded-passphrase-refused")
}

// VerifC05GateAfterUnlockLong: the unlocked gate with a passphrase of the maximal length (40 bytes) and a longer
// candidate: still refused.
func VerifC05GateAfterUnlockLong() {
	right := rt.NondetBytes(40)
	wrong := rt.NondetBytes(rt.NondetLen(41, 42))
	a := c05Manager([]byte{1})
	copy(a.privPassphraseSalt[:], rt.NondetBytes(len(a.privPassphraseSalt)))
	a.hashedPrivPassphrase = sha512.Sum512(append(append([]byte(nil), a.privPassphraseSalt[:]...), right...))
	a.unlocked = true
	hw := sha512.Sum512(append(append([]byte(nil), a.privPassphraseSalt[:]...), wrong...))
	rt.Assume(hw != a.hashedPrivPassphrase) // SHA-512 does not collide on the two salted inputs
	rt.Assert(a.checkPassword(wrong) == ErrInvalidPassphrase, "longer-candidate-refused-after-unlock")
	rt.Assert(a.checkPassword(right) == nil, "right-passphrase-accepted-after-unlock")
	rt.Reach("end")
}

// VerifC05GateLocked: with the key cache locked, every passphrase other than the right one is refused with
// ErrInvalidPassphrase and nothing is unlocked or altered; the right one is accepted.
func VerifC05GateLocked() {
	n := rt.NondetLen(1, 3)
	right, wrong := rt.NondetBytes(n), rt.NondetBytes(rt.NondetLen(0, 3))
	rt.Secret(right) // no error or log text of the gate depends on the stored passphrase (secret.go)
	rt.Assume(!bytes.Equal(right, wrong))
	rt.Assume(!c05SameHMACKey(right, wrong)) // those candidates: VerifC05GateLockedZeroPadded
	a := c05Manager(right)
	c05Distinct(a, right, wrong)
	hashedBefore := a.hashedPrivPassphrase
	useSafe := rt.NondetBool()
	var err error
	if useSafe {
		err = a.safelyCheckPassword(wrong)
	} else {
		err = a.checkPassword(wrong)
	}
	rt.Assert(err == ErrInvalidPassphrase, "wrong-passphrase-refused")
	rt.Assert(!a.unlocked && a.hashedPrivPassphrase == hashedBefore, "refusal-unlocks-nothing")
	_, serr := a.signBtcec(make([]byte, 32), "no-such-address", wrong)
	rt.Assert(serr == ErrInvalidPassphrase, "sign-with-wrong-passphrase-refused")
	rt.Assert(!a.unlocked && a.hashedPrivPassphrase == hashedBefore, "refused-sign-unlocks-nothing")
	if useSafe {
		err = a.safelyCheckPassword(right)
	} else {
		err = a.checkPassword(right)
	}
	rt.Assert(err == nil, "right-passphrase-accepted")
	rt.Reach("end")
}

// VerifC05GateAfterUnlock: after a successful unlock (cached salted hash of the right passphrase) a wrong
// passphrase is still refused, the right one still accepted.
func VerifC05GateAfterUnlock() {
	n := rt.NondetLen(1, 3)
	right, wrong := rt.NondetBytes(n), rt.NondetBytes(rt.NondetLen(0, 3))
	rt.Secret(right) // no error or log text of the gate depends on the stored passphrase (secret.go)
	rt.Assume(!bytes.Equal(right, wrong))
	a := c05Manager(right)
	copy(a.privPassphraseSalt[:], rt.NondetBytes(len(a.privPassphraseSalt)))
	a.hashedPrivPassphrase = sha512.Sum512(append(append([]byte(nil), a.privPassphraseSalt[:]...), right...))
	a.unlocked = true
	// SHA-512 does not collide on the two salted inputs compared
	hw := sha512.Sum512(append(append([]byte(nil), a.privPassphraseSalt[:]...), wrong...))
	rt.Assume(hw != a.hashedPrivPassphrase)
	hashedBefore := a.hashedPrivPassphrase
	rt.Assert(a.checkPassword(wrong) == ErrInvalidPassphrase, "wrong-passphrase-refused-after-unlock")
	_, serr := a.signBtcec(make([]byte, 32), "no-such-address", wrong)
	rt.Assert(serr == ErrInvalidPassphrase, "sign-with-wrong-passphrase-refused-after-unlock")
	rt.Assert(a.unlocked && a.hashedPrivPassphrase == hashedBefore, "cache-unchanged-by-refusal")
	rt.Assert(a.checkPassword(right) == nil, "right-passphrase-accepted-after-unlock")
	rt.Reach("end")
}

// ---- model of the secretbox layer (symbolic runs only; native replays run NaCl secretbox): an ideal cipher -
// opening succeeds exactly with the key that sealed, and returns what was sealed. The key is kept inside the
// model ciphertext, so this model is for functional questions only, never for secrecy ones. ----

func vCKEncryptModel(ck *snacl.CryptoKey, in []byte) ([]byte, error) {
	out := append([]byte{0xEC}, ck[:]...)
	return append(out, in...), nil
}

func vCKDecryptModel(ck *snacl.CryptoKey, in []byte) ([]byte, error) {
	if len(in) < 1+snacl.KeySize || in[0] != 0xEC {
		return nil, snacl.ErrMalformed
	}
	if !bytes.Equal(in[1:1+snacl.KeySize], ck[:]) {
		return nil, snacl.ErrDecryptFailed
	}
	return append([]byte(nil), in[1+snacl.KeySize:]...), nil
}

// VerifC05UnlockedOperations: operations that need the private passphrase, one after the other, while the key
// cache is unlocked (as it is after a signature): a passphrase check of the kind export, removal and
// CheckPrivPassphrase perform (safelyCheckPassword), then revealing the mnemonic. Both are given the right
// passphrase and both must work, and the mnemonic revealed is the one of the stored entropy.
func VerifC05UnlockedOperations() {
	right := rt.NondetBytes(rt.NondetLen(1, 3))
	pw := append([]byte(nil), right...)
	sk, err := snacl.NewSecretKey(&pw, 16, 8, 1)
	rt.Assert(err == nil, "secret-key-created")
	db := mdb.New()
	store := db.Top("km").Sub("ac10aaaaaaaaaaaaaaaaaaaaaaaaaaaaaaaaaaaaaa")
	a := &AddrManager{keystoreName: "ac10aaaaaaaaaaaaaaaaaaaaaaaaaaaaaaaaaaaaaa", index: map[uint32]string{}, addrs: map[string]*ManagedAddress{},
		acctInfo: &accountInfo{}, branchInfo: &branchInfo{}, masterKeyPriv: sk, cryptoKeyPriv: &cryptoKey{}, storage: store.GetBucketMeta()}
	// stored secrets: the entropy under a random crypto key, that key under the master key
	entropy := rt.NondetBytes(16)
	rt.Secret(right, entropy) // no error or log text of the operations below depends on the passphrase or the entropy
	var ek cryptoKey
	ek.CopyBytes(rt.NondetBytes(32))
	entropyEnc, err := ek.Encrypt(entropy)
	rt.Assert(err == nil, "entropy-sealed")
	a.cryptoKeyEntropyEncrypted, err = sk.Encrypt(ek.Bytes())
	rt.Assert(err == nil, "entropy-key-sealed")
	store.Set(entropyEncKeyName, entropyEnc)
	store.Set(keystoreVersionName, []byte{byte(KeystoreVersionLatest)})
	// unlocked, as signBtcec leaves it
	copy(a.privPassphraseSalt[:], rt.NondetBytes(len(a.privPassphraseSalt)))
	a.hashedPrivPassphrase = sha512.Sum512(append(append([]byte(nil), a.privPassphraseSalt[:]...), right...))
	a.unlocked = true
	want, werr := NewMnemonic(append([]byte(nil), entropy...))
	rt.Assert(werr == nil, "reference-mnemonic")

	first := rt.NondetBool()
	if first {
		rt.Assert(a.safelyCheckPassword(right) == nil, "passphrase-check-accepts-the-right-passphrase")
	}
	// optionally a refused attempt in between (a wrong passphrase given to export / removal / the API's check):
	// it is refused and alters nothing the later operations need
	if rt.NondetBool() {
		wrong := rt.NondetBytes(rt.NondetLen(0, 3))
		hw := sha512.Sum512(append(append([]byte(nil), a.privPassphraseSalt[:]...), wrong...))
		rt.Assume(!bytes.Equal(wrong, right) && hw != a.hashedPrivPassphrase) // SHA-512 does not collide on the two salted inputs
		rt.Assert(a.safelyCheckPassword(wrong) == ErrInvalidPassphrase, "wrong-passphrase-refused-while-unlocked")
		rt.Reach("refused-in-between")
	}
	var got string
	verr := mwdb.View(db, func(rtx mwdb.ReadTransaction) (e error) {
		got, _, e = a.getMnemonic(rtx, right)
		return
	})
	rt.Assert(verr == nil, "mnemonic-revealed-for-the-right-passphrase")
	if verr == nil {
		rt.Assert(got == want, "revealed-mnemonic-is-the-stored-entropys")
	}
	rt.Assert(a.safelyCheckPassword(right) == nil && a.checkPassword(right) == nil, "right-passphrase-still-accepted-afterwards")
	rt.Reach("end")
}

// VerifC05ChangePubPassphrase: after a successful change of the public passphrase the manager's cached passphrase - with
// which every keystore created or imported from then on is sealed, and with which the manager must open again after a
// restart - is exactly the new passphrase, whatever the lengths of the old and the new one. (The re-sealing of the
// managed keystores is not covered here: the manager has none.)
func VerifC05ChangePubPassphrase() {
	oldP := rt.NondetBytes(rt.NondetLen(6, 9))
	newP := rt.NondetBytes(rt.NondetLen(6, 9))
	rt.Assume(ValidatePassphrase(oldP) && ValidatePassphrase(newP))
	km := &KeystoreManager{managedKeystores: map[string]*AddrManager{}, params: config.ChainParams, pubPassphrase: append([]byte(nil), oldP...)}
	db := mdb.New()
	db.Top("km")
	err := mwdb.Update(db, func(tx mwdb.DBTransaction) error { return km.ChangePubPassphrase(tx, oldP, newP, nil) })
	if bytes.Equal(oldP, newP) {
		rt.Assert(err == ErrSamePubpass, "same-passphrase-refused")
		rt.Assert(bytes.Equal(km.pubPassphrase, oldP), "refusal-changes-nothing")
		rt.Reach("end")
		return
	}
	rt.Assert(err == nil, "change-succeeds")
	rt.Assert(bytes.Equal(km.pubPassphrase, newP), "cached-public-passphrase-is-the-new-one")
	rt.Reach("changed")
	rt.Reach("end")
}
