//go:build verif

package keystore

import (
	"bytes"
	"crypto/sha256"
	"crypto/sha512"

	"golang.org/x/crypto/scrypt"
	"massnet.org/mass-wallet/masswallet/keystore/snacl"
	rt "massnet.org/mass-wallet/zzverifrt"
)

// c05Manager: an address manager whose private master key was created for the passphrase `right` by the real
// snacl.NewSecretKey (scrypt is an uninterpreted function of passphrase, salt and cost), then zeroed as after
// wallet creation.
func c05Manager(right []byte) *AddrManager {
	pw := append([]byte(nil), right...)
	sk, err := snacl.NewSecretKey(&pw, 16, 8, 1)
	rt.Assert(err == nil, "secret-key-created")
	sk.Zero()
	return &AddrManager{keystoreName: "w", index: map[uint32]string{}, addrs: map[string]*ManagedAddress{},
		acctInfo: &accountInfo{}, branchInfo: &branchInfo{}, masterKeyPriv: sk, cryptoKeyPriv: &cryptoKey{}}
}

// c05Distinct: the contract under which a key-derivation / hash check distinguishes two passphrases: the
// primitives do not collide on the two inputs compared (stated through the same API the code calls).
func c05Distinct(a *AddrManager, right, wrong []byte) {
	k1, _ := scrypt.Key(right, a.masterKeyPriv.Parameters.Salt[:], a.masterKeyPriv.Parameters.N, a.masterKeyPriv.Parameters.R, a.masterKeyPriv.Parameters.P, len(a.masterKeyPriv.Key))
	k2, _ := scrypt.Key(wrong, a.masterKeyPriv.Parameters.Salt[:], a.masterKeyPriv.Parameters.N, a.masterKeyPriv.Parameters.R, a.masterKeyPriv.Parameters.P, len(a.masterKeyPriv.Key))
	d1, d2 := sha256.Sum256(k1), sha256.Sum256(k2)
	rt.Assume(!bytes.Equal(d1[:], d2[:]))
}

// VerifC05GateLocked: with the key cache locked, every passphrase other than the right one is refused with
// ErrInvalidPassphrase and nothing is unlocked or altered; the right one is accepted.
func VerifC05GateLocked() {
	n := rt.NondetLen(1, 3)
	right, wrong := rt.NondetBytes(n), rt.NondetBytes(rt.NondetLen(0, 3))
	rt.Assume(!bytes.Equal(right, wrong))
	a := c05Manager(right)
	c05Distinct(a, right, wrong)
	hashedBefore := a.hashedPrivPassphrase
	useSafe := rt.NondetBool()
	var err error
	if useSafe {
		err = a.safelyCheckPassword(wrong)
	} else {
		err = a.checkPassword(wrong)
	}
	rt.Assert(err == ErrInvalidPassphrase, "wrong-passphrase-refused")
	rt.Assert(!a.unlocked && a.hashedPrivPassphrase == hashedBefore, "refusal-unlocks-nothing")
	_, serr := a.signBtcec(make([]byte, 32), "no-such-address", wrong)
	rt.Assert(serr == ErrInvalidPassphrase, "sign-with-wrong-passphrase-refused")
	rt.Assert(!a.unlocked && a.hashedPrivPassphrase == hashedBefore, "refused-sign-unlocks-nothing")
	if useSafe {
		err = a.safelyCheckPassword(right)
	} else {
		err = a.checkPassword(right)
	}
	rt.Assert(err == nil, "right-passphrase-accepted")
	rt.Reach("end")
}

// VerifC05GateAfterUnlock: after a successful unlock (cached salted hash of the right passphrase) a wrong
// passphrase is still refused, the right one still accepted.
func VerifC05GateAfterUnlock() {
	n := rt.NondetLen(1, 3)
	right, wrong := rt.NondetBytes(n), rt.NondetBytes(rt.NondetLen(0, 3))
	rt.Assume(!bytes.Equal(right, wrong))
	a := c05Manager(right)
	copy(a.privPassphraseSalt[:], rt.NondetBytes(len(a.privPassphraseSalt)))
	a.hashedPrivPassphrase = sha512.Sum512(append(append([]byte(nil), a.privPassphraseSalt[:]...), right...))
	a.unlocked = true
	// SHA-512 does not collide on the two salted inputs compared
	hw := sha512.Sum512(append(append([]byte(nil), a.privPassphraseSalt[:]...), wrong...))
	rt.Assume(hw != a.hashedPrivPassphrase)
	hashedBefore := a.hashedPrivPassphrase
	rt.Assert(a.checkPassword(wrong) == ErrInvalidPassphrase, "wrong-passphrase-refused-after-unlock")
	_, serr := a.signBtcec(make([]byte, 32), "no-such-address", wrong)
	rt.Assert(serr == ErrInvalidPassphrase, "sign-with-wrong-passphrase-refused-after-unlock")
	rt.Assert(a.unlocked && a.hashedPrivPassphrase == hashedBefore, "cache-unchanged-by-refusal")
	rt.Assert(a.checkPassword(right) == nil, "right-passphrase-accepted-after-unlock")
	rt.Reach("end")
}
