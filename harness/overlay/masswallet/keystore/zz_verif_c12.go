//go:build verif

package keystore

import (
	"bytes"
	"encoding/binary"
	"math/big"

	"github.com/btcsuite/btcd/btcec"

	"massnet.org/mass-wallet/config"
	mwdb "massnet.org/mass-wallet/masswallet/db"
	"massnet.org/mass-wallet/masswallet/keystore/hdkeychain"
	mdb "massnet.org/mass-wallet/zzverifmdb"
	rt "massnet.org/mass-wallet/zzverifrt"
)

// ---- cut: address construction from a derived key (curve, hashing and bech32 are outside this property) ----

func newManagedAddressFromExtKey(keystoreName string, derivationPath DerivationPath,
	extKey *hdkeychain.ExtendedKey, nRequired int, addressClass uint16, net *config.Params) (*ManagedAddress, error) {
	if !rt.CutActive("newManagedAddress") {
		return newManagedAddressFromExtKey__real(keystoreName, derivationPath, extKey, nRequired, addressClass, net)
	}
	// contract: the address is a function of the derived key; here the key's tag (branch, index) is kept
	tag := extKey.VerifTag()
	return &ManagedAddress{
		address:        "addr-" + string(tag),
		scriptHash:     append([]byte{0xee}, tag...),
		derivationPath: derivationPath,
		keystoreName:   keystoreName,
		pubKey:         &btcec.PublicKey{Curve: btcec.S256(), X: new(big.Int).SetBytes(tag), Y: big.NewInt(2)},
	}, nil
}

type c12Enc struct{}

func (c12Enc) Encrypt(in []byte) ([]byte, error) { return append([]byte{0xcc}, in...), nil }
func (c12Enc) Decrypt(in []byte) ([]byte, error) { return in[1:], nil }
func (c12Enc) Bytes() []byte                     { return nil }
func (c12Enc) CopyBytes([]byte)                  {}
func (c12Enc) Zero()                             {}

func c12Tag(branch, index uint32) []byte {
	t := make([]byte, 8)
	binary.BigEndian.PutUint32(t, branch)
	binary.BigEndian.PutUint32(t[4:], index)
	return t
}

// VerifC12IssueNext: one address requested on the external branch. From the state "n addresses issued
// (indexes 0..n-1), some of them used", the request succeeds iff n < G or one of the last G issued indexes
// is used; then the returned address has index n, the stored counter becomes n+1, the in-memory maps gain
// exactly that entry; a refusal changes nothing.
func VerifC12IssueNext() {
	const wid = "ac10aaaaaaaaaaaaaaaaaaaaaaaaaaaaaaaaaaaaaa"
	db := mdb.New()
	store := db.Top("km").Sub(wid)
	n := uint32(rt.NondetLen(0, 5))
	G := uint32(rt.NondetLen(2, 4))
	cnt := make([]byte, 4)
	binary.LittleEndian.PutUint32(cnt, n)
	store.Set(externalChildNumName, cnt)
	store.Set(internalChildNumName, []byte{0, 0, 0, 0})
	am := &AddrManager{keystoreName: wid, index: map[uint32]string{}, addrs: map[string]*ManagedAddress{},
		acctInfo: &accountInfo{acctKeyPub: hdkeychain.VerifOpaqueKey([]byte("acct"), false)}, branchInfo: &branchInfo{},
		storage: store.GetBucketMeta(), cryptoKeyPub: c12Enc{}}
	var used [5]bool
	for i := uint32(0); i < n; i++ {
		used[i] = rt.NondetBool()
		a := "addr-" + string(c12Tag(ExternalBranch, i))
		am.index[i] = a
		am.addrs[a] = &ManagedAddress{address: a, scriptHash: append([]byte{0xee}, c12Tag(ExternalBranch, i)...), derivationPath: DerivationPath{Branch: ExternalBranch, Index: i}}
	}
	// derivation is opaque: child of the account key = branch key, child of a branch key = tagged index key
	hdkeychain.VerifChildStub = func(k *hdkeychain.ExtendedKey, i uint32) (*hdkeychain.ExtendedKey, error) {
		if bytes.Equal(k.VerifTag(), []byte("acct")) {
			t := make([]byte, 4)
			binary.BigEndian.PutUint32(t, i)
			return hdkeychain.VerifOpaqueKey(t, false), nil
		}
		return hdkeychain.VerifOpaqueKey(c12Tag(binary.BigEndian.Uint32(k.VerifTag()), i), false), nil
	}
	checkUsed := func(sh []byte) (bool, error) {
		idx := binary.BigEndian.Uint32(sh[5:9])
		return used[idx], nil
	}
	var got []*ManagedAddress
	err := mwdb.Update(db, func(tx mwdb.DBTransaction) error {
		mas, e := am.nextAddresses(tx, checkUsed, false, 1, G, config.ChainParams, 1, 0)
		if e != nil {
			return e
		}
		got = mas
		return am.updateManagedAddress(tx, mas)
	})
	allowed := n < G
	for i := uint32(0); i < n; i++ {
		if i+G >= n && used[i] {
			allowed = true
		}
	}
	rt.Assert((err == nil) == allowed, "issued-iff-gap-rule-allows")
	stored := binary.LittleEndian.Uint32(store.Lookup(externalChildNumName))
	if err == nil {
		rt.Assert(len(got) == 1 && got[0].derivationPath.Index == n && got[0].derivationPath.Branch == ExternalBranch, "next-index-issued")
		rt.Assert(stored == n+1, "counter-advanced-by-one")
		rt.Assert(len(am.index) == int(n)+1 && am.index[n] == got[0].address && am.addrs[got[0].address] == got[0], "maps-gain-exactly-the-new-address")
		key := make([]byte, 8)
		binary.LittleEndian.PutUint32(key[:4], ExternalBranch)
		binary.LittleEndian.PutUint32(key[4:], n)
		rt.Assert(store.Sub(pubKeyBucket).Lookup(key) != nil, "public-key-record-stored-at-index")
		rt.Assert(am.branchInfo.nextExternalIndex == n+1, "in-memory-counter-follows")
	} else {
		rt.Assert(err == ErrGapLimit, "refusal-is-gap-limit-error")
		rt.Assert(stored == n && len(am.index) == int(n), "refusal-changes-nothing")
	}
	rt.Reach("end")
}
