//go:build verif

package keystore

import (
	"bytes"
	"encoding/binary"
	"errors"
	"math/big"

	"github.com/btcsuite/btcd/btcec"

	"massnet.org/mass-wallet/config"
	mwdb "massnet.org/mass-wallet/masswallet/db"
	"massnet.org/mass-wallet/masswallet/keystore/hdkeychain"
	mdb "massnet.org/mass-wallet/zzverifmdb"
	rt "massnet.org/mass-wallet/zzverifrt"
)

// ---- cut: address construction from a derived key (curve, hashing and bech32 are outside this property) ----

func newManagedAddressFromExtKey(keystoreName string, derivationPath DerivationPath,
	extKey *hdkeychain.ExtendedKey, nRequired int, addressClass uint16, net *config.Params) (*ManagedAddress, error) {
	if !rt.CutActive("newManagedAddress") {
		return newManagedAddressFromExtKey__real(keystoreName, derivationPath, extKey, nRequired, addressClass, net)
	}
	// contract: the address is a function of the derived key; here the key's tag (branch, index) is kept
	tag := extKey.VerifTag()
	x := tag
	if len(x) == 33 {
		x = x[1:] // a tag shaped like a compressed public key: the coordinate is what follows the prefix byte
	}
	return &ManagedAddress{
		address:        "addr-" + string(tag),
		scriptHash:     append([]byte{0xee}, tag...),
		derivationPath: derivationPath,
		keystoreName:   keystoreName,
		pubKey:         &btcec.PublicKey{Curve: btcec.S256(), X: new(big.Int).SetBytes(x), Y: big.NewInt(2)},
	}, nil
}

// c12PubEnc: the stub for the crypto key that the public passphrase opens (values it seals are readable without
// the private passphrase); c12Enc is used for the private one.
type c12PubEnc struct{}

func (c12PubEnc) Encrypt(in []byte) ([]byte, error) { return append([]byte{0xaa}, in...), nil }
func (c12PubEnc) Decrypt(in []byte) ([]byte, error) { return in[1:], nil }
func (c12PubEnc) Bytes() []byte                     { return nil }
func (c12PubEnc) CopyBytes([]byte)                  {}
func (c12PubEnc) Zero()                             {}

type c12Enc struct{}

func (c12Enc) Encrypt(in []byte) ([]byte, error) { return append([]byte{0xcc}, in...), nil }
func (c12Enc) Decrypt(in []byte) ([]byte, error) { return in[1:], nil }
func (c12Enc) Bytes() []byte                     { return nil }
func (c12Enc) CopyBytes([]byte)                  {}
func (c12Enc) Zero()                             {}

func c12Tag(branch, index uint32) []byte {
	t := make([]byte, 8)
	binary.BigEndian.PutUint32(t, branch)
	binary.BigEndian.PutUint32(t[4:], index)
	return t
}

// VerifC12IssueNext: one address requested on the external branch. From the state "n addresses issued
// (indexes 0..n-1), some of them used", the request succeeds iff n < G or one of the last G issued indexes
// is used; then the returned address has index n, the stored counter becomes n+1, the in-memory maps gain
// exactly that entry; a refusal changes nothing.
type c12State struct {
	db     *mdb.DB
	store  *mdb.Bucket
	am     *AddrManager
	n, G   uint32
	used   [5]bool
	wid    string
	check  func([]byte) (bool, error)
}

// c12Setup: n addresses issued on the external branch (stored counter, in-memory counter and maps agree),
// arbitrary used-bits, gap limit G.
func c12Setup() *c12State {
	st := &c12State{wid: "ac10aaaaaaaaaaaaaaaaaaaaaaaaaaaaaaaaaaaaaa"}
	st.db = mdb.New()
	st.store = st.db.Top("km").Sub(st.wid)
	st.n = uint32(rt.NondetLen(0, 5))
	st.G = uint32(rt.NondetLen(2, 4))
	cnt := make([]byte, 4)
	binary.LittleEndian.PutUint32(cnt, st.n)
	st.store.Set(externalChildNumName, cnt)
	st.store.Set(internalChildNumName, []byte{0, 0, 0, 0})
	st.am = &AddrManager{keystoreName: st.wid, index: map[uint32]string{}, addrs: map[string]*ManagedAddress{},
		acctInfo: &accountInfo{acctKeyPub: hdkeychain.VerifOpaqueKey([]byte("acct"), false)}, branchInfo: &branchInfo{nextExternalIndex: st.n},
		storage: st.store.GetBucketMeta(), cryptoKeyPub: c12Enc{}}
	for i := uint32(0); i < st.n; i++ {
		st.used[i] = rt.NondetBool()
		a := "addr-" + string(c12Tag(ExternalBranch, i))
		st.am.index[i] = a
		st.am.addrs[a] = &ManagedAddress{address: a, scriptHash: append([]byte{0xee}, c12Tag(ExternalBranch, i)...), derivationPath: DerivationPath{Branch: ExternalBranch, Index: i}}
	}
	// derivation is opaque: child of the account key = branch key, child of a branch key = tagged index key
	hdkeychain.VerifChildStub = func(k *hdkeychain.ExtendedKey, i uint32) (*hdkeychain.ExtendedKey, error) {
		if bytes.Equal(k.VerifTag(), []byte("acct")) {
			t := make([]byte, 4)
			binary.BigEndian.PutUint32(t, i)
			return hdkeychain.VerifOpaqueKey(t, k.IsPrivate()), nil
		}
		return hdkeychain.VerifOpaqueKey(c12Tag(binary.BigEndian.Uint32(k.VerifTag()), i), k.IsPrivate()), nil
	}
	st.check = func(sh []byte) (bool, error) {
		idx := binary.BigEndian.Uint32(sh[5:9])
		return st.used[idx], nil
	}
	return st
}

func (st *c12State) allowed() bool {
	ok := st.n < st.G
	for i := uint32(0); i < st.n; i++ {
		if i+st.G >= st.n && st.used[i] {
			ok = true
		}
	}
	return ok
}

func (st *c12State) issue() ([]*ManagedAddress, error) {
	var got []*ManagedAddress
	err := mwdb.Update(st.db, func(tx mwdb.DBTransaction) error {
		mas, e := st.am.nextAddresses(tx, st.check, false, 1, st.G, config.ChainParams, 1, 0)
		if e != nil {
			return e
		}
		got = mas
		return st.am.updateManagedAddress(tx, mas)
	})
	return got, err
}

func (st *c12State) storedCounter() uint32 {
	return binary.LittleEndian.Uint32(st.store.Lookup(externalChildNumName))
}

func VerifC12IssueNext() {
	st := c12Setup()
	n, am, store := st.n, st.am, st.store
	got, err := st.issue()
	rt.Assert((err == nil) == st.allowed(), "issued-iff-gap-rule-allows")
	stored := st.storedCounter()
	if err == nil {
		rt.Assert(len(got) == 1 && got[0].derivationPath.Index == n && got[0].derivationPath.Branch == ExternalBranch, "next-index-issued")
		rt.Assert(stored == n+1, "counter-advanced-by-one")
		rt.Assert(len(am.index) == int(n)+1 && am.index[n] == got[0].address && am.addrs[got[0].address] == got[0], "maps-gain-exactly-the-new-address")
		key := make([]byte, 8)
		binary.LittleEndian.PutUint32(key[:4], ExternalBranch)
		binary.LittleEndian.PutUint32(key[4:], n)
		rt.Assert(store.Sub(pubKeyBucket).Lookup(key) != nil, "public-key-record-stored-at-index")
		rt.Assert(am.branchInfo.nextExternalIndex == n+1, "in-memory-counter-follows")
	} else {
		rt.Assert(err == ErrGapLimit, "refusal-is-gap-limit-error")
		rt.Assert(stored == n && len(am.index) == int(n), "refusal-changes-nothing")
	}
	rt.Reach("end")
}

// VerifC18NewAddressRetry: the n-th database call of issuing an address fails (any n, including the commit);
// the operation reports failure, the stored counter is unchanged, and repeating it once storage works again
// issues the SAME index - no skipped or duplicated address index.
func VerifC18NewAddressRetry() {
	st := c12Setup()
	rt.Assume(st.allowed())
	n := st.n
	st.db.Calls = 0
	st.db.FaultWrites = true // a put can fail too (the n-th storage call of the request fails, whatever it is)
	st.db.FaultAt = rt.NondetLen(1, 10)
	_, err := st.issue()
	faulted := st.db.Calls >= st.db.FaultAt
	if faulted {
		rt.Assert(err != nil, "storage-fault-is-reported")
	}
	if err != nil {
		rt.Assert(st.storedCounter() == n, "failed-attempt-leaves-the-stored-counter")
		st.db.FaultAt = 0
		got, err2 := st.issue()
		rt.Assert(err2 == nil, "retry-succeeds")
		if err2 == nil {
			rt.Assert(len(got) == 1 && got[0].derivationPath.Index == n, "retry-issues-the-same-index")
			rt.Assert(st.storedCounter() == n+1, "counter-advanced-once")
			rt.Assert(st.am.index[n] == got[0].address, "index-map-points-at-the-issued-address")
			_, phantom := st.am.index[n+1]
			rt.Assert(!phantom, "no-phantom-address-above-the-counter")
		}
	}
	rt.Reach("end")
}

// ---- cut: creation of a keystore (entropy, mnemonic, key derivation, encryption and ~30 store calls are the
// subject of other properties). Contract kept: it either fails and caches nothing, or stores the keystore and
// caches its address manager under the returned name. When VerifNewKeystoreModel is set the wrapper draws the
// "creation fails" flag itself (in native replays too) and storage faults are not injected inside the call. ----

var VerifNewKeystoreModel bool

var errVerifNewKeystore = errors.New("verif: keystore creation failed")

func (km *KeystoreManager) NewKeystore(dbTransaction mwdb.DBTransaction, bitSize int, privPassphrase []byte, remarks string,
	net *config.Params, scryptConfig *ScryptOptions, addressGapLimit uint32) (string, string, error) {
	if !VerifNewKeystoreModel {
		return km.NewKeystore__real(dbTransaction, bitSize, privPassphrase, remarks, net, scryptConfig, addressGapLimit)
	}
	fail := rt.NondetBool()
	if s, ok := dbTransaction.(interface{ VerifSuspendFaults(bool) }); ok {
		s.VerifSuspendFaults(true)
		defer s.VerifSuspendFaults(false)
	}
	if fail {
		return "", "", errVerifNewKeystore
	}
	if !rt.CutActive("newKeystore") {
		return km.NewKeystore__real(dbTransaction, bitSize, privPassphrase, remarks, net, scryptConfig, addressGapLimit)
	}
	km.mu.Lock()
	defer km.mu.Unlock()
	name := "ac10cccccccccccccccccccccccccccccccccccccc"
	km.managedKeystores[name] = &AddrManager{keystoreName: name, version: KeystoreVersionLatest, index: map[uint32]string{}, addrs: map[string]*ManagedAddress{}, acctInfo: &accountInfo{}, branchInfo: &branchInfo{}}
	return name, "model mnemonic", nil
}


// VerifC04SigningKeyPath (property C04, second sentence, the keystore's part): an address is issued by the real
// nextAddresses on either branch, from the public account key (locked) or from the private one (unlocked);
// the key the real getPrivKeyBtcec derives for it when signing is the key at the same derivation path
// (branch, index) under the private account key. Key derivation itself is cut to an injective tagging of the
// path (one step of the real Child against BIP-32, and Neuter commuting with it, are C14).
func VerifC04SigningKeyPath() {
	st := c12Setup()
	internal := rt.NondetBool()
	if rt.NondetBool() {
		st.am.acctInfo.acctKeyPriv = hdkeychain.VerifOpaqueKey([]byte("acct"), true)
	}
	var got []*ManagedAddress
	err := mwdb.Update(st.db, func(tx mwdb.DBTransaction) error {
		mas, e := st.am.nextAddresses(tx, st.check, internal, 1, st.G, config.ChainParams, 1, 0)
		if e != nil {
			return e
		}
		got = mas
		return st.am.updateManagedAddress(tx, mas)
	})
	if err != nil || len(got) != 1 {
		rt.Reach("end")
		return
	}
	ma := got[0]
	branch := uint32(ExternalBranch)
	if internal {
		branch = InternalBranch
	}
	rt.Assert(ma.derivationPath.Branch == branch, "issued-on-the-requested-branch")
	want := c12Tag(branch, ma.derivationPath.Index)
	rt.Assert(bytes.Equal(ma.scriptHash[1:], want), "address-commits-to-the-key-at-its-path")
	// the private branch keys as the unlock path derives them: children of the private account key
	root := hdkeychain.VerifOpaqueKey([]byte("acct"), true)
	st.am.branchInfo.externalBranchPriv, _ = root.Child(ExternalBranch)
	st.am.branchInfo.internalBranchPriv, _ = root.Child(InternalBranch)
	priv, perr := st.am.getPrivKeyBtcec(ma.address, nil)
	rt.Assert(perr == nil && priv != nil, "signing-key-derived")
	if perr == nil && priv != nil {
		rt.Assert(priv.D.Cmp(new(big.Int).SetBytes(want)) == 0, "signing-key-is-the-key-at-the-address-path")
		again, _ := st.am.getPrivKeyBtcec(ma.address, nil)
		rt.Assert(again == priv, "cached-signing-key-is-the-same")
	}
	_, nerr := st.am.getPrivKeyBtcec("no-such-address", nil)
	rt.Assert(nerr == ErrAddressNotFound, "unknown-address-refused")
	rt.Reach("derived")
	rt.Reach("end")
}

// ---- restore scan ----

// c12PathTag: a 33-byte key that looks like a compressed public key and carries the last eight derivation indexes.
func c12PathChild(tag []byte, i uint32) []byte {
	t := make([]byte, 33)
	t[0] = 2
	copy(t[1:], tag[5:33])
	binary.BigEndian.PutUint32(t[29:], i)
	return t
}

// VerifC12RestoreScan: the real createManagerKeyScope (what a mnemonic restore runs) against a chain oracle in
// which the external addresses 0..5 are used or not - arbitrarily, but in a way the issuing rule allows (an
// address at index i >= G was only ever issued if one of the G addresses before it was used). With any index
// hint, the restored wallet's next external index is beyond every used address, and the public key of every
// address up to there is stored: the restore finds every address that ever received funds.
func VerifC12RestoreScan() { c12RestoreScan(6, 3) }

// deeper: the first 8 addresses, gap limit up to 4
func VerifC12RestoreScanDeep() { c12RestoreScan(8, 4) }

func c12RestoreScan(K int, maxG int) {
	G := uint32(rt.NondetLen(2, maxG))
	used := make([]bool, K)
	last := -1
	for i := 0; i < K; i++ {
		used[i] = rt.NondetBool()
		if used[i] {
			// issuable: i < G, or a used address among the G before it
			ok := uint32(i) < G
			for j := i - 1; j >= 0 && j >= i-int(G); j-- {
				if used[j] {
					ok = true
				}
			}
			rt.Assume(ok)
			last = i
		}
	}
	hint := uint32(rt.NondetLen(1, 2)) // the external scan runs for a non-zero hint (the importer passes >= 1)
	db := mdb.New()
	km := db.Top("km")
	hdkeychain.VerifChildStub = func(k *hdkeychain.ExtendedKey, i uint32) (*hdkeychain.ExtendedKey, error) {
		return hdkeychain.VerifOpaqueKey(c12PathChild(k.VerifTag(), i), k.IsPrivate()), nil
	}
	hdkeychain.VerifNeuterStub = func(k *hdkeychain.ExtendedKey) (*hdkeychain.ExtendedKey, error) {
		return hdkeychain.VerifOpaqueKey(k.VerifTag(), false), nil
	}
	root := hdkeychain.VerifOpaqueKey(append([]byte{2}, make([]byte, 32)...), true)
	check := func(sh []byte) (bool, error) {
		// script hash = 0xee || tag: the last two indexes of the path are branch and address index
		branch := binary.BigEndian.Uint32(sh[1+25 : 1+29])
		idx := binary.BigEndian.Uint32(sh[1+29 : 1+33])
		if branch != ExternalBranch || idx >= uint32(K) {
			return false, nil
		}
		return used[idx], nil
	}
	path := &hdPath{Account: 0, ExternalChildNum: hint, InternalChildNum: 0}
	var meta mwdb.BucketMeta
	err := mwdb.Update(db, func(tx mwdb.DBTransaction) error {
		b := tx.TopLevelBucket("km")
		var e error
		meta, e = createManagerKeyScope(b, root, c12PubEnc{}, c12Enc{}, path, check, config.ChainParams, G)
		return e
	})
	if err != nil {
		rt.Reach("unusable") // the curve rejects the derived account key (uninterpreted)
		rt.Reach("end")
		return
	}
	var acct *mdb.Bucket
	for _, name := range []string{meta.Name()} {
		acct = km.Sub(name)
	}
	// C05: what the public passphrase alone opens holds no private key - none of the private keys of the account's
	// hierarchy is stored under the public crypto key
	acctPriv := root
	for _, i := range []uint32{Net2KeyScope[config.ChainParams.HDCoinType].Purpose + hdkeychain.HardenedKeyStart, Net2KeyScope[config.ChainParams.HDCoinType].Coin + hdkeychain.HardenedKeyStart, hdkeychain.HardenedKeyStart} {
		acctPriv, _ = acctPriv.Child(i)
	}
	inPriv, _ := acctPriv.Child(InternalBranch)
	exPriv, _ := acctPriv.Child(ExternalBranch)
	for _, e := range acct.Ents {
		if len(e.V) > 0 && e.V[0] == 0xaa {
			for _, pk := range []*hdkeychain.ExtendedKey{acctPriv, inPriv, exPriv} {
				rt.Assert(!bytes.Equal(e.V[1:], []byte(pk.String())), "no-private-key-under-the-public-crypto-key")
			}
		}
	}
	next := binary.LittleEndian.Uint32(acct.Lookup(externalChildNumName))
	want := hint
	if uint32(last+1) > want {
		want = uint32(last + 1)
	}
	rt.Assert(next >= uint32(last+1), "restored-next-index-is-beyond-every-used-address")
	rt.Assert(next == want, "restored-next-index-is-exactly-last-used-plus-one-or-the-hint")
	// every address below the restored counter is an address of the wallet: its public key is stored (a reload builds
	// the address list from these records alone; an index without one is an address the restored wallet neither
	// knows nor will ever issue), once, and nothing is stored at or above the counter
	pub := acct.Sub(pubKeyBucket)
	for i := uint32(0); i < uint32(K); i++ {
		key := make([]byte, 8)
		binary.LittleEndian.PutUint32(key, ExternalBranch)
		binary.LittleEndian.PutUint32(key[4:], i)
		n := 0
		for _, e := range pub.Ents {
			if bytes.Equal(e.K, key) {
				n++
			}
		}
		if i < next {
			rt.Assert(n == 1, "public-key-of-every-address-below-the-restored-counter-is-stored")
		} else {
			rt.Assert(n == 0, "no-address-record-at-or-above-the-restored-counter")
		}
	}
	rt.Reach("restored")
	rt.Reach("end")
}

// ---- cut: import of an exported keystore (same contract as NewKeystore's cut: it fails and caches nothing, or
// stores the keystore and caches its address manager; the imported wallet has zero or one address with history).
var VerifImportAddresses int

func (km *KeystoreManager) ImportKeystore(dbTransaction mwdb.DBTransaction, checkfunc func([]byte) (bool, error),
	keystoreJson []byte, oldPrivPass []byte, addressGapLimit uint32) (*AddrManager, error) {
	if !VerifNewKeystoreModel {
		return km.ImportKeystore__real(dbTransaction, checkfunc, keystoreJson, oldPrivPass, addressGapLimit)
	}
	fail := rt.NondetBool()
	if s, ok := dbTransaction.(interface{ VerifSuspendFaults(bool) }); ok {
		s.VerifSuspendFaults(true)
		defer s.VerifSuspendFaults(false)
	}
	if fail {
		return nil, errVerifNewKeystore
	}
	if !rt.CutActive("newKeystore") {
		return km.ImportKeystore__real(dbTransaction, checkfunc, keystoreJson, oldPrivPass, addressGapLimit)
	}
	km.mu.Lock()
	defer km.mu.Unlock()
	name := "ac10cccccccccccccccccccccccccccccccccccccc"
	am := &AddrManager{keystoreName: name, version: KeystoreVersionLatest, index: map[uint32]string{}, addrs: map[string]*ManagedAddress{}, acctInfo: &accountInfo{}, branchInfo: &branchInfo{}}
	for i := 0; i < VerifImportAddresses; i++ {
		a := "ms1qimportedaddress"
		am.addrs[a] = &ManagedAddress{address: a, keystoreName: name, scriptHash: make([]byte, 32)}
	}
	km.managedKeystores[name] = am
	return am, nil
}

// VerifC17KeystoreLock (property C17, second sentence, the keystore's address maps): while KeystoreManager.NextAddresses
// is issuing an address - observed from the chain-oracle callback the real nextAddresses makes for the gap-limit rule,
// i.e. before the address maps are written - a look-up of the kind the block follower makes for every output
// (GetManagedAddressByScriptHash, which reads the same maps under the manager lock) does not run: it is parked on
// the manager lock (rt.Blocked). AddrManager.updateManagedAddress writes the maps with no lock of its own, so this
// is what keeps an API NewAddress and block processing from touching one Go map at the same time.
func VerifC17KeystoreLock() {
	st := c12Setup()
	rt.Assume(st.n >= st.G && st.allowed()) // the gap-limit rule consults the chain oracle, and allows the request
	km := &KeystoreManager{
		managedKeystores: map[string]*AddrManager{st.wid: st.am},
		currentKeystore:  &currentKeystore{accountName: st.wid},
		params:           config.ChainParams,
	}
	sh := make([]byte, 32)
	calls, parkedAlways := 0, true
	check := func(h []byte) (bool, error) {
		calls++
		if !rt.Blocked(func() { km.GetManagedAddressByScriptHash(sh) }) {
			parkedAlways = false
		}
		return st.check(h)
	}
	var got []*ManagedAddress
	err := mwdb.Update(st.db, func(tx mwdb.DBTransaction) error {
		mas, e := km.NextAddresses(tx, check, false, 1, st.G, 0)
		got = mas
		return e
	})
	rt.Join()
	rt.Assert(err == nil && len(got) == 1, "address-issued")
	rt.Assert(calls > 0, "chain-oracle-consulted")
	rt.Assert(parkedAlways, "follower-look-up-waits-while-an-address-is-being-issued")
	rt.Assert(!rt.Blocked(func() { km.GetManagedAddressByScriptHash(sh) }), "manager-lock-is-free-afterwards")
	rt.Reach("end")
}

// VerifC12IssueTwice: two requests in one process with the chain changing in between (payments arrive, or a
// reorganisation takes them away): the gap rule of the second request is judged on the chain as it is then - nothing
// an earlier request learnt about used addresses is carried over.
func VerifC12IssueTwice() {
	st := c12Setup()
	rt.Assume(st.n <= 3) // room for two more addresses in the five tracked used-bits
	_, err1 := st.issue()
	rt.Assert((err1 == nil) == st.allowed(), "issued-iff-gap-rule-allows")
	if err1 == nil {
		st.n++
		rt.Reach("first-issued")
	}
	// the chain moves: every issued address has history, or not, afresh
	for i := uint32(0); i < st.n; i++ {
		st.used[i] = rt.NondetBool()
	}
	got, err2 := st.issue()
	rt.Assert((err2 == nil) == st.allowed(), "second-request-judged-on-the-chain-as-it-is-now")
	if err2 == nil {
		rt.Assert(len(got) == 1 && got[0].derivationPath.Index == st.n && st.storedCounter() == st.n+1, "next-index-issued")
	} else {
		rt.Assert(err2 == ErrGapLimit && st.storedCounter() == st.n, "refusal-changes-nothing")
	}
	rt.Reach("end")
}
