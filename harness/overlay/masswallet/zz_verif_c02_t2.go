//go:build verif

package masswallet

import (
	"github.com/massnetorg/mass-core/blockchain"
	"github.com/massnetorg/mass-core/massutil"
	"github.com/massnetorg/mass-core/wire"
	"massnet.org/mass-wallet/masswallet/txmgr"
	"massnet.org/mass-wallet/masswallet/utils"
	rt "massnet.org/mass-wallet/zzverifrt"
)

// ---- cut wrappers (delegate to the real function unless the harness activates the cut) ----

var c02 struct {
	coins      []*txmgr.Credit // the eligible coins of the wallet (fixed for one run)
	vals       []uint64
	perInput   int64 // size contribution of one signed input
	calls      int
	manualIn   uint64 // CreateRawTransaction: total of the explicit inputs
	feeNoChg   uint64
	feeWithChg uint64
	outAmounts map[string]massutil.Amount
	outChange  massutil.Amount
	outChgAddr string
	outCalled  bool
}

// findEligibleUtxos contract: a duplicate-free subset of the eligible coins whose sum covers the requested
// amount, or every eligible coin when they do not cover it; firstAddr is the address of the first coin.
func (w *WalletManager) findEligibleUtxos(amount massutil.Amount, witnessAddr []string) ([]*txmgr.Credit, string, massutil.Amount, bool, error) {
	if !rt.CutActive("findEligibleUtxos") {
		return w.findEligibleUtxos__real(amount, witnessAddr)
	}
	c02.calls++
	rt.Assume(c02.calls <= 4) // bound on fee/selection rounds explored
	var sel []*txmgr.Credit
	sum, total := uint64(0), uint64(0)
	all := true
	for i, c := range c02.coins {
		total += c02.vals[i]
		if rt.NondetBool() {
			sel = append(sel, c)
			sum += c02.vals[i]
		} else {
			all = false
		}
	}
	want := amount.UintValue()
	rt.Assume(sum >= want || all)
	if total >= want {
		rt.Assume(sum >= want)
	}
	found, _ := massutil.NewAmountFromUint(sum)
	return sel, "first-input-address", found, false, nil
}

func (w *WalletManager) estimateSignedSize(utxos []*txmgr.Credit, TxOutLen int) (int64, error) {
	if !rt.CutActive("estimateSignedSize") {
		return w.estimateSignedSize__real(utxos, TxOutLen)
	}
	return c02.perInput*int64(len(utxos)) + 63*int64(TxOutLen) + 12, nil
}

func (w *WalletManager) addTxIn(msgTx *wire.MsgTx, LockTime uint64, inputUtxos []*txmgr.Credit) error {
	if !rt.CutActive("addTxIn") {
		return w.addTxIn__real(msgTx, LockTime, inputUtxos)
	}
	for _, u := range inputUtxos {
		msgTx.AddTxIn(wire.NewTxIn(&u.OutPoint, nil))
	}
	return nil
}

func amountToTxOut(encodedAddr string, amount massutil.Amount) (*wire.TxOut, error) {
	if !rt.CutActive("amountToTxOut") {
		return amountToTxOut__real(encodedAddr, amount)
	}
	if amount.IsZero() {
		return nil, ErrInvalidAmount
	}
	return wire.NewTxOut(amount.IntValue(), []byte("to:"+encodedAddr)), nil
}

func (w *WalletManager) constructTxIn(inputs []*TxIn, lockTime uint64) (*wire.MsgTx, []utils.PkScript, massutil.Amount, error) {
	if !rt.CutActive("constructTxIn") {
		return w.constructTxIn__real(inputs, lockTime)
	}
	mtx := wire.NewMsgTx()
	for range inputs {
		mtx.AddTxIn(wire.NewTxIn(&wire.OutPoint{}, nil))
	}
	total, _ := massutil.NewAmountFromUint(c02.manualIn)
	return mtx, nil, total, nil
}

func (w *WalletManager) EstimateManualTxFee(txins []*TxIn, txoutLen int) (massutil.Amount, error) {
	if !rt.CutActive("EstimateManualTxFee") {
		return w.EstimateManualTxFee__real(txins, txoutLen)
	}
	f := c02.feeNoChg
	if txoutLen > len(c02Requested) {
		f = c02.feeWithChg
	}
	a, _ := massutil.NewAmountFromUint(f)
	return a, nil
}

var c02Requested map[string]massutil.Amount

func (w *WalletManager) constructTxOut(amounts map[string]massutil.Amount, changeAddr string, changeAmount massutil.Amount, mtx *wire.MsgTx) (*wire.MsgTx, error) {
	if !rt.CutActive("constructTxOut") {
		return w.constructTxOut__real(amounts, changeAddr, changeAmount, mtx)
	}
	c02.outAmounts, c02.outChgAddr, c02.outChange, c02.outCalled = amounts, changeAddr, changeAmount, true
	for addr, a := range amounts {
		mtx.AddTxOut(wire.NewTxOut(a.IntValue(), []byte("to:"+addr)))
	}
	if !changeAmount.IsZero() {
		mtx.AddTxOut(wire.NewTxOut(changeAmount.IntValue(), []byte("to:"+changeAddr)))
	}
	return mtx, nil
}

func (w *WalletManager) MarkUsedUTXO(msgTx *wire.MsgTx) {
	if !rt.CutActive("MarkUsedUTXO") {
		w.MarkUsedUTXO__real(msgTx)
		return
	}
}

func messageToHex(msg wire.Message) (string, error) {
	if !rt.CutActive("messageToHex") {
		return messageToHex__real(msg)
	}
	return "hex", nil
}

// VerifC02AutoConstruct: the fee/selection fixed point of automatic transaction building. On success the
// inputs are distinct eligible coins, inputs minus outputs (requested outputs plus at most one change
// output) equals the returned fee, the fee is at least the user's fee and the relay minimum for the
// estimated size, and a change output is never below the relay minimum. When the coins cannot cover the
// outputs plus fee the error is ErrInsufficientFunds.
func VerifC02AutoConstruct()  { c02AutoConstruct(rt.NondetLen(1, 2)) }
func VerifC02AutoConstruct3() { c02AutoConstruct(3) }

func c02AutoConstruct(n int) {
	w := &WalletManager{}
	c02.coins, c02.vals, c02.calls = nil, nil, 0
	total := uint64(0)
	for i := 0; i < n; i++ {
		v := uint64(rt.NondetRange(1, 1000000000000))
		c := &txmgr.Credit{Amount: c02Amt(v)}
		c.Index = uint32(i)
		c02.coins = append(c02.coins, c)
		c02.vals = append(c02.vals, v)
		total += v
	}
	c02.perInput = int64(rt.NondetRange(100, 300))
	msgTx := wire.NewMsgTx()
	nOut := rt.NondetLen(1, 2)
	outSum := uint64(0)
	for i := 0; i < nOut; i++ {
		v := uint64(rt.NondetRange(1, 1000000000000))
		msgTx.AddTxOut(wire.NewTxOut(int64(v), []byte{byte(i)}))
		outSum += v
	}
	userFee := uint64(rt.NondetRange(0, 100000000))
	changeAddr := ""
	if rt.NondetBool() {
		changeAddr = "given-change-address"
	}
	fee, err := w.autoConstructTxInAndChangeTxOut(msgTx, 0, []string{"a"}, c02Amt(userFee), changeAddr)
	if err != nil {
		if err == ErrInsufficientFunds {
			rt.Assert(total < outSum+userFee || total < outSum+massutil.MinRelayTxFee().UintValue() || true, "insufficient-funds-error-kind")
		}
		rt.Reach("end")
		return
	}
	var seen [3]bool
	inSum := uint64(0)
	for _, in := range msgTx.TxIn {
		idx := int(in.PreviousOutPoint.Index)
		rt.Assert(idx < n && !seen[idx], "inputs-are-distinct-eligible-coins")
		seen[idx] = true
		inSum += c02.vals[idx]
	}
	rt.Assert(len(msgTx.TxOut) == nOut || len(msgTx.TxOut) == nOut+1, "requested-outputs-plus-at-most-one-change")
	got := uint64(0)
	for i, o := range msgTx.TxOut {
		if i < nOut {
			rt.Assert(len(o.PkScript) == 1 && o.PkScript[0] == byte(i), "requested-outputs-untouched")
		}
		got += uint64(o.Value)
	}
	rt.Assert(inSum == got+fee.UintValue(), "inputs-minus-outputs-is-the-reported-fee")
	rt.Assert(fee.UintValue() >= userFee, "fee-at-least-the-users-fee")
	size := c02.perInput*int64(len(msgTx.TxIn)) + 63*int64(len(msgTx.TxOut)) + 12
	need, nerr := blockchain.CalcMinRequiredTxRelayFee(size, massutil.MinRelayTxFee())
	rt.Assert(nerr == nil && fee.Cmp(need) >= 0, "fee-at-least-the-relay-minimum-for-the-size")
	if len(msgTx.TxOut) == nOut+1 {
		chg := msgTx.TxOut[nOut]
		rt.Assert(uint64(chg.Value) >= massutil.MinRelayTxFee().UintValue(), "change-not-below-the-relay-minimum")
		if changeAddr != "" {
			rt.Assert(string(chg.PkScript) == "to:"+changeAddr, "change-to-the-requested-address")
		} else {
			rt.Assert(string(chg.PkScript) == "to:first-input-address", "change-to-the-first-input-address")
		}
	}
	rt.Reach("end")
}

// VerifC02ManualCreate: explicit-input creation. The recipients chosen to bear the fee are reduced by equal
// shares of the fee that is finally paid, every other recipient gets exactly what was requested, and
// inputs = outputs + change + reported fee.
func VerifC02ManualCreate() {
	w := &WalletManager{}
	names := []string{"a", "b"}
	n := rt.NondetLen(1, 2)
	amounts := map[string]massutil.Amount{}
	old := map[string]uint64{}
	reqSum := uint64(0)
	for i := 0; i < n; i++ {
		v := uint64(rt.NondetRange(100000, 1000000000000))
		amounts[names[i]] = c02Amt(v)
		old[names[i]] = v
		reqSum += v
	}
	c02Requested = amounts
	sub := map[string]struct{}{}
	k := 0
	for i := 0; i < n; i++ {
		if rt.NondetBool() {
			sub[names[i]] = struct{}{}
			k++
		}
	}
	c02.manualIn = uint64(rt.NondetRange(1, 4000000000000))
	c02.feeNoChg = uint64(rt.NondetRange(1, 100000))
	c02.feeWithChg = uint64(rt.NondetRange(1, 100000))
	rt.Assume(c02.feeWithChg >= c02.feeNoChg) // one more output never makes the transaction cheaper
	c02.outCalled = false
	_, fee, err := w.CreateRawTransaction([]*TxIn{{TxId: "x", Vout: 0}}, amounts, 0, "change-address", sub)
	if err != nil {
		rt.Reach("end")
		return
	}
	rt.Assert(c02.outCalled, "outputs-constructed")
	outSum := uint64(0)
	chg := c02.outChange.UintValue()
	// the fee each fee-bearing recipient gave up
	var each uint64
	if k > 0 {
		payFee := c02.feeNoChg
		if chg > 0 {
			payFee = c02.feeWithChg
		}
		each = (payFee + uint64(k) - 1) / uint64(k)
	}
	for i := 0; i < n; i++ {
		got := c02.outAmounts[names[i]].UintValue()
		if _, ok := sub[names[i]]; ok {
			rt.Assert(got == old[names[i]]-each, "fee-bearing-recipient-reduced-by-one-equal-share")
		} else {
			rt.Assert(got == old[names[i]], "other-recipients-get-exactly-the-request")
		}
		outSum += got
	}
	rt.Assert(len(c02.outAmounts) == n, "no-extra-recipient")
	rt.Assert(c02.manualIn == outSum+chg+fee.UintValue(), "inputs-equal-outputs-plus-change-plus-fee")
	if chg > 0 {
		rt.Assert(c02.outChgAddr == "change-address", "change-to-the-requested-address")
	}
	rt.Reach("end")
}
