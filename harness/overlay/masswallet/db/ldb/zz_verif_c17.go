//go:build verif

package ldb

// VerifC17Writer: one write transaction of the driver through the real functions with static receivers (the
// root of each writer goroutine in the driver race model, and the body of the race-detector confirmation run).
func VerifC17Writer(l *LevelDB) {
	txi, err := l.BeginTx()
	if err != nil {
		return
	}
	tx := txi.(*transaction)
	if lb, ok := tx.TopLevelBucket("b").(*levelBucket); ok {
		_ = lb.Put([]byte("k"), []byte("v"))
		_ = lb.Delete([]byte("k2"))
		if v, _ := lb.Get([]byte("k")); len(v) == 0 {
			_ = tx.Rollback()
			return
		}
	}
	_ = tx.Commit()
}
