//go:build verif

package ldb

import (
	"bytes"

	"github.com/syndtr/goleveldb/leveldb"
	"github.com/syndtr/goleveldb/leveldb/iterator"
	"github.com/syndtr/goleveldb/leveldb/opt"
	"github.com/syndtr/goleveldb/leveldb/storage"
	"github.com/syndtr/goleveldb/leveldb/util"
	"massnet.org/mass-wallet/masswallet/db"
	rt "massnet.org/mass-wallet/zzverifrt"
)

// ---------------------------------------------------------------------------------------------------------
// A model of the goleveldb store, used under the symbolic executor only (registry field "redirect"): an
// ordered list of committed entries, point reads, snapshot range iterators, and atomic application of a
// recorded batch. Natively the harness opens a real goleveldb over memory storage, so the translator
// validation compares this model with the real store on every solver-chosen path input.
// ---------------------------------------------------------------------------------------------------------

type c11KV struct{ k, v []byte }

type c11BOp struct {
	del  bool
	k, v []byte
}

var (
	c11Committed []c11KV // ascending, keys unique
	c11Pending   []c11BOp
	c11Writes    int
)

func c11Clone(b []byte) []byte { return append([]byte{}, b...) }

func c11mBatchPut(b *leveldb.Batch, k, v []byte) {
	c11Pending = append(c11Pending, c11BOp{k: c11Clone(k), v: c11Clone(v)})
}
func c11mBatchDelete(b *leveldb.Batch, k []byte) {
	c11Pending = append(c11Pending, c11BOp{del: true, k: c11Clone(k)})
}
func c11mBatchReset(b *leveldb.Batch) { c11Pending = nil }

func c11mWrite(d *leveldb.DB, b *leveldb.Batch, wo *opt.WriteOptions) error {
	c11Writes++
	for _, o := range c11Pending {
		// remove
		var out []c11KV
		placed := false
		for _, e := range c11Committed {
			c := bytes.Compare(e.k, o.k)
			if c == 0 {
				continue
			}
			if c > 0 && !placed && !o.del {
				out = append(out, c11KV{o.k, o.v})
				placed = true
			}
			out = append(out, e)
		}
		if !placed && !o.del {
			out = append(out, c11KV{o.k, o.v})
		}
		c11Committed = out
	}
	return nil
}

// direct (unbatched) writes to the store: applied at once, outside any transaction - the wrapper is not supposed to make
// any, so these are only reached by code that bypasses the transaction's batch
func c11mDelete(d *leveldb.DB, key []byte, wo *opt.WriteOptions) error {
	var out []c11KV
	for _, e := range c11Committed {
		if !bytes.Equal(e.k, key) {
			out = append(out, e)
		}
	}
	c11Committed = out
	return nil
}

func c11mPut(d *leveldb.DB, key, value []byte, wo *opt.WriteOptions) error {
	if err := c11mDelete(d, key, wo); err != nil {
		return err
	}
	var out []c11KV
	placed := false
	for _, e := range c11Committed {
		if bytes.Compare(e.k, key) > 0 && !placed {
			out = append(out, c11KV{c11Clone(key), c11Clone(value)})
			placed = true
		}
		out = append(out, e)
	}
	if !placed {
		out = append(out, c11KV{c11Clone(key), c11Clone(value)})
	}
	c11Committed = out
	return nil
}

func c11mGet(d *leveldb.DB, key []byte, ro *opt.ReadOptions) ([]byte, error) {
	for _, e := range c11Committed {
		if bytes.Equal(e.k, key) {
			return c11Clone(e.v), nil
		}
	}
	return nil, leveldb.ErrNotFound
}

type c11Iter struct {
	util.BasicReleaser
	es  []c11KV
	pos int
}

func c11mNewIterator(d *leveldb.DB, slice *util.Range, ro *opt.ReadOptions) iterator.Iterator {
	it := &c11Iter{pos: -1}
	for _, e := range c11Committed {
		if slice != nil {
			if slice.Start != nil && bytes.Compare(e.k, slice.Start) < 0 {
				continue
			}
			if slice.Limit != nil && bytes.Compare(e.k, slice.Limit) >= 0 {
				continue
			}
		}
		it.es = append(it.es, e)
	}
	return it
}

func (i *c11Iter) First() bool { i.pos = 0; return i.Valid() }
func (i *c11Iter) Last() bool  { i.pos = len(i.es) - 1; return i.Valid() }
func (i *c11Iter) Seek(key []byte) bool {
	for p, e := range i.es {
		if bytes.Compare(e.k, key) >= 0 {
			i.pos = p
			return true
		}
	}
	i.pos = len(i.es)
	return false
}
func (i *c11Iter) Next() bool {
	if i.pos < len(i.es) {
		i.pos++
	}
	return i.Valid()
}
func (i *c11Iter) Prev() bool {
	if i.pos >= 0 {
		i.pos--
	}
	return i.Valid()
}
func (i *c11Iter) Valid() bool { return i.pos >= 0 && i.pos < len(i.es) }
func (i *c11Iter) Error() error { return nil }
func (i *c11Iter) Key() []byte {
	if !i.Valid() {
		return nil
	}
	return i.es[i.pos].k
}
func (i *c11Iter) Value() []byte {
	if !i.Valid() {
		return nil
	}
	return i.es[i.pos].v
}

// ---- cut "nopad": newBatch without the 64 MiB padding record that pre-sizes the shared leveldb batch (the record is
// reset away before the batch is used; under the executor the array alone would take gigabytes per worker) ----
func newBatch() *batch {
	if !rt.CutActive("nopad") {
		return newBatch__real()
	}
	if innerBatch == nil {
		innerBatch = new(leveldb.Batch)
	}
	innerBatch.Reset()
	return &batch{b: innerBatch, puts: make(map[string]*batchPutValue), deletes: make(map[string]uint32)}
}

// c11Open: the store under the real wrapper. Symbolic: the model above (the *leveldb.DB is never touched).
func c11Open() *LevelDB {
	c11Committed, c11Pending, c11Writes = nil, nil, 0
	if rt.Symbolic() {
		return &LevelDB{}
	}
	d, err := leveldb.Open(storage.NewMemStorage(), nil)
	if err != nil {
		panic(err)
	}
	return &LevelDB{ldb: d}
}

// ---------------------------------------------------------------------------------------------------------
// Reference: what a store of nested buckets is. Two sibling buckets under one top-level bucket.
// ---------------------------------------------------------------------------------------------------------

type c11Ref struct {
	exists bool
	es     []c11KV
}

func (r *c11Ref) get(k []byte) []byte {
	for _, e := range r.es {
		if bytes.Equal(e.k, k) {
			return e.v
		}
	}
	return nil
}
func (r *c11Ref) del(k []byte) {
	var out []c11KV
	for _, e := range r.es {
		if !bytes.Equal(e.k, k) {
			out = append(out, e)
		}
	}
	r.es = out
}
func (r *c11Ref) put(k, v []byte) {
	r.del(k)
	r.es = append(r.es, c11KV{k, v})
}
func (r *c11Ref) copy() c11Ref { return c11Ref{exists: r.exists, es: append([]c11KV{}, r.es...)} }

// c11CheckBucket compares what one bucket shows (point read, prefix read; in a read-only transaction also the
// iterator) with the reference.
func c11CheckBucket(tag string, top db.Bucket, name string, ref *c11Ref, probe, prefix []byte, iterate bool) {
	b := top.Bucket(name)
	if iterate {
		rt.Assert((b != nil) == ref.exists, tag+"-bucket-present-iff-it-exists")
	} else {
		// inside the write transaction a bucket deleted by this transaction is still handed out by Bucket()
		// (levelBucket.Bucket does not consult the pending deletes); the property speaks of point reads, prefix
		// reads and listings, so only those are compared for a deleted bucket: it must read as empty
		rt.Assert(b != nil || !ref.exists, tag+"-existing-bucket-found")
	}
	if b == nil {
		return
	}
	v, err := b.Get(probe)
	rt.Assert(err == nil, tag+"-get-succeeds")
	want := ref.get(probe)
	if want == nil {
		rt.Assert(len(v) == 0, tag+"-absent-key-reads-nil")
	} else {
		rt.Assert(bytes.Equal(v, want), tag+"-get-returns-the-latest-value")
	}
	es, err := b.GetByPrefix(prefix)
	rt.Assert(err == nil, tag+"-prefix-read-succeeds")
	n := 0
	for _, r := range ref.es {
		if !bytes.HasPrefix(r.k, prefix) {
			continue
		}
		n++
		cnt := 0
		for _, e := range es {
			if bytes.Equal(e.Key, r.k) {
				cnt++
				rt.Assert(bytes.Equal(e.Value, r.v), tag+"-prefix-read-value")
			}
		}
		rt.Assert(cnt == 1, tag+"-prefix-read-has-each-matching-entry-once")
	}
	rt.Assert(len(es) == n, tag+"-prefix-read-has-nothing-else")
	if iterate {
		it := b.NewIterator(nil)
		var prev []byte
		cnt := 0
		for it.Next() {
			k := c11Clone(it.Key())
			rt.Assert(bytes.Equal(ref.get(k), it.Value()) && ref.get(k) != nil, tag+"-iterator-yields-stored-entries")
			if cnt > 0 {
				rt.Assert(bytes.Compare(prev, k) < 0, tag+"-iterator-ascending")
			}
			prev = k
			cnt++
			rt.Assume(cnt <= 4)
		}
		it.Release()
		rt.Assert(cnt == len(ref.es), tag+"-iterator-yields-every-entry-once")
	}
}

func c11CheckNames(tag string, top db.Bucket, names [2]string, refs [2]*c11Ref) {
	got, err := top.BucketNames()
	rt.Assert(err == nil, tag+"-bucket-listing-succeeds")
	n := 0
	for i := 0; i < 2; i++ {
		cnt := 0
		for _, g := range got {
			if g == names[i] {
				cnt++
			}
		}
		if refs[i].exists {
			n++
			rt.Assert(cnt == 1, tag+"-existing-bucket-listed-once")
		} else {
			rt.Assert(cnt == 0, tag+"-deleted-bucket-not-listed")
		}
	}
	rt.Assert(len(got) == n, tag+"-nothing-else-listed")
}

// VerifC11BucketOps: a history of three transactions through the real LevelDB wrapper (BeginTx, CreateTopLevelBucket,
// NewBucket, Bucket, Put, Get, Delete, Clear, DeleteBucket, GetByPrefix, BucketNames, NewIterator, Commit,
// Rollback, BeginReadTx): (1) a set-up transaction creates two sibling buckets - the second name may extend the
// first - with one entry each and commits; (2) a write transaction performs two arbitrary operations, reads its
// own state, and commits or rolls back; (3) a read-only transaction reads the result. Every read is compared
// with the reference.
func VerifC11BucketOps() { c11BucketOps(1) }

// VerifC11BucketOps2: the same with up to two operations in the write transaction (thorough tier).
func VerifC11BucketOps2() { c11BucketOps(2) }

func c11BucketOps(maxOps int) {
	l := c11Open()
	// names from a small set: a letter or a digit (digits mimic the depth prefix of the key encoding); the second
	// name is unrelated, or extends the first by a letter or a digit
	n1 := "a"
	if rt.NondetBool() {
		n1 = "1"
	}
	n2 := "b"
	switch rt.NondetLen(0, 2) {
	case 1:
		n2 = n1 + "b"
	case 2:
		n2 = n1 + "1"
	}
	names := [2]string{n1, n2}
	var refs [2]*c11Ref
	refs[0], refs[1] = &c11Ref{exists: true}, &c11Ref{exists: true}

	// (1) set-up
	tx0, err := l.BeginTx()
	rt.Assert(err == nil, "begin")
	top0, err := tx0.CreateTopLevelBucket("t")
	rt.Assert(err == nil && top0 != nil, "top-level-bucket-created")
	for i := 0; i < 2; i++ {
		sb, err := top0.NewBucket(names[i])
		rt.Assert(err == nil && sb != nil, "sub-bucket-created")
		k, v := []byte{'k'}, rt.NondetBytes(1) // the same key in both buckets
		rt.Assert(sb.Put(k, v) == nil, "put-succeeds")
		refs[i].put(k, v)
	}
	rt.Assert(tx0.Commit() == nil, "commit-succeeds")

	// (2) the write transaction
	before := [2]c11Ref{refs[0].copy(), refs[1].copy()}
	tx1, err := l.BeginTx()
	rt.Assert(err == nil, "begin")
	top1 := tx1.TopLevelBucket("t")
	rt.Assert(top1 != nil, "committed-top-level-bucket-found")
	nops := rt.NondetLen(1, maxOps)
	for j := 0; j < nops; j++ {
		i := 0
		if rt.NondetBool() {
			i = 1
		}
		op := rt.NondetLen(0, 3)
		sb := top1.Bucket(names[i])
		rt.Assert(sb != nil || !refs[i].exists, "existing-bucket-found")
		if !refs[i].exists {
			sb = nil
		}
		switch op {
		case 0:
			k, v := rt.NondetBytes(1), rt.NondetBytes(1)
			if sb != nil {
				rt.Assert(sb.Put(k, v) == nil, "put-succeeds")
				refs[i].put(k, v)
			}
		case 1:
			k := rt.NondetBytes(1)
			if sb != nil {
				rt.Assert(sb.Delete(k) == nil, "delete-succeeds")
				refs[i].del(k)
			}
		case 2:
			if sb != nil {
				rt.Assert(sb.Clear() == nil, "clear-succeeds")
				refs[i].es = nil
			}
		case 3:
			rt.Assert(top1.DeleteBucket(names[i]) == nil, "delete-bucket-succeeds")
			refs[i].exists, refs[i].es = false, nil
		}
	}
	probe, prefix := rt.NondetBytes(1), rt.NondetBytes(rt.NondetLen(0, 1))
	for i := 0; i < 2; i++ {
		c11CheckBucket("in-transaction", top1, names[i], refs[i], probe, prefix, false)
	}
	c11CheckNames("in-transaction", top1, names, refs)
	commit := rt.NondetBool()
	if commit {
		rt.Assert(tx1.Commit() == nil, "commit-succeeds")
		rt.Reach("committed")
	} else {
		rt.Assert(tx1.Rollback() == nil, "rollback-succeeds")
		refs[0], refs[1] = &before[0], &before[1]
		rt.Reach("rolled-back")
	}

	// (3) what a reader sees afterwards
	tx2, err := l.BeginReadTx()
	rt.Assert(err == nil, "begin-read")
	top2 := tx2.TopLevelBucket("t")
	rt.Assert(top2 != nil, "committed-top-level-bucket-found")
	for i := 0; i < 2; i++ {
		c11CheckBucket("afterwards", top2, names[i], refs[i], probe, prefix, true)
	}
	c11CheckNames("afterwards", top2, names, refs)
	rt.Reach("end")
}

// VerifC11WriterIsolation: a second writer that arrives while a write transaction is open waits, and its arrival
// changes nothing the open transaction has done or will do. Writer A opens a transaction and puts 0..2 entries; writer
// B calls BeginTx (rt.Blocked: B runs up to the writer lock A holds - whatever BeginTx does before it takes the lock
// has happened); A puts one more entry, reads its own writes, and commits or rolls back; a read-only transaction then
// sees exactly A's entries (or none). Afterwards the lock is free again.
func VerifC11WriterIsolation() {
	l := c11Open()
	tx0, err := l.BeginTx()
	rt.Assert(err == nil, "begin")
	top0, err := tx0.CreateTopLevelBucket("t")
	rt.Assert(err == nil && top0 != nil, "top-level-bucket-created")
	sb0, err := top0.NewBucket("s")
	rt.Assert(err == nil && sb0 != nil, "sub-bucket-created")
	rt.Assert(tx0.Commit() == nil, "commit-succeeds")

	ref := &c11Ref{exists: true}
	txA, err := l.BeginTx()
	rt.Assert(err == nil, "begin")
	rt.Assert(txA.TopLevelBucket("t") != nil, "committed-top-level-bucket-found")
	topA := txA.TopLevelBucket("t").Bucket("s")
	rt.Assert(topA != nil, "existing-bucket-found")
	nBefore := rt.NondetLen(0, 2)
	for i := 0; i < nBefore; i++ {
		k, v := []byte{'a' + byte(i)}, rt.NondetBytes(1)
		rt.Assert(topA.Put(k, v) == nil, "put-succeeds")
		ref.put(k, v)
	}
	var txB db.DBTransaction
	parked := rt.Blocked(func() { txB, _ = l.BeginTx() })
	rt.Assert(parked, "second-writer-waits-while-a-write-transaction-is-open")
	k, v := []byte{'z'}, rt.NondetBytes(1)
	rt.Assert(topA.Put(k, v) == nil, "put-succeeds")
	ref.put(k, v)
	for _, e := range ref.es {
		got, err := topA.Get(e.k)
		rt.Assert(err == nil && bytes.Equal(got, e.v), "open-transaction-reads-its-own-writes")
	}
	commit := rt.NondetBool()
	if commit {
		rt.Assert(txA.Commit() == nil, "commit-succeeds")
		rt.Reach("committed")
	} else {
		rt.Assert(txA.Rollback() == nil, "rollback-succeeds")
		ref = &c11Ref{exists: true}
		rt.Reach("rolled-back")
	}
	// the parked writer gets the lock now (natively; under the executor it stays parked and holds nothing)
	rt.Join()
	if txB != nil {
		rt.Assert(txB.Rollback() == nil, "rollback-succeeds")
	}
	rtx, err := l.BeginReadTx()
	rt.Assert(err == nil, "begin-read")
	c11CheckBucket("isolated", rtx.TopLevelBucket("t"), "s", ref, []byte{'a'}, nil, true)
	rt.Assert(rtx.Rollback() == nil, "read-transaction-closes")
	// the writer lock is free again
	var txC db.DBTransaction
	rt.Assert(!rt.Blocked(func() { txC, _ = l.BeginTx() }) && txC != nil, "writer-lock-is-free-after-the-transaction-ended")
	if txC != nil {
		txC.Rollback()
	}
	rt.Reach("end")
}
