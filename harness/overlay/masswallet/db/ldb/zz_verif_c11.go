//go:build verif

package ldb

import (
	"bytes"

	"github.com/syndtr/goleveldb/leveldb"
	rt "massnet.org/mass-wallet/zzverifrt"
)

type c11Op struct {
	put bool
	key []byte
	val []byte
}

func c11NewBatch() *batch {
	return &batch{b: new(leveldb.Batch), puts: make(map[string]*batchPutValue), deletes: make(map[string]uint32)}
}

// reference: the last operation on key k decides.
func c11Last(ops []c11Op, k []byte) (found bool, put bool, val []byte) {
	for i := len(ops) - 1; i >= 0; i-- {
		if bytes.Equal(ops[i].key, k) {
			return true, ops[i].put, ops[i].val
		}
	}
	return false, false, nil
}

// VerifC11BatchOverlay: the uncommitted-write overlay of a write transaction (batch.Put/Delete/Get/
// GetNetPutsByPrefix) against a reference "last operation wins" list, for every sequence of up to 4
// operations over two (possibly equal) 2-byte keys and 1-byte values.
func VerifC11BatchOverlay() {
	b := c11NewBatch()
	keys := [2][]byte{rt.NondetBytes(2), rt.NondetBytes(2)}
	n := rt.NondetLen(0, 4)
	var ops []c11Op
	for i := 0; i < n; i++ {
		k := keys[0]
		if rt.NondetBool() {
			k = keys[1]
		}
		if rt.NondetBool() {
			v := rt.NondetBytes(1)
			b.Put(k, v)
			ops = append(ops, c11Op{put: true, key: k, val: v})
		} else {
			b.Delete(k)
			ops = append(ops, c11Op{put: false, key: k})
		}
	}
	probes := [3][]byte{keys[0], keys[1], rt.NondetBytes(2)}
	for _, p := range probes {
		v, deleted := b.Get(p)
		found, put, val := c11Last(ops, p)
		switch {
		case !found:
			rt.Assert(v == nil && !deleted, "untouched-key-reads-through")
		case put:
			rt.Assert(!deleted && bytes.Equal(v, val), "read-your-own-put")
		default:
			rt.Assert(deleted && v == nil, "read-your-own-delete")
		}
	}
	prefix := rt.NondetBytes(rt.NondetLen(0, 2))
	net := b.GetNetPutsByPrefix(prefix)
	want := 0
	for i, p := range keys {
		if i == 1 && bytes.Equal(keys[0], keys[1]) {
			continue
		}
		found, put, val := c11Last(ops, p)
		expect := found && put && bytes.HasPrefix(p, prefix)
		got, ok := net[string(p)]
		rt.Assert(ok == expect, "net-puts-membership")
		if ok && expect {
			rt.Assert(bytes.Equal(got, val), "net-puts-value")
		}
		if expect {
			want++
		}
	}
	rt.Assert(len(net) == want, "net-puts-nothing-else")
	rt.Reach("end")
}

func c11Name(maxLen int) string {
	n := rt.NondetLen(1, maxLen)
	s := string(rt.NondetBytes(n))
	rt.Assume(isValidBucketName(s))
	return s
}

func c11Top(name string) *levelBucket {
	p := joinBucketPath(topLevelBucketDepth, name)
	return &levelBucket{name: name, path: p, pathLen: len(p), depth: 1}
}

// c11Bucket: an arbitrary bucket of depth 1..3 reached through the real subBucket.
func c11Bucket() *levelBucket {
	b := c11Top(c11Name(2))
	d := rt.NondetLen(1, 3)
	for i := 1; i < d; i++ {
		sub, err := b.subBucket(c11Name(2))
		rt.Assert(err == nil, "sub-bucket-of-valid-name")
		b = sub
	}
	return b
}

func c11Key(lo int) []byte { return rt.NondetBytes(rt.NondetLen(lo, 3)) }

// VerifC11KeyIsolation: store keys of different buckets never collide, a bucket's keys never fall under
// another bucket's prefix (Clear / GetByPrefix / DeleteBucket range), and never collide with bucket-index
// keys.
func VerifC11KeyIsolation() {
	a, b := c11Bucket(), c11Bucket()
	ka, kb := c11Key(1), c11Key(1)
	ia, errA := a.innerKey(ka, false)
	ib, errB := b.innerKey(kb, false)
	rt.Assert(errA == nil && errB == nil, "non-empty-keys-accepted")
	if bytes.Equal(ia, ib) {
		rt.Assert(a.path == b.path && bytes.Equal(ka, kb), "store-key-injective")
	}
	// prefix of bucket b as used by Clear / deleteBucket
	pb := []byte(joinBucketPath(b.path, ""))
	if a.path != b.path {
		rt.Assert(!bytes.HasPrefix(ia, pb), "foreign-key-outside-bucket-range")
	}
	// GetByPrefix prefix of b with a user prefix
	up := c11Key(0)
	ipb, _ := b.innerKey(up, true)
	if bytes.HasPrefix(ia, ipb) {
		rt.Assert(a.path == b.path && bytes.HasPrefix(ka, up), "prefix-scan-exact")
	}
	// bucket index keys
	idx := []byte(joinBucketPath(bucketNameBucket, b.path))
	rt.Assert(!bytes.Equal(ia, idx), "data-key-is-not-an-index-key")
	rt.Assert(!bytes.HasPrefix(idx, []byte(joinBucketPath(a.path, ""))), "index-key-outside-bucket-range")
	// empty key refused
	_, errE := a.innerKey(nil, false)
	rt.Assert(errE != nil, "empty-key-refused")
	rt.Reach("end")
}

// VerifC11BatchIterator: iteration over the uncommitted puts in [start,limit) yields exactly the keys in
// range, each once, ascending.
func VerifC11BatchIterator() {
	b := c11NewBatch()
	n := rt.NondetLen(0, 3)
	var ks [][]byte
	for i := 0; i < n; i++ {
		k := rt.NondetBytes(2)
		for _, o := range ks {
			rt.Assume(!bytes.Equal(o, k))
		}
		ks = append(ks, k)
		b.Put(k, []byte{byte(i + 1)})
	}
	start, limit := rt.NondetBytes(2), rt.NondetBytes(2)
	it := newBatchIterator(b, start, limit)
	var got [][]byte
	for ok := it.Seek(start); ok; ok = it.Next() {
		got = append(got, it.Key())
		rt.Assume(len(got) <= 4)
	}
	want := 0
	for _, k := range ks {
		in := bytes.Compare(k, start) >= 0 && bytes.Compare(k, limit) < 0
		cnt := 0
		for _, g := range got {
			if bytes.Equal(g, k) {
				cnt++
			}
		}
		if in {
			rt.Assert(cnt == 1, "in-range-key-yielded-once")
			want++
		} else {
			rt.Assert(cnt == 0, "out-of-range-key-not-yielded")
		}
	}
	rt.Assert(len(got) == want, "nothing-else-yielded")
	for i := 1; i < len(got); i++ {
		rt.Assert(bytes.Compare(got[i-1], got[i]) < 0, "ascending")
	}
	rt.Reach("end")
}
