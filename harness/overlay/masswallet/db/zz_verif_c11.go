//go:build verif

package db

import (
	"bytes"

	rt "massnet.org/mass-wallet/zzverifrt"
)

// VerifC11BytesPrefix: Start <= k < Limit (nil Limit = +infinity) holds exactly for the keys that have the
// prefix.
func VerifC11BytesPrefix() {
	prefix := rt.NondetBytes(rt.NondetLen(0, 3))
	k := rt.NondetBytes(rt.NondetLen(0, 4))
	r := BytesPrefix(prefix)
	in := bytes.Compare(k, r.Start) >= 0 && (r.Limit == nil || bytes.Compare(k, r.Limit) < 0)
	rt.Assert(in == bytes.HasPrefix(k, prefix), "range-iff-prefix")
	rt.Reach("end")
}
