//go:build verif

package masswallet

import (
	"github.com/massnetorg/mass-core/massutil"
	"massnet.org/mass-wallet/config"
	"massnet.org/mass-wallet/masswallet/keystore"
	"massnet.org/mass-wallet/masswallet/txmgr"
	rt "massnet.org/mass-wallet/zzverifrt"
)

const c02CoinMax = 5000000000000000 // 4 coins stay below the maximum amount (2.06e16)

func c02Amt(v uint64) massutil.Amount {
	a, err := massutil.NewAmountFromUint(v)
	rt.Assert(err == nil, "amount-in-range")
	return a
}

func c02Coins(n int) ([]*txmgr.Credit, []uint64, uint64) {
	coins := make([]*txmgr.Credit, n)
	vals := make([]uint64, n)
	total := uint64(0)
	for i := 0; i < n; i++ {
		v := uint64(rt.NondetRange(1, c02CoinMax))
		c := &txmgr.Credit{Amount: c02Amt(v)}
		c.Index = uint32(i)
		coins[i] = c
		vals[i] = v
		total += v
	}
	return coins, vals, total
}

// VerifC02OptOutputs: greedy subset selection. For every multiset of 1..4 coin amounts and every target:
// the selection is a duplicate-free subset of the coins, the reported sum is the sum of the selection, it
// covers the target whenever the coins can, and otherwise it is every coin.
func VerifC02OptOutputs() {
	n := rt.NondetLen(1, 4)
	coins, vals, total := c02Coins(n)
	target := uint64(rt.NondetRange(0, 4*c02CoinMax))
	sel, sumSel, _, err := optOutputs(c02Amt(target), coins)
	rt.Assert(err == nil, "no-error-for-in-range-amounts")
	if target == 0 {
		rt.Assert(len(sel) == 0 && sumSel.IsZero(), "zero-target-selects-nothing")
		rt.Reach("end")
		return
	}
	var seen [4]bool
	sum := uint64(0)
	for _, c := range sel {
		idx := int(c.Index)
		rt.Assert(idx < n && !seen[idx], "selection-is-duplicate-free-subset")
		seen[idx] = true
		rt.Assert(c.Amount.UintValue() == vals[idx], "selected-coin-unchanged")
		sum += vals[idx]
	}
	rt.Assert(sumSel.UintValue() == sum, "reported-sum-is-sum-of-selection")
	if total >= target {
		rt.Assert(sum >= target, "sufficient-when-funds-suffice")
	} else {
		rt.Assert(len(sel) == n, "everything-selected-when-insufficient")
	}
	rt.Reach("end")
}

// VerifC02SubtractFee: equal fee shares for the chosen recipients.
func VerifC02SubtractFee() {
	names := []string{"a", "b", "c"}
	n := rt.NondetLen(1, 3)
	amounts := map[string]massutil.Amount{}
	old := map[string]uint64{}
	total := uint64(0)
	for i := 0; i < n; i++ {
		v := uint64(rt.NondetRange(1, c02CoinMax))
		amounts[names[i]] = c02Amt(v)
		old[names[i]] = v
		total += v
	}
	selected := map[string]struct{}{}
	k := 0
	for i := 0; i < n; i++ {
		if rt.NondetBool() {
			selected[names[i]] = struct{}{}
			k++
		}
	}
	unknown := rt.NondetBool()
	if unknown {
		selected["zz"] = struct{}{}
	}
	fee := uint64(rt.NondetRange(0, c02CoinMax))
	newAmounts, totalAndFee, err := maybeSubtractFeeFromAmounts(amounts, selected, c02Amt(fee))
	if unknown {
		rt.Assert(err == ErrUnknownSubfeefrom, "unknown-recipient-refused")
		rt.Reach("end")
		return
	}
	if k == 0 {
		rt.Assert(err == nil, "sender-pays-succeeds")
		rt.Assert(totalAndFee.UintValue() == total+fee, "sender-pays-total")
		for i := 0; i < n; i++ {
			rt.Assert(newAmounts[names[i]].UintValue() == old[names[i]], "sender-pays-amounts-unchanged")
		}
		rt.Reach("end")
		return
	}
	each := (fee + uint64(k) - 1) / uint64(k)
	under := false
	for i := 0; i < n; i++ {
		if _, ok := selected[names[i]]; ok && old[names[i]] < each {
			under = true
		}
	}
	rt.Assert((err != nil) == under, "error-iff-a-share-exceeds-its-amount")
	if err == nil {
		actual := each * uint64(k)
		rt.Assert(actual >= fee && actual < fee+uint64(k), "actual-fee-is-rounded-up-share-sum")
		sumNew := uint64(0)
		for i := 0; i < n; i++ {
			na := newAmounts[names[i]].UintValue()
			if _, ok := selected[names[i]]; ok {
				rt.Assert(na == old[names[i]]-each, "selected-reduced-by-equal-share")
			} else {
				rt.Assert(na == old[names[i]], "unselected-unchanged")
			}
			sumNew += na
		}
		rt.Assert(len(newAmounts) == n, "no-extra-outputs")
		rt.Assert(totalAndFee.UintValue() == sumNew+actual, "total-is-outputs-plus-fee")
	}
	rt.Reach("end")
}

// VerifC02TopK: the bounded selector keeps the k largest coins not exceeding the requirement plus the
// smallest coin exceeding it, each submitted coin at most once.
func VerifC02TopK() {
	k := rt.NondetLen(1, 3)
	req := uint64(rt.NondetRange(1, c02CoinMax))
	s := &topKSelector{k: k, base: make([]*txmgr.Credit, 0, k), requireAmt: c02Amt(req)}
	n := rt.NondetLen(0, 4)
	coins, vals, _ := c02Coins(n)
	for _, c := range coins {
		s.submit(c)
	}
	items := s.Items()
	var seen [4]bool
	kept := 0
	var guardVal uint64
	haveGuard := false
	for _, it := range items {
		idx := int(it.Index)
		rt.Assert(idx < n && !seen[idx], "each-coin-at-most-once")
		seen[idx] = true
		if vals[idx] > req {
			rt.Assert(!haveGuard, "single-guard")
			haveGuard, guardVal = true, vals[idx]
		} else {
			kept++
		}
	}
	small := 0
	for i := 0; i < n; i++ {
		if vals[i] <= req {
			small++
			if !seen[i] {
				// a dropped small coin is not larger than any kept small coin
				for j := 0; j < n; j++ {
					if seen[j] && vals[j] <= req {
						rt.Assert(vals[i] <= vals[j], "kept-are-the-largest")
					}
				}
			}
		} else {
			rt.Assert(haveGuard && guardVal <= vals[i], "guard-is-smallest-exceeding-coin")
		}
	}
	if small >= k {
		rt.Assert(kept == k, "k-kept-when-available")
	} else {
		rt.Assert(kept == small, "all-small-kept")
	}
	rt.Reach("end")
}

// ---- cut "coinSource": getUtxosExcludeBindingAndStaking (the coin source over the store is c02_eligible_coins);
// contract used here: it returns the offered coins as they are.
var c02Offered []*txmgr.Credit

func (w *WalletManager) getUtxosExcludeBindingAndStaking(stdAddresses []string, wantAmt massutil.Amount) ([]*txmgr.Credit, bool, error) {
	if !rt.CutActive("coinSource") {
		return w.getUtxosExcludeBindingAndStaking__real(stdAddresses, wantAmt)
	}
	return c02Offered, false, nil
}

// VerifC02ChangeAddress: what the real findEligibleUtxos tells its caller about change - the address the change output
// goes to when the request names none - is the address of the *first selected* coin, i.e. an address that owns an
// input of the transaction (the composition harnesses cut findEligibleUtxos to exactly this contract). 1..3 offered
// coins of arbitrary amounts on two addresses of the wallet in an arbitrary pattern, arbitrary requested amount.
func VerifC02ChangeAddress() {
	const wid = "ac10aaaaaaaaaaaaaaaaaaaaaaaaaaaaaaaaaaaaaa"
	ks := keystore.VerifNewManager(wid)
	hA, hB := make([]byte, 32), make([]byte, 32)
	hA[0], hB[0] = 0xaa, 0xbb
	keystore.VerifAddAddressWithHash(ks, wid, "address-A", hA)
	keystore.VerifAddAddressWithHash(ks, wid, "address-B", hB)
	w := &WalletManager{ksmgr: ks, chainParams: config.ChainParams}
	n := rt.NondetLen(1, 3)
	coins, _, _ := c02Coins(n)
	for _, c := range coins {
		c.ScriptHash = hA
		if rt.NondetBool() {
			c.ScriptHash = hB
		}
	}
	c02Offered = coins
	target := uint64(rt.NondetRange(1, 3*c02CoinMax))
	sel, first, _, _, err := w.findEligibleUtxos(c02Amt(target), []string{"address-A", "address-B"})
	rt.Assert(err == nil, "selection-succeeds")
	if err == nil && len(sel) > 0 {
		want := "address-A"
		if sel[0].ScriptHash[0] == 0xbb {
			want = "address-B"
		}
		rt.Assert(first == want, "default-change-address-is-the-address-of-the-first-input")
		rt.Reach("selected")
	}
	rt.Reach("end")
}
