//go:build verif

package ifc

import (
	"github.com/massnetorg/mass-core/database"
	"github.com/massnetorg/mass-core/wire"
	rt "massnet.org/mass-wallet/zzverifrt"
)

// c07Db: the node's transaction index: the occurrences of one transaction id on the best chain, lowest height first
// (what database.Db.FetchTxBySha returns).
type c07Db struct {
	database.Db
	rep []*database.TxReply
}

func (d *c07Db) FetchTxBySha(*wire.Hash) ([]*database.TxReply, error) { return d.rep, nil }

// VerifC07LastTxUntilHeight: the look-up the rescan uses to find the transaction an input spends
// (filterTxForImporting: "the parent as of this block") returns the latest occurrence of the id at or below the
// given height - in particular a parent mined in the very block being rescanned - and nothing when there is none.
func VerifC07LastTxUntilHeight() {
	n := rt.NondetLen(0, 3)
	d := &c07Db{}
	txs := make([]*wire.MsgTx, n)
	var prev uint64
	for i := 0; i < n; i++ {
		h := rt.NondetU64()
		if i > 0 {
			rt.Assume(h > prev) // occurrences are in different blocks, lowest first
		}
		prev = h
		txs[i] = wire.NewMsgTx()
		d.rep = append(d.rep, &database.TxReply{Tx: txs[i], Height: h})
	}
	height := rt.NondetU64()
	var id wire.Hash
	got, err := (&chainFetcher{db: d}).FetchLastTxUntilHeight(&id, height)
	rt.Assert(err == nil, "look-up-succeeds")
	var want *wire.MsgTx
	for i := 0; i < n; i++ {
		if d.rep[i].Height <= height {
			want = txs[i]
		}
	}
	rt.Assert(got == want, "latest-occurrence-at-or-below-the-height")
	rt.Reach("end")
}
