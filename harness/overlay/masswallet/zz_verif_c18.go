//go:build verif

package masswallet

import (
	"encoding/binary"

	"massnet.org/mass-wallet/config"
	"massnet.org/mass-wallet/masswallet/keystore"
	"massnet.org/mass-wallet/masswallet/txmgr"
	rt "massnet.org/mass-wallet/zzverifrt"
)

// VerifC18CreateWalletFault: WalletManager.CreateWallet on an empty manager with one storage fault at an
// arbitrary fallible storage call outside keystore creation (or none), keystore creation itself failing or
// not. A failed call leaves no trace: no cached keystore, no balance row, no status row; a successful one
// leaves exactly the new wallet in all three; repeating the failed call without a fault succeeds.
func VerifC18CreateWalletFault() {
	st := txmgr.VerifNewStoresWithKeystoreManager([]byte("DJr6BomK"))
	w := &WalletManager{config: &config.Config{Wallet: config.NewDefWalletConfig()}, db: st.DB, chainParams: config.ChainParams,
		ksmgr: st.Ks, bucketMeta: st.Meta, utxoStore: st.Utxo, txStore: st.Tx, syncStore: st.Sync}
	keystore.VerifNewKeystoreModel = true
	defer func() { keystore.VerifNewKeystoreModel = false }()
	st.DB.Calls = 0
	st.DB.FaultWrites = true
	st.DB.FaultAt = rt.NondetLen(0, 8)
	id, _, _, err := w.CreateWallet("81lUHXXd7O9xylj", "", 128)
	st.DB.FaultAt = 0
	names := w.ksmgr.ListKeystoreNames()
	if err != nil {
		rt.Assert(len(names) == 0, "failed-create-leaves-no-cached-keystore")
		rt.Assert(len(st.Bal.Ents) == 0 && len(st.WS.Ents) == 0, "failed-create-leaves-no-rows")
		rt.Reach("failed")
		// storage works again: the repetition succeeds (unless keystore creation itself fails again) and
		// ends in the state of a fault-free run
		id2, _, _, err2 := w.CreateWallet("81lUHXXd7O9xylj", "", 128)
		names = w.ksmgr.ListKeystoreNames()
		if err2 == nil {
			rt.Assert(len(names) == 1 && names[0] == id2, "repeated-create-leaves-exactly-the-new-wallet")
			rt.Assert(len(st.Bal.Ents) == 1 && string(st.Bal.Ents[0].K) == id2 && len(st.WS.Ents) == 1 && string(st.WS.Ents[0].K) == id2, "repeated-create-writes-its-rows-once")
			rt.Reach("repeated")
		} else {
			rt.Assert(len(names) == 0 && len(st.Bal.Ents) == 0 && len(st.WS.Ents) == 0, "second-failure-leaves-no-trace")
		}
	} else {
		rt.Assert(len(names) == 1 && names[0] == id, "created-wallet-is-the-only-cached-keystore")
		rt.Assert(len(st.Bal.Ents) == 1 && string(st.Bal.Ents[0].K) == id, "created-wallet-has-a-balance-row")
		rt.Assert(len(st.WS.Ents) == 1 && string(st.WS.Ents[0].K) == id, "created-wallet-has-a-status-row")
		rt.Reach("created")
	}
	rt.Reach("end")
}

// VerifC18ImportWalletFault: WalletManager.ImportWallet (keystore import cut to its contract; the imported wallet
// has no address with history, or one) with one storage fault at an arbitrary fallible call outside the
// keystore import, or none. A failed call leaves no cached keystore and no balance, status or address row and
// queues no rescan; a successful one leaves exactly the new wallet, ready when it has no history and otherwise
// importing with one rescan task queued.
func VerifC18ImportWalletFault() {
	st := txmgr.VerifNewStoresWithKeystoreManager([]byte("DJr6BomK"))
	w := &WalletManager{config: &config.Config{Wallet: config.NewDefWalletConfig()}, db: st.DB, chainParams: config.ChainParams,
		ksmgr: st.Ks, bucketMeta: st.Meta, utxoStore: st.Utxo, txStore: st.Tx, syncStore: st.Sync, chainFetcher: &c01Node{}}
	st.VerifSetSyncedChain([]txmgr.BlockMeta{{Height: 5}})
	h, herr := NewNtfnsHandler(w)
	rt.Assert(herr == nil && h != nil, "handler-created")
	w.ntfnsHandler = h
	keystore.VerifNewKeystoreModel = true
	defer func() { keystore.VerifNewKeystoreModel = false }()
	keystore.VerifImportAddresses = rt.NondetLen(0, 1)
	st.DB.Calls = 0
	st.DB.FaultWrites = true
	st.DB.FaultAt = rt.NondetLen(0, 10)
	sum, err := w.ImportWallet("{}", "81lUHXXd7O9xylj")
	st.DB.FaultAt = 0
	names := w.ksmgr.ListKeystoreNames()
	addrRows := st.Root.Sub("a").Ents
	if err != nil {
		rt.Assert(len(names) == 0, "failed-import-leaves-no-cached-keystore")
		rt.Assert(len(st.Bal.Ents) == 0 && len(st.WS.Ents) == 0 && len(addrRows) == 0, "failed-import-leaves-no-rows")
		rt.Assert(len(h.taskChan.C) == 0, "failed-import-queues-no-rescan")
		rt.Reach("failed")
	} else {
		rt.Assert(sum != nil && len(names) == 1 && names[0] == sum.WalletID, "imported-wallet-is-the-only-cached-keystore")
		rt.Assert(len(st.Bal.Ents) == 1 && len(st.WS.Ents) == 1 && string(st.WS.Ents[0].K) == sum.WalletID, "imported-wallet-has-its-rows")
		ready, rerr := w.CheckReady(sum.WalletID)
		rt.Assert(rerr == nil && ready == (keystore.VerifImportAddresses == 0), "ready-iff-nothing-to-rescan")
		want := 0
		if !ready {
			want = 1
		}
		rt.Assert(len(h.taskChan.C) == want, "one-rescan-task-iff-importing")
		rt.Reach("imported")
	}
	rt.Reach("end")
}

// VerifC18AsyncRemoveRetry: the background removal of a wallet (the real asyncRemove: wallet-keyed deletions, the
// sweep, DeleteWalletStatus, KeystoreManager.DeleteKeystore, and the cache repair after a failed last step) with the
// n-th storage call failing - writes and commits included - and then, as the worker does with a failed task, run
// again once storage works. A failed run reports an error; the repetition succeeds; and a run that reports
// completion has left nothing of the wallet - no keystore bucket, no account-id entry, no status row, no balance
// row, no cache entry. (DeleteKeystore evicts the wallet from the keystore cache inside the transaction; when the
// commit then fails the cache has to be rebuilt from the store, or the repetition finds no wallet and reports a
// removal that never happened.)
func VerifC18AsyncRemoveRetry() {
	s := c07Setup(0, 0)
	v := make([]byte, 9)
	binary.BigEndian.PutUint64(v, txmgr.WalletSyncedDone)
	v[8] = txmgr.WalletFlagsRemove
	s.st.WS.Set([]byte(c07Wallet), v)
	keystore.VerifInstallKeystore(s.st.Ks, s.st.Root, c07Wallet)
	// the wallet may be the one in use (UseWallet before RemoveWallet)
	inUse := rt.NondetBool()
	if inUse {
		keystore.VerifSetCurrent(s.st.Ks, c07Wallet)
	} else {
		keystore.VerifSetCurrent(s.st.Ks, "")
	}
	s.st.DB.Calls = 0
	s.st.DB.FaultWrites = true
	s.st.DB.FaultAt = rt.NondetLen(0, 40)
	err := s.h.asyncRemove(c07Wallet)
	faulted := s.st.DB.FaultAt != 0 && s.st.DB.Calls >= s.st.DB.FaultAt
	if faulted {
		rt.Assert(err != nil, "storage-fault-is-reported")
		rt.Reach("faulted")
	}
	if err != nil {
		rt.Assert(faulted, "no-error-without-a-fault")
		s.st.DB.FaultAt = 0
		rt.Assert(s.h.asyncRemove(c07Wallet) == nil, "repetition-of-a-failed-removal-succeeds")
	}
	rt.Assert(!keystore.VerifKeystoreStored(s.st.Root, c07Wallet), "finished-removal-left-no-keystore-in-the-store")
	rt.Assert(!keystore.VerifKeystoreCached(s.st.Ks, c07Wallet), "finished-removal-left-no-keystore-in-the-cache")
	rt.Assert(s.st.WS.Lookup([]byte(c07Wallet)) == nil, "finished-removal-left-no-status-row")
	rt.Assert(s.st.Bal.Lookup([]byte(c07Wallet)) == nil, "finished-removal-left-no-balance-row")
	// C19: a request that looks an address up in the wallet in use (ValidateAddress -> IsAddressInCurrent) is answered
	// with "no wallet in use" once the wallet in use has been removed - it does not crash on the evicted manager
	_, lerr := s.st.Ks.GetManagedAddressByScriptHashInCurrent(make([]byte, 32))
	rt.Assert(lerr != nil, "look-up-in-a-removed-wallet-in-use-is-refused")
	rt.Reach("end")
}
