//go:build verif

package masswallet

import (
	"massnet.org/mass-wallet/config"
	"massnet.org/mass-wallet/masswallet/keystore"
	"massnet.org/mass-wallet/masswallet/txmgr"
	rt "massnet.org/mass-wallet/zzverifrt"
)

// VerifC18CreateWalletFault: WalletManager.CreateWallet on an empty manager with one storage fault at an
// arbitrary fallible storage call outside keystore creation (or none), keystore creation itself failing or
// not. A failed call leaves no trace: no cached keystore, no balance row, no status row; a successful one
// leaves exactly the new wallet in all three; repeating the failed call without a fault succeeds.
func VerifC18CreateWalletFault() {
	st := txmgr.VerifNewStoresWithKeystoreManager([]byte("DJr6BomK"))
	w := &WalletManager{config: &config.Config{Wallet: config.NewDefWalletConfig()}, db: st.DB, chainParams: config.ChainParams,
		ksmgr: st.Ks, bucketMeta: st.Meta, utxoStore: st.Utxo, txStore: st.Tx, syncStore: st.Sync}
	keystore.VerifNewKeystoreModel = true
	defer func() { keystore.VerifNewKeystoreModel = false }()
	st.DB.Calls = 0
	st.DB.FaultWrites = true
	st.DB.FaultAt = rt.NondetLen(0, 8)
	id, _, _, err := w.CreateWallet("81lUHXXd7O9xylj", "", 128)
	st.DB.FaultAt = 0
	names := w.ksmgr.ListKeystoreNames()
	if err != nil {
		rt.Assert(len(names) == 0, "failed-create-leaves-no-cached-keystore")
		rt.Assert(len(st.Bal.Ents) == 0 && len(st.WS.Ents) == 0, "failed-create-leaves-no-rows")
		rt.Reach("failed")
		// storage works again: the repetition succeeds (unless keystore creation itself fails again) and
		// ends in the state of a fault-free run
		id2, _, _, err2 := w.CreateWallet("81lUHXXd7O9xylj", "", 128)
		names = w.ksmgr.ListKeystoreNames()
		if err2 == nil {
			rt.Assert(len(names) == 1 && names[0] == id2, "repeated-create-leaves-exactly-the-new-wallet")
			rt.Assert(len(st.Bal.Ents) == 1 && string(st.Bal.Ents[0].K) == id2 && len(st.WS.Ents) == 1 && string(st.WS.Ents[0].K) == id2, "repeated-create-writes-its-rows-once")
			rt.Reach("repeated")
		} else {
			rt.Assert(len(names) == 0 && len(st.Bal.Ents) == 0 && len(st.WS.Ents) == 0, "second-failure-leaves-no-trace")
		}
	} else {
		rt.Assert(len(names) == 1 && names[0] == id, "created-wallet-is-the-only-cached-keystore")
		rt.Assert(len(st.Bal.Ents) == 1 && string(st.Bal.Ents[0].K) == id, "created-wallet-has-a-balance-row")
		rt.Assert(len(st.WS.Ents) == 1 && string(st.WS.Ents[0].K) == id, "created-wallet-has-a-status-row")
		rt.Reach("created")
	}
	rt.Reach("end")
}
