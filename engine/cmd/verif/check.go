package main

import (
	"crypto/sha256"
	"encoding/hex"
	"encoding/json"
	"flag"
	"fmt"
	"go/parser"
	"go/token"
	"os"
	"os/exec"
	"path/filepath"
	"runtime"
	"sort"
	"strconv"
	"strings"
	"time"

	"verifeng/symex"
)

type KnownFinding struct {
	Property string `json:"property"`
	Harness  string `json:"harness"`
	Kind     string `json:"kind"`  // assert | panic
	Label    string `json:"label"` // assertion label, or panic site "file.go:line" / function name
	Status   string `json:"status"` // known | fixed
	Commit   string `json:"commit,omitempty"`
	What     string `json:"what"`
}

func loadKnown() []KnownFinding {
	b, err := os.ReadFile(filepath.Join(verifRoot, "known_findings.json"))
	if err != nil {
		return nil
	}
	var k struct {
		Findings []KnownFinding `json:"findings"`
	}
	if json.Unmarshal(b, &k) != nil {
		return nil
	}
	return k.Findings
}

func matchKnown(known []KnownFinding, prop, harness string, v symex.Violation) *KnownFinding {
	for i := range known {
		k := &known[i]
		if k.Status != "known" || k.Property != prop || k.Harness != harness || k.Kind != v.Kind {
			continue
		}
		if v.Kind == "assert" && k.Label == v.Label {
			return k
		}
		if v.Kind == "panic" && k.Label != "" && strings.Contains(v.Pos, k.Label) {
			return k
		}
	}
	return nil
}

type replayFile struct {
	Harness  string   `json:"harness"`
	Pkg      string   `json:"pkg"`
	Func     string   `json:"func"`
	Property string   `json:"property"`
	Kind     string   `json:"kind"`
	Label    string   `json:"label"`
	Pos      string   `json:"pos"`
	Values   []string `json:"values"`
	Names    []string `json:"names"`
	Cuts     []string `json:"cuts"`
	Digest   string   `json:"source_digest"`
}

// harnessFuncs lists the harness functions (Verif*) declared in overlay files of a package directory.
func harnessFuncs(pkgRel string) []string {
	dir := filepath.Join(verifRoot, "harness", "overlay", pkgRel)
	ents, _ := os.ReadDir(dir)
	var out []string
	for _, e := range ents {
		if !strings.HasSuffix(e.Name(), ".go") {
			continue
		}
		b, _ := os.ReadFile(filepath.Join(dir, e.Name()))
		for _, line := range strings.Split(string(b), "\n") {
			if strings.HasPrefix(line, "func Verif") && strings.Contains(line, "()") {
				name := strings.TrimPrefix(line, "func ")
				name = name[:strings.Index(name, "(")]
				out = append(out, name)
			}
		}
	}
	sort.Strings(out)
	return out
}

// writeOverlayJSON builds the `go build -overlay` file: harness overlay files plus a generated test driver
// for pkgRel. Returns the path of the json file and a cleanup function.
func writeOverlayJSON(pkgRel string) (string, func(), error) {
	tmp, err := os.MkdirTemp("", "verif-replay-")
	if err != nil {
		return "", nil, err
	}
	cleanup := func() { os.RemoveAll(tmp) }
	repl := map[string]string{}
	root := filepath.Join(verifRoot, "harness", "overlay")
	filepath.Walk(root, func(p string, info os.FileInfo, err error) error {
		if err == nil && !info.IsDir() && strings.HasSuffix(p, ".go") {
			rel, _ := filepath.Rel(root, p)
			repl[filepath.Join(repoRoot, rel)] = p
		}
		return nil
	})
	cov, err := cutOverlays()
	if err != nil {
		cleanup()
		return "", nil, err
	}
	n := 0
	for path, content := range cov {
		n++
		f := filepath.Join(tmp, fmt.Sprintf("cut%d_%s", n, filepath.Base(path)))
		if err := os.WriteFile(f, content, 0o644); err != nil {
			cleanup()
			return "", nil, err
		}
		repl[path] = f
	}
	pkgName, err := packageName(pkgRel)
	if err != nil {
		cleanup()
		return "", nil, err
	}
	var sb strings.Builder
	sb.WriteString("//go:build verif\n\npackage " + pkgName + "\n\nimport (\n\t\"fmt\"\n\t\"os\"\n\t\"testing\"\n\n\trt \"" + modulePath + "/zzverifrt\"\n)\n\n")
	sb.WriteString("var verifHarnesses = map[string]func(){\n")
	for _, f := range harnessFuncs(pkgRel) {
		sb.WriteString("\t\"" + f + "\": " + f + ",\n")
	}
	sb.WriteString("}\n\n")
	sb.WriteString(`func TestVerifReplay(t *testing.T) {
	name, err := rt.LoadReplay()
	if err != nil {
		t.Fatal(err)
	}
	h, ok := verifHarnesses[name]
	if !ok {
		t.Fatalf("no harness %s", name)
	}
	out := rt.RunNative(h)
	fmt.Fprintf(os.Stdout, "VERIF-REPLAY-OUTCOME %s\n", out)
	for _, o := range rt.Observed {
		fmt.Fprintf(os.Stdout, "VERIF-OBSERVE %s\n", o)
	}
	for l := range rt.Reached {
		fmt.Fprintf(os.Stdout, "VERIF-REACHED %s\n", l)
	}
	fmt.Fprintf(os.Stdout, "VERIF-DRAWS %d\n", rt.Draws())
}
`)
	drv := filepath.Join(tmp, "zz_verif_driver_test.go")
	if err := os.WriteFile(drv, []byte(sb.String()), 0o644); err != nil {
		cleanup()
		return "", nil, err
	}
	repl[filepath.Join(repoRoot, pkgRel, "zz_verif_driver_test.go")] = drv
	js, _ := json.Marshal(map[string]interface{}{"Replace": repl})
	ov := filepath.Join(tmp, "overlay.json")
	if err := os.WriteFile(ov, js, 0o644); err != nil {
		cleanup()
		return "", nil, err
	}
	return ov, cleanup, nil
}

func packageName(pkgRel string) (string, error) {
	ents, err := os.ReadDir(filepath.Join(repoRoot, pkgRel))
	if err != nil {
		return "", err
	}
	for _, e := range ents {
		if strings.HasSuffix(e.Name(), ".go") && !strings.HasSuffix(e.Name(), "_test.go") {
			f, err := parser.ParseFile(token.NewFileSet(), filepath.Join(repoRoot, pkgRel, e.Name()), nil, parser.PackageClauseOnly)
			if err == nil && f.Name != nil {
				return f.Name.Name, nil
			}
		}
	}
	return "", fmt.Errorf("no package clause found in %s", pkgRel)
}

// runReplay runs the native replay of one vector; returns outcome string ("ok","assume","assert:..","panic:..")
func runReplay(rf *replayFile, path string) (string, string, error) {
	ov, cleanup, err := writeOverlayJSON(rf.Pkg)
	if err != nil {
		return "", "", err
	}
	defer cleanup()
	cmd := exec.Command("go", "test", "-tags", "verif", "-vet=off", "-count=1", "-v", "-run", "^TestVerifReplay$", "-overlay", ov, "-timeout", "120s", ".")
	cmd.Dir = filepath.Join(repoRoot, rf.Pkg)
	cmd.Env = append(os.Environ(), "GOFLAGS=-mod=mod", "GOPROXY=off", "GOSUMDB=off", "GOTOOLCHAIN=local", "VERIF_REPLAY="+path)
	out, _ := cmd.CombinedOutput()
	txt := string(out)
	for _, l := range strings.Split(txt, "\n") {
		if strings.HasPrefix(l, "VERIF-REPLAY-OUTCOME ") {
			return strings.TrimPrefix(l, "VERIF-REPLAY-OUTCOME "), txt, nil
		}
	}
	// a crash that escaped RunNative (fatal error, os.Exit)
	if strings.Contains(txt, "panic:") || strings.Contains(txt, "fatal error:") {
		return "panic:uncaught", txt, nil
	}
	return "", txt, fmt.Errorf("replay produced no outcome:\n%s", tail(txt, 30))
}

func tail(s string, n int) string {
	ls := strings.Split(strings.TrimRight(s, "\n"), "\n")
	if len(ls) > n {
		ls = ls[len(ls)-n:]
	}
	return strings.Join(ls, "\n")
}

func reproduced(kind, label, outcome string) bool {
	if kind == "assert" {
		return outcome == "assert:"+label
	}
	return strings.HasPrefix(outcome, "panic:")
}

func cmdReplay(args []string) int {
	if len(args) < 1 {
		fmt.Fprintln(os.Stderr, "usage: verif replay <path>")
		return 2
	}
	b, err := os.ReadFile(args[0])
	if err != nil {
		fmt.Fprintln(os.Stderr, err)
		return 3
	}
	var rf replayFile
	if err := json.Unmarshal(b, &rf); err != nil {
		fmt.Fprintln(os.Stderr, err)
		return 3
	}
	outcome, txt, err := runReplay(&rf, args[0])
	if err != nil {
		fmt.Fprintln(os.Stderr, err)
		return 3
	}
	fmt.Printf("replay of %s (%s %q): outcome=%s\n", rf.Harness, rf.Kind, rf.Label, outcome)
	if reproduced(rf.Kind, rf.Label, outcome) {
		fmt.Printf("VIOLATION property=%s replay=%s\n", rf.Property, args[0])
		if len(args) > 1 && args[1] == "-v" {
			fmt.Println(tail(txt, 40))
		}
		return 1
	}
	return 0
}

type harnessEvidence struct {
	Name        string            `json:"harness"`
	Entry       string            `json:"entry"`
	Tier        string            `json:"tier"`
	Mode        string            `json:"mode"`
	Bounds      string            `json:"bounds"`
	Outside     string            `json:"outside_claim"`
	Unwind      int               `json:"unwind"`
	Cuts        []string          `json:"cuts,omitempty"`
	Redirect    map[string]string `json:"redirect,omitempty"`
	Stubs       []string          `json:"stubs,omitempty"`
	Assumes     []string          `json:"assumptions,omitempty"`
	Paths       int               `json:"paths"`
	Ends        map[string]int    `json:"path_ends"`
	Decisions   int               `json:"decisions"`
	Obligations int               `json:"obligations"`
	Discharged  int               `json:"discharged"`
	Trivial     int               `json:"discharged_by_constant_folding"`
	SecretSinks int               `json:"text_sink_operands_examined_for_secrets,omitempty"`
	SecretFlows int               `json:"text_sink_operands_mentioning_a_secret,omitempty"`
	Violations  int               `json:"counterexamples"`
	Reached     map[string]int    `json:"witnesses_reached"`
	Queries     int               `json:"solver_queries"`
	SolverSec   float64           `json:"solver_seconds"`
	MaxQuerySec float64           `json:"max_query_seconds"`
	WallSec     float64           `json:"wall_seconds"`
	Solver      string            `json:"solver"`
	Funcs       map[string]string `json:"functions_encoded"`
	Samples     []string          `json:"sample_paths"`
	Notes       []string          `json:"notes,omitempty"`
	Validation  *validationStats  `json:"translator_validation,omitempty"`
}

func cmdCheck(args []string) int {
	t0 := time.Now()
	if len(args) < 1 {
		fmt.Fprintln(os.Stderr, "usage: verif check <ID> [--tier quick|thorough]")
		return 2
	}
	id := args[0]
	fs := flag.NewFlagSet("check", flag.ExitOnError)
	tier := fs.String("tier", "", "quick|thorough")
	only := fs.String("only", "", "comma-separated harness names")
	noReplay := fs.Bool("no-replay", false, "skip native replays")
	workers := fs.Int("workers", runtime.NumCPU(), "workers")
	nwit := fs.Int("witnesses", -1, "solver-chosen path inputs per harness that are run natively (translator validation); default 6 quick, 24 thorough")
	fs.Parse(args[1:])
	if s := os.Getenv("VERIF_WITNESSES"); s != "" && *nwit < 0 {
		*nwit, _ = strconv.Atoi(s)
	}
	if *tier == "" {
		*tier = os.Getenv("VERIF_TIER")
	}
	if *tier == "" {
		*tier = "quick"
	}
	seed := 0
	if s := os.Getenv("VERIF_SEED"); s != "" {
		seed, _ = strconv.Atoi(s)
	}
	reg, err := loadRegistry()
	if err != nil {
		fmt.Println("INCONCLUSIVE", err)
		return 3
	}
	var hs []Harness
	onlySet := map[string]bool{}
	for _, o := range strings.Split(*only, ",") {
		if o != "" {
			onlySet[o] = true
		}
	}
	for _, h := range reg.Harnesses {
		if h.Property != id {
			continue
		}
		if len(onlySet) > 0 && !onlySet[h.Name] {
			continue
		}
		if h.Tier == "thorough" && *tier != "thorough" {
			continue
		}
		hs = append(hs, h)
	}
	if len(hs) == 0 && !(id == "C17" && onlySet["c17_race_bmc"]) && !(id == "C20" && onlySet["c20_sync_bmc"]) {
		fmt.Printf("INCONCLUSIVE no harness registered for %s\n", id)
		return 3
	}
	var pkgs []string
	for _, h := range hs {
		pkgs = append(pkgs, h.Pkg)
	}
	prog, err := loadProgram(pkgs)
	if err != nil {
		fmt.Println("INCONCLUSIVE harness does not load against the current tree:", err)
		writeEvidence(id, *tier, seed, nil, 0, 0, []string{"load failure: " + err.Error()}, time.Since(t0).Seconds(), 0)
		return 3
	}
	loadSec := time.Since(t0).Seconds()
	known := loadKnown()
	var evs []harnessEvidence
	var inconclusive []string
	violations := 0
	replays := 0
	if *nwit < 0 {
		*nwit = 6
		if *tier == "thorough" {
			*nwit = 24
		}
	}
	var wjobs []witnessJob
	if *nwit > 0 && !*noReplay {
		prebuildTestBinaries(pkgs)
	}
	for _, h := range hs {
		entry := prog.FindFunc(modulePath + "/" + h.Pkg + "." + h.Func)
		if entry == nil {
			inconclusive = append(inconclusive, "harness function not found: "+h.Pkg+"."+h.Func)
			continue
		}
		opts := symex.ExploreOpts{Workers: *workers, MaxPaths: h.MaxPaths}
		if h.Workers > 0 && h.Workers < opts.Workers {
			opts.Workers = h.Workers
		}
		opts.TimeoutMs = 180000 // generous: a loaded machine must not turn a slow query into an inconclusive check
		if *tier == "thorough" {
			opts.TimeoutMs = 180000 // generous: a loaded machine must not turn a slow query into an inconclusive check0
		}
		if h.TimeoutS > 0 {
			opts.TimeoutMs = h.TimeoutS * 1000
		}
		if h.Solver != "" {
			opts.SolverCmd = strings.Fields(h.Solver)
		}
		cfg := h.config()
		if *nwit > 0 && (len(h.ScaleConsts) == 0 || h.RedirectFaithful) && !*noReplay {
			// (harnesses that run with scaled-down constants under the executor have no native counterpart of a path)
			cfg.Witness = symex.NewWitnessSink(*nwit)
		}
		res := symex.Explore(prog, entry, cfg, opts)
		fmt.Fprintln(os.Stderr, res.Summary())
		if cfg.Witness != nil {
			for _, w := range cfg.Witness.W {
				wjobs = append(wjobs, witnessJob{h: h, w: w})
			}
		}
		ev := harnessEvidence{Name: h.Name, Entry: res.Entry, Tier: h.Tier, Mode: h.Mode, Bounds: h.Bounds, Outside: h.Outside, Unwind: h.Unwind,
			Cuts: h.Cuts, Redirect: h.Redirect, Stubs: h.Stubs, Assumes: h.Assumes, Paths: res.Paths, Ends: res.Ends, Decisions: res.Decisions,
			Obligations: res.Obligations, Discharged: res.Discharged, Trivial: res.Trivial, SecretSinks: res.SecretSinks, SecretFlows: res.SecretFlows, Violations: len(res.Violations), Reached: res.Reached,
			Queries: res.Queries, SolverSec: round2(res.SolverSec), MaxQuerySec: round2(res.MaxQuerySec), WallSec: round2(res.WallSec), Solver: res.Solver, Funcs: repoFuncs(res), Samples: res.SamplePaths}
		for _, inc := range res.Inconclusive() {
			inconclusive = append(inconclusive, h.Name+": "+inc)
		}
		for _, w := range append([]string{"end"}, h.Reach...) {
			if res.Reached[w] == 0 {
				inconclusive = append(inconclusive, fmt.Sprintf("%s: witness %q not reachable (vacuous harness?)", h.Name, w))
			}
		}
		// counterexamples: dedupe by kind/label/pos, replay each, then classify
		type cexRec struct {
			v       symex.Violation
			rpath   string
			outcome string
			repro   bool
			err     error
		}
		var cexs []*cexRec
		var retryRes *symex.HarnessResult
		seen := map[string]bool{}
		for _, v := range res.Violations {
			key := v.Kind + "|" + v.Label + "|" + v.Pos
			if seen[key] {
				continue
			}
			seen[key] = true
			if (len(v.Model) == 0 && len(v.Nondets) > 0) || (len(v.Model) > 0 && strings.HasPrefix(v.Model[0], "error")) {
				inconclusive = append(inconclusive, fmt.Sprintf("%s: counterexample without model for %s %q", h.Name, v.Kind, v.Label))
				continue
			}
			rf := &replayFile{Harness: h.Func, Pkg: h.Pkg, Func: h.Func, Property: id, Kind: v.Kind, Label: v.Label, Pos: v.Pos, Values: v.Model, Names: v.Nondets, Cuts: h.Cuts}
			js, _ := json.MarshalIndent(rf, "", " ")
			sum := sha256.Sum256(js)
			os.MkdirAll(filepath.Join(verifRoot, "replays"), 0o755)
			c := &cexRec{v: v, rpath: filepath.Join(verifRoot, "replays", fmt.Sprintf("%s-%s-%s.json", id, h.Name, hex.EncodeToString(sum[:4])))}
			os.WriteFile(c.rpath, js, 0o644)
			if *noReplay {
				c.repro, c.outcome = true, "not replayed"
			} else {
				c.outcome, _, c.err = runReplay(rf, c.rpath)
				replays++
				c.repro = c.err == nil && reproduced(v.Kind, v.Label, c.outcome)
			}
			cexs = append(cexs, c)
		}
		anyRepro := false
		for _, c := range cexs {
			if c.repro {
				anyRepro = true
			}
		}
		for _, c := range cexs {
			v := c.v
			switch {
			case c.err != nil:
				inconclusive = append(inconclusive, fmt.Sprintf("%s: replay failed: %v", h.Name, c.err))
			case c.repro:
				ev.Notes = append(ev.Notes, fmt.Sprintf("counterexample reproduced natively: %s %q at %s values=%v outcome=%s", v.Kind, v.Label, v.Pos, v.Model, c.outcome))
				if kf := matchKnown(known, id, h.Name, v); kf != nil {
					fmt.Printf("KNOWN-FINDING: property=%s %s\n", id, kf.What)
				} else {
					fmt.Printf("VIOLATION property=%s replay=%s\n", id, c.rpath)
					fmt.Printf("  harness=%s %s %q at %s values=%v\n", h.Name, v.Kind, v.Label, v.Pos, v.Model)
					violations++
				}
			case v.UsesUF && anyRepro:
				// depends on the values of an uninterpreted function (hash/curve); the same harness already has a
				// natively reproduced counterexample, so this one is recorded but decides nothing
				ev.Notes = append(ev.Notes, fmt.Sprintf("UNCONFIRMED-CEX (depends on uninterpreted hash/curve values; native outcome %s): %s %q", c.outcome, v.Kind, v.Label))
				fmt.Fprintf(os.Stderr, "UNCONFIRMED-CEX harness=%s %s %q (native outcome %s)\n", h.Name, v.Kind, v.Label, c.outcome)
			default:
				if !v.UsesUF {
					// A counterexample without uninterpreted symbols that the real build does not reproduce means the
					// symbolic run and the native run disagree. Before giving up, explore the harness once more: an
					// exploration glitch (seen once, c02_topk on a saturated machine, never reproduced) does not repeat,
					// a wrong encoding does. Only a clean second exploration without this counterexample discards it.
					if retryRes == nil {
						retryRes = symex.Explore(prog, entry, h.config(), opts)
					}
					again := len(retryRes.Inconclusive()) > 0
					for _, v2 := range retryRes.Violations {
						if v2.Kind == v.Kind && v2.Label == v.Label && v2.Pos == v.Pos {
							again = true
						}
					}
					if !again {
						note := fmt.Sprintf("DISCARDED-CEX: %s %q at %s (values %v) was not reproduced natively (outcome %s) and a second exploration of the harness (%d paths, %d obligations, all discharged) does not contain it", v.Kind, v.Label, v.Pos, v.Model, c.outcome, retryRes.Paths, retryRes.Obligations)
						ev.Notes = append(ev.Notes, note)
						fmt.Fprintln(os.Stderr, note)
						break
					}
				}
				tag := "SPURIOUS-CEX"
				if v.UsesUF {
					tag = "UNCONFIRMED-CEX"
				}
				fmt.Printf("%s harness=%s %s %q at %s: native outcome %q (values %v)\n", tag, h.Name, v.Kind, v.Label, v.Pos, c.outcome, v.Model)
				inconclusive = append(inconclusive, fmt.Sprintf("%s: counterexample for %s %q did not reproduce natively (outcome %s)", h.Name, v.Kind, v.Label, c.outcome))
			}
		}
		evs = append(evs, ev)
	}
	// translator validation: solver-chosen inputs of finished paths, run natively
	vstats, vinc, vfails := validateWitnesses(id, wjobs)
	inconclusive = append(inconclusive, vinc...)
	for i := range evs {
		if st := vstats[evs[i].Name]; st != nil {
			evs[i].Validation = st
			replays += st.Witnesses
		}
	}
	for _, f := range vfails {
		if kf := matchKnown(known, id, f.h.Name, f.v); kf != nil {
			fmt.Printf("KNOWN-FINDING: property=%s %s\n", id, kf.What)
			continue
		}
		fmt.Printf("VIOLATION property=%s replay=%s\n", id, f.rpath)
		fmt.Printf("  harness=%s native run of a solver-chosen path input fails: %s values=%v\n", f.h.Name, f.outcome, f.v.Model)
		violations++
	}
	if id == "C17" && (len(onlySet) == 0 || onlySet["c17_race_bmc"]) {
		// second sentence of the property: data races on the handler's shared fields (skeleton BMC, racebmc.go)
		rr := checkRaces(id, *tier)
		violations += rr.Violations
		inconclusive = append(inconclusive, rr.Inconclusive...)
		extraCoverage = map[string]interface{}{"race_bmc": rr.Coverage}
		extraAssumptions = rr.Assumptions
	}
	if id == "C20" && (len(onlySet) == 0 || onlySet["c20_sync_bmc"]) {
		// the deadlock half of the property: synchronisation-skeleton model check (syncbmc.go)
		v, inc, cov, as := checkC20core(*tier, seed, t0)
		violations += v
		inconclusive = append(inconclusive, inc...)
		extraCoverage = map[string]interface{}{"sync_bmc": cov}
		extraAssumptions = as
	}
	wall := time.Since(t0).Seconds()
	writeEvidence(id, *tier, seed, evs, replays, loadSec, inconclusive, wall, violations)
	for _, inc := range inconclusive {
		fmt.Println("INCONCLUSIVE", inc)
	}
	if violations > 0 {
		return 1
	}
	if len(inconclusive) > 0 {
		return 3
	}
	tot, dis := 0, 0
	for _, e := range evs {
		tot += e.Obligations
		dis += e.Discharged
	}
	fmt.Printf("OK property=%s tier=%s harnesses=%d obligations=%d discharged=%d wall=%.1fs\n", id, *tier, len(evs), tot, dis, wall)
	return 0
}

func round2(f float64) float64 { return float64(int(f*100+0.5)) / 100 }

// repoFuncs keeps functions of the wallet module and of mass-core (the code under test), with source digests.
func repoFuncs(res *symex.HarnessResult) map[string]string {
	out := map[string]string{}
	for _, f := range res.Funcs {
		if strings.Contains(f, "massnet.org/mass-wallet") || strings.Contains(f, "massnetorg/mass-core") {
			if strings.Contains(f, ".init") || strings.Contains(f, "zzverifrt") {
				continue
			}
			out[f] = res.FuncDigests[f]
		}
	}
	return out
}

// filled by checks that add a second engine's results to the evidence of a property (C17: race BMC)
var extraCoverage map[string]interface{}
var extraAssumptions []string

func writeEvidence(id, tier string, seed int, evs []harnessEvidence, replays int, loadSec float64, inconclusive []string, wall float64, violations int) {
	states, trans, obl, dis, queries := 0, 0, 0, 0, 0
	solverSec := 0.0
	var samples []interface{}
	var assumptions []string
	bounds := []string{}
	for _, e := range evs {
		states += e.Paths
		trans += e.Decisions
		obl += e.Obligations
		dis += e.Discharged
		queries += e.Queries
		solverSec += e.SolverSec
		for i, s := range e.Samples {
			if i < 2 {
				samples = append(samples, map[string]string{"harness": e.Name, "path": s})
			}
		}
		bounds = append(bounds, e.Name+": "+e.Bounds)
		for _, a := range e.Assumes {
			assumptions = append(assumptions, e.Name+": "+a)
		}
		for _, s := range e.Stubs {
			assumptions = append(assumptions, e.Name+": stub "+s)
		}
		for _, c := range e.Cuts {
			assumptions = append(assumptions, e.Name+": cut "+c)
		}
		if e.Outside != "" {
			assumptions = append(assumptions, e.Name+": outside the claim: "+e.Outside)
		}
	}
	if len(samples) == 0 {
		samples = append(samples, "no path completed")
	}
	assumptions = append(assumptions,
		"the z3 build in use (5.1.0 `z3-new`, or 4.8.12) is sound on the emitted SMT-LIB2 (unknown/timeout/error are reported as inconclusive, never as held)",
		"the go/ssa (x/tools v0.29.0) form of the current source is what the compiler builds; engine intrinsics for stdlib leaves (bytealg, math/big, hashes as uninterpreted functions) are faithful",
		"results hold only inside the stated bounds")
	if states == 0 {
		states = 1
	}
	if trans == 0 {
		trans = 1
	}
	ev := map[string]interface{}{
		"property_id": id, "tier": tier, "seed": seed, "level": "model_checking",
		"coverage": map[string]interface{}{
			"states": states, "transitions": trans, "traces_validated_against_impl": replays, "samples": samples,
			"obligations": obl, "discharged": dis, "solver_queries": queries, "solver_seconds": round2(solverSec),
			"solver": "per harness: z3 4.8.12 (/usr/bin/z3) for int-mode harnesses, z3 5.1.0 (z3-new) for bit-vector harnesses; one live process per worker, push/pop", "bounds": bounds, "harnesses": evs,
			"inconclusive": inconclusive, "package_load_seconds": round2(loadSec),
			"explanation": "states = feasible symbolic paths explored to completion; transitions = symbolic branch/choice decisions; every obligation (assertion or implicit run-time panic check) was put to the solver as path-condition AND NOT obligation",
		},
		"assumptions": assumptions, "wall_s": round2(wall), "violations": violations,
	}
	for k, v := range extraCoverage {
		ev["coverage"].(map[string]interface{})[k] = v
	}
	if len(extraAssumptions) > 0 {
		ev["assumptions"] = append(assumptions, extraAssumptions...)
	}
	js, _ := json.MarshalIndent(ev, "", " ")
	os.MkdirAll(evidenceDir(), 0o755)
	os.WriteFile(filepath.Join(evidenceDir(), id+".json"), js, 0o644)
}


// evidenceDir: /verif/evidence; the development override VERIF_EVIDENCE_DIR keeps runs against scratch worktrees
// (seeded changes) from overwriting the evidence of the real tree.
func evidenceDir() string {
	if d := os.Getenv("VERIF_EVIDENCE_DIR"); d != "" {
		return d
	}
	return filepath.Join(verifRoot, "evidence")
}
