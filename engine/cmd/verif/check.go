package main

func cmdCheck(args []string) int  { return 3 }
func cmdReplay(args []string) int { return 3 }
