package main

import (
	"encoding/json"
	"fmt"
	"go/token"
	"go/types"
	"os"
	"os/exec"
	"path/filepath"
	"regexp"
	"sort"
	"strconv"
	"strings"
	"time"

	"golang.org/x/tools/go/ssa"
)

// raceCfg: which memory the race check tracks – the plain (non-channel, non-sync) fields of one struct type
// shared by the goroutines of the skeleton – and which of its fields are mutexes. A nil *raceCfg means the
// builder runs in its C20 form (no access or lock actions).
type raceCfg struct {
	named   *types.Named
	tracked map[string]bool
	mutexes map[string]bool
	written map[string]bool // fields written by some function reachable from the goroutine roots (nil = not computed)
}

// computeWritten: fields with at least one write in the functions reachable from the roots.
func (rc *raceCfg) computeWritten(roots []*ssa.Function) {
	seen := map[*ssa.Function]bool{}
	w := map[string]bool{}
	var visit func(f *ssa.Function)
	visit = func(f *ssa.Function) {
		if f == nil || seen[f] {
			return
		}
		seen[f] = true
		for _, b := range f.Blocks {
			for _, ins := range b.Instrs {
				if fa, ok := ins.(*ssa.FieldAddr); ok {
					if n := rc.fieldOf(fa); n != "" && rc.tracked[n] && writesThrough(fa, 0) {
						w[n] = true
					}
				}
				if c, ok := ins.(ssa.CallInstruction); ok {
					for _, a := range c.Common().Args {
						if mc, ok := a.(*ssa.MakeClosure); ok {
							visit(mc.Fn.(*ssa.Function))
						}
					}
				}
			}
		}
		for _, c := range staticCallees(f) {
			visit(c)
		}
	}
	for _, r := range roots {
		visit(r)
	}
	rc.written = w
}

func newRaceCfg(pkg *ssa.Package, typeName string) *raceCfg {
	t := pkg.Type(typeName)
	if t == nil {
		return nil
	}
	named, ok := t.Type().(*types.Named)
	if !ok {
		return nil
	}
	st, ok := named.Underlying().(*types.Struct)
	if !ok {
		return nil
	}
	rc := &raceCfg{named: named, tracked: map[string]bool{}, mutexes: map[string]bool{}}
	for i := 0; i < st.NumFields(); i++ {
		f := st.Field(i)
		ts := f.Type().String()
		switch {
		case ts == "sync.Mutex" || ts == "sync.RWMutex":
			rc.mutexes[f.Name()] = true
		case ts == "sync.WaitGroup":
		default:
			if _, isChan := f.Type().Underlying().(*types.Chan); isChan {
				continue
			}
			rc.tracked[f.Name()] = true
		}
	}
	return rc
}

func (rc *raceCfg) fieldOf(fa *ssa.FieldAddr) string {
	if rc == nil {
		return ""
	}
	pt, ok := fa.X.Type().Underlying().(*types.Pointer)
	if !ok {
		return ""
	}
	n, ok := pt.Elem().(*types.Named)
	if !ok || n.Obj() != rc.named.Obj() {
		return ""
	}
	return n.Underlying().(*types.Struct).Field(fa.Field).Name()
}

// mutexOp: "lock"/"unlock" and the mutex field when the call is Lock/Unlock (RLock/RUnlock are treated as
// Lock/Unlock: stricter than needed for read-read, which is never reported anyway) on a tracked struct's mutex.
func (rc *raceCfg) mutexOp(c *ssa.CallCommon) (string, string) {
	if rc == nil {
		return "", ""
	}
	f := c.StaticCallee()
	if f == nil || len(c.Args) == 0 {
		return "", ""
	}
	op := ""
	switch f.String() {
	case "(*sync.Mutex).Lock", "(*sync.RWMutex).Lock", "(*sync.RWMutex).RLock":
		op = "lock"
	case "(*sync.Mutex).Unlock", "(*sync.RWMutex).Unlock", "(*sync.RWMutex).RUnlock":
		op = "unlock"
	default:
		return "", ""
	}
	fa, ok := c.Args[0].(*ssa.FieldAddr)
	if !ok {
		return "", ""
	}
	name := rc.fieldOf(fa)
	if name == "" || !rc.mutexes[name] {
		return "", ""
	}
	return op, name
}

// access: tracked field and "w"/"r" for a field address; a write is a store through the address (or a nested
// field/element of it), or an update/delete of the map loaded from it.
func (rc *raceCfg) access(fa *ssa.FieldAddr) (string, string) {
	name := rc.fieldOf(fa)
	if name == "" || !rc.tracked[name] {
		return "", ""
	}
	if rc.written != nil && !rc.written[name] {
		return "", "" // never written by any goroutine of the model: reads alone cannot race
	}
	if writesThrough(fa, 0) {
		return name, "w"
	}
	return name, "r"
}

func writesThrough(v ssa.Value, depth int) bool {
	if depth > 6 || v.Referrers() == nil {
		return false
	}
	for _, r := range *v.Referrers() {
		switch x := r.(type) {
		case *ssa.Store:
			if x.Addr == v {
				return true
			}
		case *ssa.FieldAddr:
			if x.X == v && writesThrough(x, depth+1) {
				return true
			}
		case *ssa.IndexAddr:
			if x.X == v && writesThrough(x, depth+1) {
				return true
			}
		case *ssa.UnOp:
			if x.Op == token.MUL && x.X == v {
				if _, isMap := x.Type().Underlying().(*types.Map); isMap && mapMutated(x) {
					return true
				}
			}
		}
	}
	return false
}

func mapMutated(m ssa.Value) bool {
	if m.Referrers() == nil {
		return false
	}
	for _, r := range *m.Referrers() {
		switch x := r.(type) {
		case *ssa.MapUpdate:
			if x.Map == m {
				return true
			}
		case *ssa.Call:
			if b, ok := x.Call.Value.(*ssa.Builtin); ok && b.Name() == "delete" && len(x.Call.Args) > 0 && x.Call.Args[0] == m {
				return true
			}
		}
	}
	return false
}

// opsIn: the function touches tracked memory or a tracked mutex.
func (rc *raceCfg) opsIn(fn *ssa.Function) bool {
	if rc == nil {
		return false
	}
	for _, b := range fn.Blocks {
		for _, ins := range b.Instrs {
			switch x := ins.(type) {
			case *ssa.FieldAddr:
				if f, _ := rc.access(x); f != "" {
					return true
				}
			case *ssa.Call:
				if op, _ := rc.mutexOp(&x.Call); op != "" {
					return true
				}
			case *ssa.Defer:
				if op, _ := rc.mutexOp(&x.Call); op != "" {
					return true
				}
			}
		}
	}
	return false
}

func accField(ch string) (string, bool) {
	i := strings.LastIndex(ch, ":")
	if i < 0 {
		return ch, false
	}
	return ch[:i], ch[i+1:] == "w"
}

// ---------- driver: data races on the handler's shared fields (C17, second sentence) ----------

type raceResult struct {
	Violations   int
	Inconclusive []string
	Coverage     map[string]interface{}
	Assumptions  []string
}

type raceFinding struct {
	field, ppos, qpos, pname, qname string
	pw, qw                         bool
	trace                          []string
}

func (f raceFinding) label() string {
	a, b := strings.Fields(f.ppos)[0], strings.Fields(f.qpos)[0]
	if a > b {
		a, b = b, a
	}
	return f.field + ":" + a + "~" + b
}

func checkRaces(id, tier string) *raceResult {
	t0 := time.Now()
	res := &raceResult{Coverage: map[string]interface{}{}}
	prog, err := loadProgram([]string{"masswallet"})
	if err != nil {
		res.Inconclusive = append(res.Inconclusive, "race check: "+err.Error())
		return res
	}
	pkg := prog.Pkgs[modulePath+"/masswallet"]
	rc := newRaceCfg(pkg, "NtfnsHandler")
	if rc == nil {
		res.Inconclusive = append(res.Inconclusive, "race check: type NtfnsHandler not found")
		return res
	}
	rel := computeRelevantRace(pkg, rc)
	var tracked, mutexes []string
	for f := range rc.tracked {
		tracked = append(tracked, f)
	}
	for f := range rc.mutexes {
		mutexes = append(mutexes, f)
	}
	sort.Strings(tracked)
	sort.Strings(mutexes)
	roots := map[string][]*ssa.Function{"follower": {pkg.Func("handle")}, "worker": {pkg.Func("worker")}}
	if wm := pkg.Type("WalletManager"); wm != nil {
		if sel := prog.Prog.MethodSets.MethodSet(types.NewPointer(wm.Type())).Lookup(pkg.Pkg, "Stop"); sel != nil {
			roots["stop"] = []*ssa.Function{prog.Prog.MethodValue(sel)}
		}
	}
	// API goroutine: one call of an exported handler method that touches tracked memory or the queues
	var apiNames []string
	ms := prog.Prog.MethodSets.MethodSet(types.NewPointer(rc.named))
	for i := 0; i < ms.Len(); i++ {
		fn := prog.Prog.MethodValue(ms.At(i))
		if fn == nil || !fn.Object().Exported() || fn.Name() == "Start" || fn.Name() == "Stop" || !rel[fn] {
			continue
		}
		roots["api"] = append(roots["api"], fn)
		apiNames = append(apiNames, fn.Name())
	}
	for _, n := range []string{"follower", "worker", "stop", "api"} {
		if len(roots[n]) == 0 || roots[n][0] == nil {
			res.Inconclusive = append(res.Inconclusive, "race check: no root for "+n)
		}
	}
	if len(res.Inconclusive) > 0 {
		return res
	}
	var allRoots []*ssa.Function
	for _, rs := range roots {
		allRoots = append(allRoots, rs...)
	}
	rc.computeWritten(allRoots)
	rel = computeRelevantRace(pkg, rc)
	caps, _ := chanCaps(pkg)
	model := &bmcModel{caps: caps, pcBits: 12}
	var skeleton []string
	states, trans := 0, 0
	for _, n := range []string{"follower", "worker", "stop", "api"} {
		p, lines := buildProcRace(prog, rel, n, roots[n], rc)
		raw := p.N
		epsClosure(p)
		fmt.Fprintf(os.Stderr, "racebmc: %s: %d nodes before the tau closure\n", n, raw)
		model.procs = append(model.procs, p)
		skeleton = append(skeleton, lines...)
		states += p.N
		trans += len(p.Edges)
		fmt.Fprintf(os.Stderr, "racebmc: %s automaton: %d nodes, %d edges notes=%v\n", n, p.N, len(p.Edges), p.Notes)
		for _, note := range p.Notes {
			if strings.Contains(note, "budget") || strings.Contains(note, "fell off") || strings.Contains(note, "depth cut") {
				res.Inconclusive = append(res.Inconclusive, "race check: "+n+": "+note)
			}
		}
		if p.N >= 4096 {
			res.Inconclusive = append(res.Inconclusive, "race check: "+n+" automaton exceeds the program-counter width")
		}
	}
	model.procs = append(model.procs, envProc(1, 1))
	k := 14
	if tier == "thorough" {
		k = 20
	}
	script, labels := model.smt(k, 1, 1)
	fmt.Fprintf(os.Stderr, "racebmc: k=%d, %d labels, %d conflicting access pairs, script %d bytes\n", k, len(labels), len(model.conflicts), len(script))
	if os.Getenv("VERIF_DEBUG") != "" {
		cls := map[string]int{}
		for _, c := range model.conflicts {
			cls[raceFinding{field: c.field, ppos: c.ppos, qpos: c.qpos}.label()]++
		}
		fmt.Fprintf(os.Stderr, "racebmc: conflict classes: %v\n", cls)
	}
	known := loadKnown()
	queries, solverSec := 0, 0.0
	var findings []raceFinding
	// one query per class of conflicting accesses (same field, same pair of functions), all in parallel
	classes := map[string][]int{}
	var classNames []string
	for ci, c := range model.conflicts {
		l := raceFinding{field: c.field, ppos: c.ppos, qpos: c.qpos}.label()
		if _, ok := classes[l]; !ok {
			classNames = append(classNames, l)
		}
		classes[l] = append(classes[l], ci)
	}
	sort.Strings(classNames)
	type clsRes struct {
		name    string
		verdict string
		sec     float64
		f       *raceFinding
		witness string // both access nodes of some pair of the class are reachable (separately) within the bound
	}
	resCh := make(chan clsRes, len(classNames))
	for _, name := range classNames {
		go func(name string) {
			var any, vals strings.Builder
			for _, ci := range classes[name] {
				fmt.Fprintf(&any, "race_%d ", ci)
				fmt.Fprintf(&vals, "race_%d ", ci)
			}
			for t := 0; t < k; t++ {
				fmt.Fprintf(&vals, "choice_%d ", t)
			}
			q0 := time.Now()
			out, _ := runZ3(script+"(assert (or "+any.String()+"))\n(check-sat)\n(get-value ("+vals.String()+"))\n", 25*time.Minute)
			lines := strings.Split(out, "\n")
			r := clsRes{name: name, verdict: strings.TrimSpace(lines[0]), sec: time.Since(q0).Seconds()}
			if r.verdict == "sat" {
				vm := parseZ3Values(lines[1:])
				var tr []string
				for t := 0; t < k; t++ {
					c := vm[fmt.Sprintf("choice_%d", t)]
					if c >= 0 && c < len(labels) {
						tr = append(tr, labels[c])
					}
				}
				for _, ci := range classes[name] {
					if vm[fmt.Sprintf("race_%d", ci)] == 1 {
						c := model.conflicts[ci]
						r.f = &raceFinding{field: c.field, ppos: c.ppos, qpos: c.qpos, pname: model.procs[c.p].Name, qname: model.procs[c.q].Name, pw: c.pw, qw: c.qw, trace: tr}
						break
					}
				}
			}
			if r.verdict == "unsat" {
				var wit strings.Builder
				for _, ci := range classes[name] {
					fmt.Fprintf(&wit, "wit_%d ", ci)
				}
				wout, _ := runZ3(script+"(assert (or "+wit.String()+"))\n(check-sat)\n", 25*time.Minute)
				r.witness = strings.TrimSpace(strings.Split(wout, "\n")[0])
				r.sec = time.Since(q0).Seconds()
			}
			resCh <- r
		}(name)
	}
	var perClass []map[string]interface{}
	for range classNames {
		r := <-resCh
		queries++
		solverSec += r.sec
		fmt.Fprintf(os.Stderr, "racebmc: class %s: %s (both accesses reachable: %s) in %.1fs\n", r.name, r.verdict, r.witness, r.sec)
		perClass = append(perClass, map[string]interface{}{"class": r.name, "access_pairs": len(classes[r.name]), "verdict": r.verdict, "both_accesses_reachable_within_bound": r.witness, "seconds": round2(r.sec)})
		if r.verdict == "unsat" && r.witness != "sat" {
			res.Inconclusive = append(res.Inconclusive, "race class "+r.name+": the two accesses are not both reachable within the bound ("+r.witness+"): the unsat answer says nothing about them")
		}
		switch {
		case r.verdict == "unsat":
		case r.verdict == "sat" && r.f != nil:
			findings = append(findings, *r.f)
		default:
			res.Inconclusive = append(res.Inconclusive, "race query for "+r.name+": "+r.verdict)
		}
	}
	sort.Slice(findings, func(i, j int) bool { return findings[i].label() < findings[j].label() })
	sort.Slice(perClass, func(i, j int) bool { return perClass[i]["class"].(string) < perClass[j]["class"].(string) })
	// native confirmation: the real goroutines under the race detector
	var samples []interface{}
	var report string
	if len(findings) > 0 {
		report = runRaceDetector()
		if d := os.Getenv("VERIF_RACE_DUMP"); d != "" {
			os.WriteFile(d, []byte(report), 0o644)
		}
	}
	for i, f := range findings {
		rp := filepath.Join(verifRoot, "replays", fmt.Sprintf("%s-race-%d.json", id, i))
		js, _ := json.MarshalIndent(map[string]interface{}{"property": id, "kind": "data-race", "field": f.field, "access_a": f.pname + " " + f.ppos, "access_b": f.qname + " " + f.qpos, "trace": f.trace}, "", " ")
		os.MkdirAll(filepath.Join(verifRoot, "replays"), 0o755)
		os.WriteFile(rp, js, 0o644)
		desc := fmt.Sprintf("field %s: %s (%s, %s) and %s (%s, %s) can be the next actions of two goroutines", f.field, f.ppos, f.pname, rw(f.pw), f.qpos, f.qname, rw(f.qw))
		confirmed, note := raceInReport(report, f)
		samples = append(samples, map[string]interface{}{"race": desc, "trace": f.trace, "native": note})
		if !confirmed {
			res.Inconclusive = append(res.Inconclusive, "race candidate not confirmed by the race detector: "+desc+" ("+note+")")
			continue
		}
		if kf := matchKnownLabel(known, id, "c17_race_bmc", f.label()); kf != nil {
			fmt.Printf("KNOWN-FINDING: property=%s %s\n", id, kf.What)
			continue
		}
		fmt.Printf("VIOLATION property=%s replay=%s\n", id, rp)
		fmt.Printf("  data race: %s\n  %s\n  trace: %s\n", desc, note, strings.Join(f.trace, " | "))
		res.Violations++
	}
	if len(samples) == 0 {
		samples = append(samples, map[string]interface{}{"result": "no pair of conflicting accesses reachable as simultaneous next actions within the bound", "k": k})
	}
	res.Coverage = map[string]interface{}{
		"tracked_fields": tracked, "mutexes": mutexes, "api_entry_points": apiNames, "automata_states": states, "automata_edges": trans,
		"conflicting_access_pairs": len(model.conflicts), "queries_by_class": perClass, "bound_steps": k, "solver_queries": queries, "solver_seconds": round2(solverSec),
		"solver": "z3 4.8.12 (/usr/bin/z3)", "samples": samples, "skeleton": skeleton, "wall_s": round2(time.Since(t0).Seconds()),
	}
	res.Assumptions = []string{
		"race check: shared memory = the plain fields of NtfnsHandler (" + strings.Join(tracked, ", ") + "); objects reached through them (the maps' buckets, the task channel object) are represented by the field; other structs (keystore caches, stores) are outside",
		"race check: goroutines = follower, worker, Stop, one API call of an exported handler method (" + strings.Join(apiNames, ", ") + "), environment of 1 block and 1 queued task; Start has returned (its own accesses happen before the goroutines exist)",
		"race check: a race is a reachable state in which two goroutines' next actions access the same field, at least one writing; mutex " + strings.Join(mutexes, ", ") + " and the channel hand-shakes are modelled, so locked or ordered accesses never meet",
		fmt.Sprintf("race check: bounded to %d scheduler steps", k),
	}
	return res
}

func rw(w bool) string {
	if w {
		return "write"
	}
	return "read"
}

func parseZ3Values(lines []string) map[string]int {
	vm := map[string]int{}
	for _, l := range lines {
		f := strings.Fields(strings.NewReplacer("(", " ", ")", " ").Replace(l))
		if len(f) < 2 {
			continue
		}
		val := f[len(f)-1]
		switch {
		case val == "true":
			vm[f[0]] = 1
		case val == "false":
			vm[f[0]] = 0
		case strings.HasPrefix(val, "#x"):
			u, _ := strconv.ParseUint(val[2:], 16, 64)
			vm[f[0]] = int(u)
		case strings.HasPrefix(val, "#b"):
			u, _ := strconv.ParseUint(val[2:], 2, 64)
			vm[f[0]] = int(u)
		default:
			if n, err := strconv.Atoi(val); err == nil {
				vm[f[0]] = n
			}
		}
	}
	return vm
}

var raceBlockRe = regexp.MustCompile(`(?s)WARNING: DATA RACE.*?==================`)

// raceInReport: a DATA RACE block of the detector's output that names both source lines of the candidate.
func raceInReport(report string, f raceFinding) (bool, string) {
	if report == "" {
		return false, "race detector run produced no output"
	}
	pa, pb := strings.Fields(f.ppos), strings.Fields(f.qpos)
	la, lb := pa[len(pa)-1], pb[len(pb)-1]
	blocks := raceBlockRe.FindAllString(report, -1)
	for _, b := range blocks {
		if strings.Contains(b, la) && strings.Contains(b, lb) {
			return true, "race detector (go test -race, real handle/worker goroutines and API calls): DATA RACE report names " + la + " and " + lb
		}
	}
	// same pair of functions (the report may name another line of the same function: e.g. the load of the field
	// instead of its address computation)
	fa, fb := detectorFuncName(pa[0]), detectorFuncName(pb[0])
	for _, b := range blocks {
		if strings.Contains(b, fa) && strings.Contains(b, fb) && (strings.Contains(b, la) || strings.Contains(b, lb)) {
			return true, "race detector (go test -race, real handle/worker goroutines and API calls): DATA RACE report names " + fa + " and " + fb
		}
	}
	return false, fmt.Sprintf("race detector reported %d race(s), none naming both %s and %s", len(blocks), la, lb)
}

// detectorFuncName: go/ssa names a function literal outer$N, the runtime outer.funcN
func detectorFuncName(ssaName string) string {
	if i := strings.Index(ssaName, "$"); i >= 0 {
		return "." + ssaName[:i] + ".func" + ssaName[i+1:] + "()"
	}
	return "." + ssaName + "()"
}

func matchKnownLabel(known []KnownFinding, id, harness, label string) *KnownFinding {
	for i := range known {
		k := &known[i]
		if k.Property == id && k.Harness == harness && k.Label == label && k.Status == "known" {
			return k
		}
	}
	return nil
}

// runRaceDetector runs the real follower and worker goroutines, block announcements, a wallet import and the
// handler's API entry points concurrently under `go test -race` and returns the output.
func runRaceDetector() string {
	tmp, err := os.MkdirTemp("", "verif-c17-")
	if err != nil {
		return ""
	}
	defer os.RemoveAll(tmp)
	tf := filepath.Join(tmp, "zz_verif_c17_race_test.go")
	os.WriteFile(tf, []byte(raceDriverSrc), 0o644)
	repl := map[string]string{filepath.Join(repoRoot, "masswallet", "zz_verif_c17_race_test.go"): tf}
	js, _ := json.Marshal(map[string]interface{}{"Replace": repl})
	ov := filepath.Join(tmp, "overlay.json")
	os.WriteFile(ov, js, 0o644)
	cmd := exec.Command("go", "test", "-race", "-tags", "verif", "-vet=off", "-count=1", "-v", "-run", "^TestVerifC17Race$", "-overlay", ov, "-timeout", "300s", ".")
	cmd.Dir = filepath.Join(repoRoot, "masswallet")
	cmd.Env = append(os.Environ(), "GOFLAGS=-mod=mod", "GOPROXY=off", "GOSUMDB=off", "GOTOOLCHAIN=local", "GORACE=halt_on_error=0")
	out, _ := cmd.CombinedOutput()
	return string(out)
}

const raceDriverSrc = `//go:build verif

package masswallet

import (
	"fmt"
	"sync"
	"testing"
	"time"

	"massnet.org/mass-wallet/config"
)

// Confirmation run for race candidates: the real follower and worker goroutines as NtfnsHandler.Start launches
// them, block announcements, a wallet import and the handler's API entry points, concurrently, under -race.
func TestVerifC17Race(t *testing.T) {
	chainDb, closeChain, err := newTestChainDB(3)
	if err != nil {
		fmt.Println("VERIF-C17 setup-failed", err)
		return
	}
	defer closeChain()
	donorDb, teardownDonor, err := testDB("verifC17Donor")
	if err != nil {
		fmt.Println("VERIF-C17 setup-failed", err)
		return
	}
	defer teardownDonor()
	donor, err := NewWalletManager(&mockServer{chainDb}, donorDb, cfg, config.ChainParams, pubPassphrase)
	if err != nil {
		fmt.Println("VERIF-C17 setup-failed", err)
		return
	}
	donorId, _, _, err := donor.CreateWallet(privPassphrase, "", defaultBitSize)
	if err == nil {
		_, err = donor.UseWallet(donorId)
	}
	if err == nil {
		_, err = donor.NewAddress(0)
	}
	var keystoreJSON string
	if err == nil {
		keystoreJSON, err = donor.ExportWallet(donorId, privPassphrase)
	}
	if err != nil {
		fmt.Println("VERIF-C17 setup-failed", err)
		return
	}
	donorDb.Close()

	rawDb, teardown, err := testDB("verifC17Race")
	if err != nil {
		fmt.Println("VERIF-C17 setup-failed", err)
		return
	}
	defer teardown()
	w, err := NewWalletManager(&mockServer{chainDb}, rawDb, cfg, config.ChainParams, pubPassphrase)
	if err != nil {
		fmt.Println("VERIF-C17 setup-failed", err)
		return
	}
	// a wallet that exists before the goroutines start (the worker's start-up pass looks at every wallet)
	ownId, _, _, err := w.CreateWallet(privPassphrase, "", defaultBitSize)
	if err != nil {
		fmt.Println("VERIF-C17 setup-failed", err)
		return
	}
	h := w.ntfnsHandler
	// the mock chain has its own block 0: point the follower's tip at it before any goroutine exists
	h.bestBlock.Hash = *blks200[0].Hash()
	h.bestBlock.Height = 0
	// what NtfnsHandler.Start does last
	h.quitWg.Add(2)
	go handle(h)
	go worker(h)

	done := make(chan struct{})
	apiDone := make(chan struct{})
	go func() { // an API goroutine
		defer close(apiDone)
		for i := 0; i < 400; i++ {
			select {
			case <-done:
				return
			default:
			}
			func() {
				defer func() { _ = recover() }()
				_ = h.IsWorkerBusy()
			}()
			h.RemoveMempoolTx(nil)
			time.Sleep(2 * time.Millisecond)
		}
	}()
	time.Sleep(300 * time.Millisecond)
	func() {
		defer func() { _ = recover() }()
		if _, err := w.ImportWallet(keystoreJSON, privPassphrase); err != nil {
			fmt.Println("VERIF-C17 import-error", err)
		}
	}()
	_ = h.OnBlockConnected(blks200[1].MsgBlock())
	_ = h.OnBlockConnected(blks200[2].MsgBlock())
	time.Sleep(1000 * time.Millisecond)
	func() {
		defer func() { _ = recover() }()
		if err := w.RemoveWallet(ownId, privPassphrase); err != nil {
			fmt.Println("VERIF-C17 remove-error", err)
		}
	}()
	time.Sleep(1000 * time.Millisecond)
	close(done)
	<-apiDone
	close(h.quit)
	stopped := make(chan struct{})
	go func() { h.quitWg.Wait(); close(stopped) }()
	select {
	case <-stopped:
	case <-time.After(5 * time.Second):
		fmt.Println("VERIF-C17 goroutines-did-not-stop")
	}
	// phase 2: the same real functions in tight loops, to widen the windows in which two accesses are not
	// ordered by incidental synchronisation (database and logging locks): the worker's start-up pass (it returns
	// at once, quit is closed), the follower's block step on the current tip, the API entry points
	var loops sync.WaitGroup
	loops.Add(3)
	go func() {
		defer loops.Done()
		for i := 0; i < 300; i++ {
			h.quitWg.Add(1)
			worker(h)
		}
	}()
	go func() {
		defer loops.Done()
		for i := 0; i < 300; i++ {
			_ = h.processConnectedBlock(blks200[2].MsgBlock())
		}
	}()
	go func() {
		defer loops.Done()
		for i := 0; i < 300; i++ {
			func() {
				defer func() { _ = recover() }()
				_ = h.IsWorkerBusy()
				h.RemoveMempoolTx(nil)
			}()
		}
	}()
	loops.Wait()
	fmt.Println("VERIF-C17 driver-finished")
}
`

// epsClosure replaces silent (tau) moves by their closure: a node gets every visible edge reachable from it through
// tau edges, tau edges disappear, nodes reachable only through them become unreachable and are dropped. This
// preserves which visible actions can follow which (trace equivalence) and therefore which pairs of accesses
// can be the next actions of two goroutines; it is not used for the deadlock check, which depends on the
// branching structure.
func epsClosure(p *skProc) {
	out := map[int][]skEdge{}
	for _, e := range p.Edges {
		out[e.From] = append(out[e.From], e)
	}
	closure := func(n int) []skEdge {
		seen := map[int]bool{n: true}
		stack := []int{n}
		var vis []skEdge
		for len(stack) > 0 {
			x := stack[len(stack)-1]
			stack = stack[:len(stack)-1]
			for _, e := range out[x] {
				if e.Act.Kind == "tau" {
					if !seen[e.To] {
						seen[e.To] = true
						stack = append(stack, e.To)
					}
					continue
				}
				vis = append(vis, e)
			}
		}
		return vis
	}
	var ne []skEdge
	done := map[int]bool{}
	work := []int{p.Init}
	dedupe := map[string]bool{}
	for len(work) > 0 {
		n := work[0]
		work = work[1:]
		if done[n] {
			continue
		}
		done[n] = true
		for _, e := range closure(n) {
			k := fmt.Sprintf("%d>%d:%s:%s:%d:%s", n, e.To, e.Act.Kind, e.Act.Ch, e.Sel, e.Act.Pos)
			if dedupe[k] {
				continue
			}
			dedupe[k] = true
			// a select keeps its identity per original node: cases of the same select reached from n stay grouped
			ne = append(ne, skEdge{From: n, To: e.To, Act: e.Act, Sel: e.Sel})
			if !done[e.To] {
				work = append(work, e.To)
			}
		}
	}
	p.Edges = ne
	// renumber densely (0 stays the terminal node)
	ren := map[int]int{0: 0}
	next := 1
	id := func(n int) int {
		if v, ok := ren[n]; ok {
			return v
		}
		ren[n] = next
		next++
		return ren[n]
	}
	p.Init = id(p.Init)
	for i := range p.Edges {
		p.Edges[i].From = id(p.Edges[i].From)
		p.Edges[i].To = id(p.Edges[i].To)
	}
	p.N = next
}
