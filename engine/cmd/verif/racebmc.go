package main

import (
	"encoding/json"
	"fmt"
	"go/token"
	"go/types"
	"os"
	"os/exec"
	"path/filepath"
	"regexp"
	"sort"
	"strconv"
	"strings"
	"time"

	"golang.org/x/tools/go/ssa"
)

// raceCfg: which memory the race check tracks – the plain (non-channel, non-sync) fields of one struct type
// shared by the goroutines of the skeleton – and which of its fields are mutexes. A nil *raceCfg means the
// builder runs in its C20 form (no access or lock actions).
type raceCfg struct {
	named   *types.Named
	tracked map[string]bool
	mutexes map[string]bool
	written map[string]bool // fields written by some function reachable from the goroutine roots (nil = not computed)
	// an object shared through several references: calls of these functions are accesses of it ("name:w" / "name:r")
	objCalls map[string]string
	// tracked package-level variables: full name -> tracked name
	globals map[string]string
}

func (rc *raceCfg) callAccess(c *ssa.CallCommon) (string, string) {
	if rc == nil || rc.objCalls == nil {
		return "", ""
	}
	f := c.StaticCallee()
	if f == nil {
		return "", ""
	}
	if v, ok := rc.objCalls[f.String()]; ok {
		n, w := accField(v)
		if w {
			return n, "w"
		}
		return n, "r"
	}
	return "", ""
}

func (rc *raceCfg) globalOf(v ssa.Value) string {
	if rc == nil || rc.globals == nil {
		return ""
	}
	if g, ok := v.(*ssa.Global); ok {
		return rc.globals[g.String()]
	}
	return ""
}

// computeWritten: fields with at least one write in the functions reachable from the roots.
func (rc *raceCfg) computeWritten(roots []*ssa.Function) {
	seen := map[*ssa.Function]bool{}
	w := map[string]bool{}
	var visit func(f *ssa.Function)
	visit = func(f *ssa.Function) {
		if f == nil || seen[f] {
			return
		}
		seen[f] = true
		for _, b := range f.Blocks {
			for _, ins := range b.Instrs {
				if fa, ok := ins.(*ssa.FieldAddr); ok {
					if n := rc.fieldOf(fa); n != "" && rc.tracked[n] && writesThrough(fa, 0) {
						w[n] = true
					}
				}
				if c, ok := ins.(ssa.CallInstruction); ok {
					for _, a := range c.Common().Args {
						if mc, ok := a.(*ssa.MakeClosure); ok {
							visit(mc.Fn.(*ssa.Function))
						}
					}
				}
			}
		}
		for _, c := range staticCallees(f) {
			visit(c)
		}
	}
	for _, r := range roots {
		visit(r)
	}
	rc.written = w
}

func newRaceCfg(pkg *ssa.Package, typeName string) *raceCfg {
	t := pkg.Type(typeName)
	if t == nil {
		return nil
	}
	named, ok := t.Type().(*types.Named)
	if !ok {
		return nil
	}
	st, ok := named.Underlying().(*types.Struct)
	if !ok {
		return nil
	}
	rc := &raceCfg{named: named, tracked: map[string]bool{}, mutexes: map[string]bool{}}
	for i := 0; i < st.NumFields(); i++ {
		f := st.Field(i)
		ts := f.Type().String()
		switch {
		case ts == "sync.Mutex" || ts == "sync.RWMutex":
			rc.mutexes[f.Name()] = true
		case ts == "sync.WaitGroup":
		default:
			if _, isChan := f.Type().Underlying().(*types.Chan); isChan {
				continue
			}
			rc.tracked[f.Name()] = true
		}
	}
	return rc
}

func (rc *raceCfg) fieldOf(fa *ssa.FieldAddr) string {
	if rc == nil || rc.named == nil {
		return ""
	}
	pt, ok := fa.X.Type().Underlying().(*types.Pointer)
	if !ok {
		return ""
	}
	n, ok := pt.Elem().(*types.Named)
	if !ok || n.Obj() != rc.named.Obj() {
		return ""
	}
	return n.Underlying().(*types.Struct).Field(fa.Field).Name()
}

// mutexOp: "lock"/"unlock" and the mutex field when the call is Lock/Unlock (RLock/RUnlock are treated as
// Lock/Unlock: stricter than needed for read-read, which is never reported anyway) on a tracked struct's mutex.
func (rc *raceCfg) mutexOp(c *ssa.CallCommon) (string, string) {
	if rc == nil {
		return "", ""
	}
	f := c.StaticCallee()
	if f == nil || len(c.Args) == 0 {
		return "", ""
	}
	op := ""
	switch f.String() {
	case "(*sync.Mutex).Lock", "(*sync.RWMutex).Lock", "(*sync.RWMutex).RLock":
		op = "lock"
	case "(*sync.Mutex).Unlock", "(*sync.RWMutex).Unlock", "(*sync.RWMutex).RUnlock":
		op = "unlock"
	default:
		return "", ""
	}
	fa, ok := c.Args[0].(*ssa.FieldAddr)
	if !ok {
		return "", ""
	}
	name := rc.fieldOf(fa)
	if name == "" || !rc.mutexes[name] {
		return "", ""
	}
	return op, name
}

// access: tracked field and "w"/"r" for a field address; a write is a store through the address (or a nested
// field/element of it), or an update/delete of the map loaded from it.
func (rc *raceCfg) access(fa *ssa.FieldAddr) (string, string) {
	name := rc.fieldOf(fa)
	if name == "" || !rc.tracked[name] {
		return "", ""
	}
	if rc.written != nil && !rc.written[name] {
		return "", "" // never written by any goroutine of the model: reads alone cannot race
	}
	if writesThrough(fa, 0) {
		return name, "w"
	}
	return name, "r"
}

func writesThrough(v ssa.Value, depth int) bool {
	if depth > 6 || v.Referrers() == nil {
		return false
	}
	for _, r := range *v.Referrers() {
		switch x := r.(type) {
		case *ssa.Store:
			if x.Addr == v {
				return true
			}
		case *ssa.FieldAddr:
			if x.X == v && writesThrough(x, depth+1) {
				return true
			}
		case *ssa.IndexAddr:
			if x.X == v && writesThrough(x, depth+1) {
				return true
			}
		case *ssa.UnOp:
			if x.Op == token.MUL && x.X == v {
				if _, isMap := x.Type().Underlying().(*types.Map); isMap && mapMutated(x) {
					return true
				}
			}
		}
	}
	return false
}

func mapMutated(m ssa.Value) bool {
	if m.Referrers() == nil {
		return false
	}
	for _, r := range *m.Referrers() {
		switch x := r.(type) {
		case *ssa.MapUpdate:
			if x.Map == m {
				return true
			}
		case *ssa.Call:
			if b, ok := x.Call.Value.(*ssa.Builtin); ok && b.Name() == "delete" && len(x.Call.Args) > 0 && x.Call.Args[0] == m {
				return true
			}
		}
	}
	return false
}

// opsIn: the function touches tracked memory or a tracked mutex.
func (rc *raceCfg) opsIn(fn *ssa.Function) bool {
	if rc == nil {
		return false
	}
	for _, b := range fn.Blocks {
		for _, ins := range b.Instrs {
			switch x := ins.(type) {
			case *ssa.FieldAddr:
				if f, _ := rc.access(x); f != "" {
					return true
				}
			case *ssa.Call:
				if op, _ := rc.mutexOp(&x.Call); op != "" {
					return true
				}
				if f, _ := rc.callAccess(&x.Call); f != "" {
					return true
				}
			case *ssa.UnOp:
				if x.Op == token.MUL && rc.globalOf(x.X) != "" {
					return true
				}
			case *ssa.Store:
				if rc.globalOf(x.Addr) != "" {
					return true
				}
			case *ssa.Defer:
				if op, _ := rc.mutexOp(&x.Call); op != "" {
					return true
				}
			}
		}
	}
	return false
}

func accField(ch string) (string, bool) {
	i := strings.LastIndex(ch, ":")
	if i < 0 {
		return ch, false
	}
	return ch[:i], ch[i+1:] == "w"
}

// ---------- driver: data races on the handler's shared fields (C17, second sentence) ----------

type raceResult struct {
	Violations   int
	Inconclusive []string
	Coverage     map[string]interface{}
	Assumptions  []string
}

type raceFinding struct {
	field, ppos, qpos, pname, qname string
	pw, qw                         bool
	trace                          []string
}

func (f raceFinding) label() string {
	a, b := strings.Fields(f.ppos)[0], strings.Fields(f.qpos)[0]
	if a > b {
		a, b = b, a
	}
	return f.field + ":" + a + "~" + b
}

func checkRaces(id, tier string) *raceResult {
	res := &raceResult{Coverage: map[string]interface{}{}}
	checkHandlerRaces(id, tier, res)
	checkWriterRaces(id, tier, res)
	return res
}

// ---- model 1: the block follower, the background worker, Stop and one API call, sharing NtfnsHandler ----

func checkHandlerRaces(id, tier string, res *raceResult) {
	t0 := time.Now()
	prog, err := loadProgram([]string{"masswallet"})
	if err != nil {
		res.Inconclusive = append(res.Inconclusive, "race check: "+err.Error())
		return
	}
	pkg := prog.Pkgs[modulePath+"/masswallet"]
	rc := newRaceCfg(pkg, "NtfnsHandler")
	if rc == nil {
		res.Inconclusive = append(res.Inconclusive, "race check: type NtfnsHandler not found")
		return
	}
	rel := computeRelevantRace(pkg, rc)
	var tracked, mutexes []string
	for f := range rc.tracked {
		tracked = append(tracked, f)
	}
	for f := range rc.mutexes {
		mutexes = append(mutexes, f)
	}
	sort.Strings(tracked)
	sort.Strings(mutexes)
	roots := map[string][]*ssa.Function{"follower": {pkg.Func("handle")}, "worker": {pkg.Func("worker")}}
	if wm := pkg.Type("WalletManager"); wm != nil {
		if sel := prog.Prog.MethodSets.MethodSet(types.NewPointer(wm.Type())).Lookup(pkg.Pkg, "Stop"); sel != nil {
			roots["stop"] = []*ssa.Function{prog.Prog.MethodValue(sel)}
		}
	}
	// API goroutine: one call of an exported handler method that touches tracked memory or the queues
	var apiNames []string
	ms := prog.Prog.MethodSets.MethodSet(types.NewPointer(rc.named))
	for i := 0; i < ms.Len(); i++ {
		fn := prog.Prog.MethodValue(ms.At(i))
		if fn == nil || !fn.Object().Exported() || fn.Name() == "Start" || fn.Name() == "Stop" || !rel[fn] {
			continue
		}
		roots["api"] = append(roots["api"], fn)
		apiNames = append(apiNames, fn.Name())
	}
	for _, n := range []string{"follower", "worker", "stop", "api"} {
		if len(roots[n]) == 0 || roots[n][0] == nil {
			res.Inconclusive = append(res.Inconclusive, "race check: no root for "+n)
		}
	}
	if len(res.Inconclusive) > 0 {
		return
	}
	var allRoots []*ssa.Function
	for _, rs := range roots {
		allRoots = append(allRoots, rs...)
	}
	rc.computeWritten(allRoots)
	rel = computeRelevantRace(pkg, rc)
	caps, _ := chanCaps(pkg)
	model := &bmcModel{caps: caps, pcBits: 12}
	var skeleton []string
	states, trans := 0, 0
	for _, n := range []string{"follower", "worker", "stop", "api"} {
		p, lines := buildProcRace(prog, rel, n, roots[n], rc)
		raw := p.N
		epsClosure(p)
		model.procs = append(model.procs, p)
		skeleton = append(skeleton, lines...)
		states += p.N
		trans += len(p.Edges)
		fmt.Fprintf(os.Stderr, "racebmc: %s automaton: %d nodes (%d before the tau closure), %d edges notes=%v\n", n, p.N, raw, len(p.Edges), p.Notes)
		for _, note := range p.Notes {
			if strings.Contains(note, "budget") || strings.Contains(note, "fell off") || strings.Contains(note, "depth cut") {
				res.Inconclusive = append(res.Inconclusive, "race check: "+n+": "+note)
			}
		}
		if p.N >= 4096 {
			res.Inconclusive = append(res.Inconclusive, "race check: "+n+" automaton exceeds the program-counter width")
		}
	}
	model.procs = append(model.procs, envProc(1, 1))
	k := 14
	if tier == "thorough" {
		k = 16 // 20 ran past the 25-minute query limit on every class
	}
	perClass, samples, queries, solverSec := raceQueries(id, "handler", "c17_race_bmc", model, k, runRaceDetector, res)
	res.Coverage["handler"] = map[string]interface{}{
		"tracked_fields": tracked, "mutexes": mutexes, "api_entry_points": apiNames, "automata_states": states, "automata_edges": trans,
		"conflicting_access_pairs": len(model.conflicts), "queries_by_class": perClass, "bound_steps": k, "solver_queries": queries, "solver_seconds": round2(solverSec),
		"solver": "z3 4.8.12 (/usr/bin/z3)", "samples": samples, "skeleton": skeleton, "wall_s": round2(time.Since(t0).Seconds()),
	}
	res.Assumptions = append(res.Assumptions,
		"race check (handler): shared memory = the plain fields of NtfnsHandler ("+strings.Join(tracked, ", ")+"); objects reached through them (the maps' buckets, the task channel object) are represented by the field; other structs (keystore caches, stores) are outside",
		"race check (handler): goroutines = follower, worker, Stop, one API call of an exported handler method ("+strings.Join(apiNames, ", ")+"), environment of 1 block and 1 queued task; Start has returned (its own accesses happen before the goroutines exist)",
		"race check: a race is a reachable state in which two goroutines' next actions access the same tracked memory, at least one writing; the mutexes ("+strings.Join(mutexes, ", ")+"; muTr in the driver model) and the channel hand-shakes are modelled, so locked or ordered accesses never meet; silent moves are closed (trace equivalence)",
		fmt.Sprintf("race check (handler): bounded to %d scheduler steps", k))
}

// ---- model 2: two writers of the LevelDB driver sharing the package's single goleveldb batch ----

func checkWriterRaces(id, tier string, res *raceResult) {
	t0 := time.Now()
	prog, err := loadProgram([]string{"masswallet/db/ldb"})
	if err != nil {
		res.Inconclusive = append(res.Inconclusive, "race check (driver): "+err.Error())
		return
	}
	pkg := prog.Pkgs[modulePath+"/masswallet/db/ldb"]
	rc := newRaceCfg(pkg, "LevelDB")
	root := pkg.Func("VerifC17Writer")
	if rc == nil || root == nil {
		res.Inconclusive = append(res.Inconclusive, "race check (driver): type LevelDB or the writer harness not found")
		return
	}
	rc.tracked = map[string]bool{} // the driver's own fields are set once at construction
	const lb = "github.com/syndtr/goleveldb/leveldb"
	rc.objCalls = map[string]string{
		"(*" + lb + ".Batch).Reset": "sharedBatch:w", "(*" + lb + ".Batch).Put": "sharedBatch:w", "(*" + lb + ".Batch).Delete": "sharedBatch:w",
		"(*" + lb + ".Batch).Load": "sharedBatch:w", "(*" + lb + ".Batch).Len": "sharedBatch:r", "(*" + lb + ".Batch).Dump": "sharedBatch:r",
		"(*" + lb + ".Batch).Replay": "sharedBatch:r", "(*" + lb + ".DB).Write": "sharedBatch:r",
	}
	rc.globals = map[string]string{}
	for name, m := range pkg.Members {
		if g, ok := m.(*ssa.Global); ok && name == "innerBatch" {
			rc.globals[g.String()] = "innerBatch"
		}
	}
	if len(rc.globals) == 0 {
		res.Inconclusive = append(res.Inconclusive, "race check (driver): package variable innerBatch not found")
		return
	}
	rel := computeRelevantRace(pkg, rc)
	model := &bmcModel{caps: map[string]int{}, pcBits: 10}
	var skeleton []string
	states, trans := 0, 0
	for _, n := range []string{"writer1", "writer2"} {
		p, lines := buildProcRace(prog, rel, n, []*ssa.Function{root}, rc)
		raw := p.N
		epsClosure(p)
		model.procs = append(model.procs, p)
		if n == "writer1" {
			skeleton = append(skeleton, lines...)
		}
		states += p.N
		trans += len(p.Edges)
		fmt.Fprintf(os.Stderr, "racebmc: %s automaton: %d nodes (%d before the tau closure), %d edges notes=%v\n", n, p.N, raw, len(p.Edges), p.Notes)
		for _, note := range p.Notes {
			if strings.Contains(note, "budget") || strings.Contains(note, "fell off") || strings.Contains(note, "depth cut") {
				res.Inconclusive = append(res.Inconclusive, "race check (driver): "+n+": "+note)
			}
		}
	}
	k := 16
	if tier == "thorough" {
		k = 24
	}
	perClass, samples, queries, solverSec := raceQueries(id, "driver", "c17_race_bmc_driver", model, k, runWriterRaceDetector, res)
	res.Coverage["driver"] = map[string]interface{}{
		"tracked": []string{"package variable innerBatch", "the goleveldb batch it points to (every *leveldb.Batch of the package: calls of Reset/Put/Delete/Load write it, Len/Dump/Replay and DB.Write read it)"},
		"mutexes": []string{"muTr"}, "automata_states": states, "automata_edges": trans,
		"conflicting_access_pairs": len(model.conflicts), "queries_by_class": perClass, "bound_steps": k, "solver_queries": queries, "solver_seconds": round2(solverSec),
		"solver": "z3 4.8.12 (/usr/bin/z3)", "samples": samples, "skeleton": skeleton, "wall_s": round2(time.Since(t0).Seconds()),
	}
	res.Assumptions = append(res.Assumptions,
		"race check (driver): two goroutines each run one write transaction of the LevelDB driver (BeginTx, bucket look-up, Put, Delete, Commit or Rollback: harness VerifC17Writer calling the real functions); readers do not touch the batch",
		fmt.Sprintf("race check (driver): bounded to %d scheduler steps; goleveldb's own synchronisation is not modelled", k))
}

// raceQueries: one query per class of conflicting accesses (same memory, same pair of functions), all in parallel;
// candidates are confirmed with the race detector before they are reported.
func raceQueries(id, modelName, harness string, model *bmcModel, k int, detector func() string, res *raceResult) ([]map[string]interface{}, []interface{}, int, float64) {
	script, labels := model.smt(k, 1, 1)
	fmt.Fprintf(os.Stderr, "racebmc: %s model: k=%d, %d labels, %d conflicting access pairs, script %d bytes\n", modelName, k, len(labels), len(model.conflicts), len(script))
	if os.Getenv("VERIF_DEBUG") != "" {
		cls := map[string]int{}
		for _, c := range model.conflicts {
			cls[raceFinding{field: c.field, ppos: c.ppos, qpos: c.qpos}.label()]++
		}
		fmt.Fprintf(os.Stderr, "racebmc: conflict classes: %v\n", cls)
	}
	known := loadKnown()
	queries, solverSec := 0, 0.0
	var findings []raceFinding
	classes := map[string][]int{}
	var classNames []string
	for ci, c := range model.conflicts {
		l := raceFinding{field: c.field, ppos: c.ppos, qpos: c.qpos}.label()
		if _, ok := classes[l]; !ok {
			classNames = append(classNames, l)
		}
		classes[l] = append(classes[l], ci)
	}
	sort.Strings(classNames)
	type clsRes struct {
		name    string
		verdict string
		sec     float64
		f       *raceFinding
		witness string // both access nodes of some pair of the class are reachable (separately) within the bound
	}
	resCh := make(chan clsRes, len(classNames))
	for _, name := range classNames {
		go func(name string) {
			var any, vals strings.Builder
			for _, ci := range classes[name] {
				fmt.Fprintf(&any, "race_%d ", ci)
				fmt.Fprintf(&vals, "race_%d ", ci)
			}
			for t := 0; t < k; t++ {
				fmt.Fprintf(&vals, "choice_%d ", t)
			}
			q0 := time.Now()
			out, _ := runZ3(script+"(assert (or "+any.String()+"))\n(check-sat)\n(get-value ("+vals.String()+"))\n", 25*time.Minute)
			lines := strings.Split(out, "\n")
			r := clsRes{name: name, verdict: strings.TrimSpace(lines[0]), sec: time.Since(q0).Seconds()}
			if r.verdict == "sat" {
				vm := parseZ3Values(lines[1:])
				var tr []string
				for t := 0; t < k; t++ {
					c := vm[fmt.Sprintf("choice_%d", t)]
					if c >= 0 && c < len(labels) {
						tr = append(tr, labels[c])
					}
				}
				for _, ci := range classes[name] {
					if vm[fmt.Sprintf("race_%d", ci)] == 1 {
						c := model.conflicts[ci]
						r.f = &raceFinding{field: c.field, ppos: c.ppos, qpos: c.qpos, pname: model.procs[c.p].Name, qname: model.procs[c.q].Name, pw: c.pw, qw: c.qw, trace: tr}
						break
					}
				}
			}
			if r.verdict == "unsat" {
				var wit strings.Builder
				for _, ci := range classes[name] {
					fmt.Fprintf(&wit, "wit_%d ", ci)
				}
				wout, _ := runZ3(script+"(assert (or "+wit.String()+"))\n(check-sat)\n", 25*time.Minute)
				r.witness = strings.TrimSpace(strings.Split(wout, "\n")[0])
				r.sec = time.Since(q0).Seconds()
			}
			resCh <- r
		}(name)
	}
	var perClass []map[string]interface{}
	for range classNames {
		r := <-resCh
		queries++
		solverSec += r.sec
		fmt.Fprintf(os.Stderr, "racebmc: class %s: %s (both accesses reachable: %s) in %.1fs\n", r.name, r.verdict, r.witness, r.sec)
		perClass = append(perClass, map[string]interface{}{"class": r.name, "access_pairs": len(classes[r.name]), "verdict": r.verdict, "both_accesses_reachable_within_bound": r.witness, "seconds": round2(r.sec)})
		if r.verdict == "unsat" && r.witness != "sat" {
			res.Inconclusive = append(res.Inconclusive, "race class "+r.name+": the two accesses are not both reachable within the bound ("+r.witness+"): the unsat answer says nothing about them")
		}
		switch {
		case r.verdict == "unsat":
		case r.verdict == "sat" && r.f != nil:
			findings = append(findings, *r.f)
		default:
			res.Inconclusive = append(res.Inconclusive, "race query for "+r.name+": "+r.verdict)
		}
	}
	sort.Slice(findings, func(i, j int) bool { return findings[i].label() < findings[j].label() })
	sort.Slice(perClass, func(i, j int) bool { return perClass[i]["class"].(string) < perClass[j]["class"].(string) })
	// native confirmation: the real goroutines under the race detector
	var samples []interface{}
	var report string
	if len(findings) > 0 {
		report = detector()
		if d := os.Getenv("VERIF_RACE_DUMP"); d != "" {
			os.WriteFile(d+"."+modelName, []byte(report), 0o644)
		}
	}
	for i, f := range findings {
		rp := filepath.Join(verifRoot, "replays", fmt.Sprintf("%s-race-%s-%d.json", id, modelName, i))
		js, _ := json.MarshalIndent(map[string]interface{}{"property": id, "kind": "data-race", "memory": f.field, "access_a": f.pname + " " + f.ppos, "access_b": f.qname + " " + f.qpos, "trace": f.trace}, "", " ")
		os.MkdirAll(filepath.Join(verifRoot, "replays"), 0o755)
		os.WriteFile(rp, js, 0o644)
		desc := fmt.Sprintf("%s: %s (%s, %s) and %s (%s, %s) can be the next actions of two goroutines", f.field, f.ppos, f.pname, rw(f.pw), f.qpos, f.qname, rw(f.qw))
		confirmed, note := raceInReport(report, f)
		samples = append(samples, map[string]interface{}{"race": desc, "trace": f.trace, "native": note})
		if !confirmed {
			res.Inconclusive = append(res.Inconclusive, "race candidate not confirmed by the race detector: "+desc+" ("+note+")")
			continue
		}
		if kf := matchKnownLabel(known, id, harness, f.label()); kf != nil {
			fmt.Printf("KNOWN-FINDING: property=%s %s\n", id, kf.What)
			continue
		}
		fmt.Printf("VIOLATION property=%s replay=%s\n", id, rp)
		fmt.Printf("  data race: %s\n  %s\n  trace: %s\n", desc, note, strings.Join(f.trace, " | "))
		res.Violations++
	}
	if len(samples) == 0 {
		samples = append(samples, map[string]interface{}{"result": "no pair of conflicting accesses reachable as simultaneous next actions within the bound", "k": k})
	}
	return perClass, samples, queries, solverSec
}

func rw(w bool) string {
	if w {
		return "write"
	}
	return "read"
}

func parseZ3Values(lines []string) map[string]int {
	vm := map[string]int{}
	for _, l := range lines {
		f := strings.Fields(strings.NewReplacer("(", " ", ")", " ").Replace(l))
		if len(f) < 2 {
			continue
		}
		val := f[len(f)-1]
		switch {
		case val == "true":
			vm[f[0]] = 1
		case val == "false":
			vm[f[0]] = 0
		case strings.HasPrefix(val, "#x"):
			u, _ := strconv.ParseUint(val[2:], 16, 64)
			vm[f[0]] = int(u)
		case strings.HasPrefix(val, "#b"):
			u, _ := strconv.ParseUint(val[2:], 2, 64)
			vm[f[0]] = int(u)
		default:
			if n, err := strconv.Atoi(val); err == nil {
				vm[f[0]] = n
			}
		}
	}
	return vm
}

var raceBlockRe = regexp.MustCompile(`(?s)WARNING: DATA RACE.*?==================`)

// raceInReport: a DATA RACE block of the detector's output that names both source lines of the candidate.
func raceInReport(report string, f raceFinding) (bool, string) {
	if report == "" {
		return false, "race detector run produced no output"
	}
	pa, pb := strings.Fields(f.ppos), strings.Fields(f.qpos)
	la, lb := pa[len(pa)-1], pb[len(pb)-1]
	blocks := raceBlockRe.FindAllString(report, -1)
	for _, b := range blocks {
		if strings.Contains(b, la) && strings.Contains(b, lb) {
			return true, "race detector (go test -race on the real goroutines): DATA RACE report names " + la + " and " + lb
		}
	}
	// same pair of functions (the report may name another line of the same function: e.g. the load of the field
	// instead of its address computation)
	fa, fb := detectorFuncName(pa[0]), detectorFuncName(pb[0])
	for _, b := range blocks {
		if strings.Contains(b, fa) && strings.Contains(b, fb) && (strings.Contains(b, la) || strings.Contains(b, lb)) {
			return true, "race detector (go test -race on the real goroutines): DATA RACE report names " + fa + " and " + fb
		}
	}
	return false, fmt.Sprintf("race detector reported %d race(s), none naming both %s and %s", len(blocks), la, lb)
}

// detectorFuncName: go/ssa names a function literal outer$N, the runtime outer.funcN
func detectorFuncName(ssaName string) string {
	if i := strings.Index(ssaName, "$"); i >= 0 {
		return "." + ssaName[:i] + ".func" + ssaName[i+1:] + "()"
	}
	return "." + ssaName + "()"
}

func matchKnownLabel(known []KnownFinding, id, harness, label string) *KnownFinding {
	for i := range known {
		k := &known[i]
		if k.Property == id && k.Harness == harness && k.Label == label && k.Status == "known" {
			return k
		}
	}
	return nil
}

// runRaceDetector runs the real follower and worker goroutines, block announcements, a wallet import and the
// handler's API entry points concurrently under `go test -race` and returns the output.
func runRaceDetector() string {
	tmp, err := os.MkdirTemp("", "verif-c17-")
	if err != nil {
		return ""
	}
	defer os.RemoveAll(tmp)
	tf := filepath.Join(tmp, "zz_verif_c17_race_test.go")
	os.WriteFile(tf, []byte(raceDriverSrc), 0o644)
	repl := map[string]string{filepath.Join(repoRoot, "masswallet", "zz_verif_c17_race_test.go"): tf}
	js, _ := json.Marshal(map[string]interface{}{"Replace": repl})
	ov := filepath.Join(tmp, "overlay.json")
	os.WriteFile(ov, js, 0o644)
	cmd := exec.Command("go", "test", "-race", "-tags", "verif", "-vet=off", "-count=1", "-v", "-run", "^TestVerifC17Race$", "-overlay", ov, "-timeout", "300s", ".")
	cmd.Dir = filepath.Join(repoRoot, "masswallet")
	cmd.Env = append(os.Environ(), "GOFLAGS=-mod=mod", "GOPROXY=off", "GOSUMDB=off", "GOTOOLCHAIN=local", "GORACE=halt_on_error=0")
	out, _ := cmd.CombinedOutput()
	return string(out)
}

// runWriterRaceDetector: two goroutines running write transactions of the real LevelDB driver under -race.
func runWriterRaceDetector() string {
	tmp, err := os.MkdirTemp("", "verif-c17w-")
	if err != nil {
		return ""
	}
	defer os.RemoveAll(tmp)
	tf := filepath.Join(tmp, "zz_verif_c17_race_test.go")
	os.WriteFile(tf, []byte(writerRaceDriverSrc), 0o644)
	repl := map[string]string{filepath.Join(repoRoot, "masswallet", "db", "ldb", "zz_verif_c17_race_test.go"): tf}
	hdir := filepath.Join(verifRoot, "harness", "overlay", "masswallet", "db", "ldb")
	ents, _ := os.ReadDir(hdir)
	for _, e := range ents {
		if strings.HasSuffix(e.Name(), ".go") {
			repl[filepath.Join(repoRoot, "masswallet", "db", "ldb", e.Name())] = filepath.Join(hdir, e.Name())
		}
	}
	for _, extra := range []string{"zzverifrt", "zzverifmdb"} {
		d := filepath.Join(verifRoot, "harness", "overlay", extra)
		es, _ := os.ReadDir(d)
		for _, e := range es {
			if strings.HasSuffix(e.Name(), ".go") {
				repl[filepath.Join(repoRoot, extra, e.Name())] = filepath.Join(d, e.Name())
			}
		}
	}
	js, _ := json.Marshal(map[string]interface{}{"Replace": repl})
	ov := filepath.Join(tmp, "overlay.json")
	os.WriteFile(ov, js, 0o644)
	cmd := exec.Command("go", "test", "-race", "-tags", "verif", "-vet=off", "-count=1", "-v", "-run", "^TestVerifC17WriterRace$", "-overlay", ov, "-timeout", "300s", ".")
	cmd.Dir = filepath.Join(repoRoot, "masswallet", "db", "ldb")
	cmd.Env = append(os.Environ(), "GOFLAGS=-mod=mod", "GOPROXY=off", "GOSUMDB=off", "GOTOOLCHAIN=local", "GORACE=halt_on_error=0")
	out, _ := cmd.CombinedOutput()
	return string(out)
}

const writerRaceDriverSrc = `//go:build verif

package ldb

import (
	"fmt"
	"os"
	"sync"
	"testing"
)

func TestVerifC17WriterRace(t *testing.T) {
	dir, err := os.MkdirTemp("", "verif-c17w-db-")
	if err != nil {
		fmt.Println("VERIF-C17 setup-failed", err)
		return
	}
	defer os.RemoveAll(dir)
	d, err := CreateDB(dir + "/w.db")
	if err != nil {
		fmt.Println("VERIF-C17 setup-failed", err)
		return
	}
	defer d.Close()
	l := d.(*LevelDB)
	tx, _ := l.BeginTx()
	if _, err := tx.CreateTopLevelBucket("b"); err != nil {
		fmt.Println("VERIF-C17 setup-failed", err)
		return
	}
	_ = tx.Commit()
	var wg sync.WaitGroup
	for g := 0; g < 2; g++ {
		wg.Add(1)
		go func() {
			defer wg.Done()
			for i := 0; i < 300; i++ {
				VerifC17Writer(l)
			}
		}()
	}
	wg.Wait()
	fmt.Println("VERIF-C17 driver-finished")
}
`

const raceDriverSrc = `//go:build verif

package masswallet

import (
	"fmt"
	"sync"
	"testing"
	"time"

	"massnet.org/mass-wallet/config"
)

// Confirmation run for race candidates: the real follower and worker goroutines as NtfnsHandler.Start launches
// them, block announcements, a wallet import and the handler's API entry points, concurrently, under -race.
func TestVerifC17Race(t *testing.T) {
	chainDb, closeChain, err := newTestChainDB(3)
	if err != nil {
		fmt.Println("VERIF-C17 setup-failed", err)
		return
	}
	defer closeChain()
	donorDb, teardownDonor, err := testDB("verifC17Donor")
	if err != nil {
		fmt.Println("VERIF-C17 setup-failed", err)
		return
	}
	defer teardownDonor()
	donor, err := NewWalletManager(&mockServer{chainDb}, donorDb, cfg, config.ChainParams, pubPassphrase)
	if err != nil {
		fmt.Println("VERIF-C17 setup-failed", err)
		return
	}
	donorId, _, _, err := donor.CreateWallet(privPassphrase, "", defaultBitSize)
	if err == nil {
		_, err = donor.UseWallet(donorId)
	}
	if err == nil {
		_, err = donor.NewAddress(0)
	}
	var keystoreJSON string
	if err == nil {
		keystoreJSON, err = donor.ExportWallet(donorId, privPassphrase)
	}
	if err != nil {
		fmt.Println("VERIF-C17 setup-failed", err)
		return
	}
	donorDb.Close()

	rawDb, teardown, err := testDB("verifC17Race")
	if err != nil {
		fmt.Println("VERIF-C17 setup-failed", err)
		return
	}
	defer teardown()
	w, err := NewWalletManager(&mockServer{chainDb}, rawDb, cfg, config.ChainParams, pubPassphrase)
	if err != nil {
		fmt.Println("VERIF-C17 setup-failed", err)
		return
	}
	// a wallet that exists before the goroutines start (the worker's start-up pass looks at every wallet)
	ownId, _, _, err := w.CreateWallet(privPassphrase, "", defaultBitSize)
	if err != nil {
		fmt.Println("VERIF-C17 setup-failed", err)
		return
	}
	h := w.ntfnsHandler
	// the mock chain has its own block 0: point the follower's tip at it before any goroutine exists
	h.bestBlock.Hash = *blks200[0].Hash()
	h.bestBlock.Height = 0
	// what NtfnsHandler.Start does last
	h.quitWg.Add(2)
	go handle(h)
	go worker(h)

	done := make(chan struct{})
	apiDone := make(chan struct{})
	go func() { // an API goroutine
		defer close(apiDone)
		for i := 0; i < 400; i++ {
			select {
			case <-done:
				return
			default:
			}
			func() {
				defer func() { _ = recover() }()
				_ = h.IsWorkerBusy()
			}()
			h.RemoveMempoolTx(nil)
			time.Sleep(2 * time.Millisecond)
		}
	}()
	time.Sleep(300 * time.Millisecond)
	func() {
		defer func() { _ = recover() }()
		if _, err := w.ImportWallet(keystoreJSON, privPassphrase); err != nil {
			fmt.Println("VERIF-C17 import-error", err)
		}
	}()
	_ = h.OnBlockConnected(blks200[1].MsgBlock())
	_ = h.OnBlockConnected(blks200[2].MsgBlock())
	time.Sleep(1000 * time.Millisecond)
	func() {
		defer func() { _ = recover() }()
		if err := w.RemoveWallet(ownId, privPassphrase); err != nil {
			fmt.Println("VERIF-C17 remove-error", err)
		}
	}()
	time.Sleep(1000 * time.Millisecond)
	close(done)
	<-apiDone
	close(h.quit)
	stopped := make(chan struct{})
	go func() { h.quitWg.Wait(); close(stopped) }()
	select {
	case <-stopped:
	case <-time.After(5 * time.Second):
		fmt.Println("VERIF-C17 goroutines-did-not-stop")
	}
	// phase 2: the same real functions in tight loops, to widen the windows in which two accesses are not
	// ordered by incidental synchronisation (database and logging locks): the worker's start-up pass (it returns
	// at once, quit is closed), the follower's block step on the current tip, the API entry points
	var loops sync.WaitGroup
	loops.Add(3)
	go func() {
		defer loops.Done()
		for i := 0; i < 300; i++ {
			h.quitWg.Add(1)
			worker(h)
		}
	}()
	go func() {
		defer loops.Done()
		for i := 0; i < 300; i++ {
			_ = h.processConnectedBlock(blks200[2].MsgBlock())
		}
	}()
	go func() {
		defer loops.Done()
		for i := 0; i < 300; i++ {
			func() {
				defer func() { _ = recover() }()
				_ = h.IsWorkerBusy()
				h.RemoveMempoolTx(nil)
			}()
		}
	}()
	loops.Wait()
	fmt.Println("VERIF-C17 driver-finished")
}
`

// epsClosure replaces silent (tau) moves by their closure: a node gets every visible edge reachable from it through
// tau edges, tau edges disappear, nodes reachable only through them become unreachable and are dropped. This
// preserves which visible actions can follow which (trace equivalence) and therefore which pairs of accesses
// can be the next actions of two goroutines; it is not used for the deadlock check, which depends on the
// branching structure.
func epsClosure(p *skProc) {
	out := map[int][]skEdge{}
	for _, e := range p.Edges {
		out[e.From] = append(out[e.From], e)
	}
	closure := func(n int) []skEdge {
		seen := map[int]bool{n: true}
		stack := []int{n}
		var vis []skEdge
		for len(stack) > 0 {
			x := stack[len(stack)-1]
			stack = stack[:len(stack)-1]
			for _, e := range out[x] {
				if e.Act.Kind == "tau" {
					if !seen[e.To] {
						seen[e.To] = true
						stack = append(stack, e.To)
					}
					continue
				}
				vis = append(vis, e)
			}
		}
		return vis
	}
	var ne []skEdge
	done := map[int]bool{}
	work := []int{p.Init}
	dedupe := map[string]bool{}
	for len(work) > 0 {
		n := work[0]
		work = work[1:]
		if done[n] {
			continue
		}
		done[n] = true
		for _, e := range closure(n) {
			k := fmt.Sprintf("%d>%d:%s:%s:%d:%s", n, e.To, e.Act.Kind, e.Act.Ch, e.Sel, e.Act.Pos)
			if dedupe[k] {
				continue
			}
			dedupe[k] = true
			// a select keeps its identity per original node: cases of the same select reached from n stay grouped
			ne = append(ne, skEdge{From: n, To: e.To, Act: e.Act, Sel: e.Sel})
			if !done[e.To] {
				work = append(work, e.To)
			}
		}
	}
	p.Edges = ne
	// renumber densely (0 stays the terminal node)
	ren := map[int]int{0: 0}
	next := 1
	id := func(n int) int {
		if v, ok := ren[n]; ok {
			return v
		}
		ren[n] = next
		next++
		return ren[n]
	}
	p.Init = id(p.Init)
	for i := range p.Edges {
		p.Edges[i].From = id(p.Edges[i].From)
		p.Edges[i].To = id(p.Edges[i].To)
	}
	p.N = next
}
