package main

// syncbmc: bounded model checking of the synchronisation skeleton of the notification follower, the
// background worker and Stop (property C20).
//
// The skeleton is extracted from the go/ssa form of the *current* source: only select / send / receive /
// close / WaitGroup operations, calls into functions that (transitively) contain such operations, defers
// of such calls, returns and control flow are kept. A branch whose condition is the case index of a select
// stays deterministic; every other branch becomes a nondeterministic choice (data abstraction, which only
// adds behaviours). The product of the goroutine automata is unrolled k steps into one SMT query whose
// unknowns are the scheduler's choices.

import (
	"bytes"
	"encoding/json"
	"fmt"
	"go/constant"
	"go/token"
	"go/types"
	"os"
	"os/exec"
	"path/filepath"
	"sort"
	"strconv"
	"strings"
	"time"

	"golang.org/x/tools/go/ssa"
	"verifeng/symex"
)

type skAction struct {
	Kind string // tau, send, recv, close, wgdone, wgwait, default, exit
	Ch   string
	Pos  string
}

type skEdge struct {
	From, To int
	Act      skAction
	Sel      int // id of the select node this edge belongs to (0 = none)
}

type skProc struct {
	Name  string
	Edges []skEdge
	Init  int
	Done  int // terminal node
	N     int
	Notes []string
}

type skFrame struct {
	fn     *ssa.Function
	blk    int
	idx    int
	defers []skDefer
	binds  string // select bindings "sel@pos=idx;"
	phase  int    // 0 normal, 1 running defers
	wgDef  string // name of the WaitGroup whose Done is deferred (nil marker in defers)
	ret    int    // constant boolean result being returned: -1 unknown, 0 false, 1 true
}

// skDefer: a deferred call of a skeleton function (fn), a deferred WaitGroup.Done (kind "wgdone") or a deferred
// Unlock of a tracked mutex (kind "unlock", name = field).
type skDefer struct {
	fn   *ssa.Function
	kind string
	name string
}

type skBuilder struct {
	race     *raceCfg
	prog     *symex.Program
	relevant map[*ssa.Function]bool
	proc     *skProc
	ids      map[string]int
	work     []string
	states   map[string][]skFrame
	selSeq   int
	lines    []string
}

func syncOpsIn(fn *ssa.Function) bool {
	for _, b := range fn.Blocks {
		for _, ins := range b.Instrs {
			switch x := ins.(type) {
			case *ssa.Select, *ssa.Send:
				return true
			case *ssa.UnOp:
				if x.Op == token.ARROW {
					return true
				}
			case *ssa.Call:
				if isWGCall(&x.Call) != "" || isClose(&x.Call) {
					return true
				}
			case *ssa.Defer:
				if isWGCall(&x.Call) != "" {
					return true
				}
			}
		}
	}
	return false
}

func isClose(c *ssa.CallCommon) bool {
	b, ok := c.Value.(*ssa.Builtin)
	return ok && b.Name() == "close"
}

func isWGCall(c *ssa.CallCommon) string {
	f := c.StaticCallee()
	if f == nil {
		return ""
	}
	switch f.String() {
	case "(*sync.WaitGroup).Done":
		return "wgdone"
	case "(*sync.WaitGroup).Wait":
		return "wgwait"
	case "(*sync.WaitGroup).Add":
		return "wgadd"
	}
	return ""
}

// wgName: the struct field holding the WaitGroup a call operates on.
func wgName(c *ssa.CallCommon) string {
	if len(c.Args) == 0 {
		return "wg?"
	}
	if fa, ok := c.Args[0].(*ssa.FieldAddr); ok {
		st := fa.X.Type().Underlying().(*types.Pointer).Elem().Underlying().(*types.Struct)
		return st.Field(fa.Field).Name()
	}
	return "wg?"
}

func staticCallees(fn *ssa.Function) []*ssa.Function {
	var out []*ssa.Function
	for _, b := range fn.Blocks {
		for _, ins := range b.Instrs {
			var cc *ssa.CallCommon
			switch x := ins.(type) {
			case *ssa.Call:
				cc = &x.Call
			case *ssa.Defer:
				cc = &x.Call
			}
			if cc == nil {
				continue
			}
			if f := cc.StaticCallee(); f != nil {
				out = append(out, f)
			} else if mc, ok := cc.Value.(*ssa.MakeClosure); ok {
				out = append(out, mc.Fn.(*ssa.Function))
			}
		}
	}
	for _, an := range fn.AnonFuncs {
		out = append(out, an)
	}
	return out
}

func computeRelevant(pkg *ssa.Package) map[*ssa.Function]bool { return computeRelevantRace(pkg, nil) }

func computeRelevantRace(pkg *ssa.Package, rc *raceCfg) map[*ssa.Function]bool {
	var all []*ssa.Function
	seen := map[*ssa.Function]bool{}
	var add func(f *ssa.Function)
	add = func(f *ssa.Function) {
		if f == nil || seen[f] || len(f.Blocks) == 0 {
			return
		}
		seen[f] = true
		all = append(all, f)
		for _, a := range f.AnonFuncs {
			add(a)
		}
	}
	for _, m := range pkg.Members {
		switch x := m.(type) {
		case *ssa.Function:
			add(x)
		case *ssa.Type:
			for _, T := range []types.Type{x.Type(), types.NewPointer(x.Type())} {
				ms := pkg.Prog.MethodSets.MethodSet(T)
				for i := 0; i < ms.Len(); i++ {
					add(pkg.Prog.MethodValue(ms.At(i)))
				}
			}
		}
	}
	rel := map[*ssa.Function]bool{}
	for _, f := range all {
		if f.Pkg == pkg && (syncOpsIn(f) || rc.opsIn(f)) {
			rel[f] = true
		}
	}
	for changed := true; changed; {
		changed = false
		for _, f := range all {
			if rel[f] || f.Pkg != pkg {
				continue
			}
			for _, c := range staticCallees(f) {
				if rel[c] {
					rel[f] = true
					changed = true
					break
				}
			}
		}
	}
	return rel
}

// chanName resolves the channel operand to the name of the struct field it was loaded from.
func chanName(v ssa.Value) string {
	for i := 0; i < 6; i++ {
		switch x := v.(type) {
		case *ssa.UnOp:
			if x.Op == token.MUL {
				v = x.X
				continue
			}
		case *ssa.FieldAddr:
			st := x.X.Type().Underlying().(*types.Pointer).Elem().Underlying().(*types.Struct)
			return st.Field(x.Field).Name()
		case *ssa.Field:
			st := x.X.Type().Underlying().(*types.Struct)
			return st.Field(x.Field).Name()
		case *ssa.ChangeType:
			v = x.X
			continue
		}
		break
	}
	return "?" + v.Name()
}

func frameKey(st []skFrame) string {
	var sb strings.Builder
	for _, f := range st {
		fmt.Fprintf(&sb, "%s#%d.%d.%d.%d[", f.fn.String(), f.blk, f.idx, f.phase, f.ret)
		for _, d := range f.defers {
			if d.fn == nil {
				sb.WriteString(d.kind + ":" + d.name + ",")
			} else {
				sb.WriteString(d.fn.String() + ",")
			}
		}
		sb.WriteString("]" + f.binds + "|")
	}
	return sb.String()
}

func (b *skBuilder) id(st []skFrame) int {
	k := frameKey(st)
	if id, ok := b.ids[k]; ok {
		return id
	}
	id := len(b.ids) + 1
	b.ids[k] = id
	b.states[k] = st
	b.work = append(b.work, k)
	return id
}

func cloneStack(st []skFrame) []skFrame {
	out := make([]skFrame, len(st))
	copy(out, st)
	for i := range out {
		out[i].defers = append([]skDefer(nil), st[i].defers...)
	}
	return out
}

func (b *skBuilder) pos(ins ssa.Instruction, fn *ssa.Function) string {
	p := ins.Pos()
	if !p.IsValid() {
		return fn.Name()
	}
	ps := b.prog.Fset.Position(p)
	return fmt.Sprintf("%s:%d", filepath.Base(ps.Filename), ps.Line)
}

// selBinding: value of "select index" recorded in frame binds for a select value.
func bindKey(sel *ssa.Select) string { return fmt.Sprintf("s%d", sel.Pos()) }

// setBind replaces the binding of one select (a loop passes the same select again and again).
func setBind(binds, key string, v int) string {
	var parts []string
	for _, p := range strings.Split(binds, ";") {
		if p != "" && !strings.HasPrefix(p, key+"=") {
			parts = append(parts, p)
		}
	}
	parts = append(parts, fmt.Sprintf("%s=%d", key, v))
	sort.Strings(parts)
	return strings.Join(parts, ";") + ";"
}

func dropBind(binds, key string) string {
	var parts []string
	for _, p := range strings.Split(binds, ";") {
		if p != "" && !strings.HasPrefix(p, key+"=") {
			parts = append(parts, p)
		}
	}
	if len(parts) == 0 {
		return ""
	}
	return strings.Join(parts, ";") + ";"
}

func lookupBind(binds, key string) (int, bool) {
	for _, p := range strings.Split(binds, ";") {
		if strings.HasPrefix(p, key+"=") {
			n, _ := strconv.Atoi(p[len(key)+1:])
			return n, true
		}
	}
	return 0, false
}

// condOnSelect: if cond is (extract sel #0) == const, return the truth value under the binding.
func condOnSelect(cond ssa.Value, binds string) (bool, bool) {
	// the constant boolean result of a skeleton callee (determined by its select choice)
	neg := false
	base := cond
	for {
		u, ok := base.(*ssa.UnOp)
		if !ok || u.Op != token.NOT {
			break
		}
		neg = !neg
		base = u.X
	}
	if call, ok := base.(*ssa.Call); ok {
		// harness cut switches are off in the code as it ships: the wrapper delegates to the real function
		if f := call.Call.StaticCallee(); f != nil && strings.HasSuffix(f.String(), "/zzverifrt.CutActive") {
			return false != neg, true
		}
		if v, ok := lookupBind(binds, fmt.Sprintf("c%d", call.Pos())); ok {
			return (v == 1) != neg, true
		}
		return false, false
	}
	bo, ok := cond.(*ssa.BinOp)
	if !ok || (bo.Op != token.EQL && bo.Op != token.NEQ) {
		return false, false
	}
	ext, ok1 := bo.X.(*ssa.Extract)
	c, ok2 := bo.Y.(*ssa.Const)
	if !ok1 || !ok2 {
		ext, ok1 = bo.Y.(*ssa.Extract)
		c, ok2 = bo.X.(*ssa.Const)
	}
	if !ok1 || !ok2 || ext.Index != 0 {
		return false, false
	}
	sel, ok := ext.Tuple.(*ssa.Select)
	if !ok {
		return false, false
	}
	chosen, ok := lookupBind(binds, bindKey(sel))
	if !ok {
		return false, false
	}
	cv, _ := constant.Int64Val(c.Value)
	eq := int64(chosen) == cv
	if bo.Op == token.NEQ {
		return !eq, true
	}
	return eq, true
}

func (b *skBuilder) edge(from, to int, a skAction, sel int) {
	b.proc.Edges = append(b.proc.Edges, skEdge{From: from, To: to, Act: a, Sel: sel})
	b.lines = append(b.lines, fmt.Sprintf("%s n%d -> n%d : %s %s @%s", b.proc.Name, from, to, a.Kind, a.Ch, a.Pos))
}

// expand processes one abstract state: skips irrelevant instructions until an action or a branch.
func (b *skBuilder) expand(key string) {
	from := b.ids[key]
	st := cloneStack(b.states[key])
	for steps := 0; steps < 100000; steps++ {
		if len(st) == 0 {
			b.edge(from, b.proc.Done, skAction{Kind: "exit"}, 0)
			return
		}
		top := &st[len(st)-1]
		if top.phase == 1 {
			// running defers of this frame
			if len(top.defers) == 0 {
				ret := top.ret
				st = st[:len(st)-1]
				if len(st) > 0 {
					caller := &st[len(st)-1]
					if caller.phase == 0 && caller.idx > 0 {
						if call, ok := caller.fn.Blocks[caller.blk].Instrs[caller.idx-1].(*ssa.Call); ok {
							key := fmt.Sprintf("c%d", call.Pos())
							if ret >= 0 {
								caller.binds = setBind(caller.binds, key, ret)
							} else {
								caller.binds = dropBind(caller.binds, key)
							}
						}
					}
				}
				continue
			}
			d := top.defers[len(top.defers)-1]
			top.defers = top.defers[:len(top.defers)-1]
			if d.fn == nil && d.kind == "unlock" {
				nst := cloneStack(st)
				b.edge(from, b.id(nst), skAction{Kind: "unlock", Ch: d.name, Pos: top.fn.Name() + " (deferred)"}, 0)
				return
			}
			if d.fn == nil {
				// deferred WaitGroup.Done
				nst := cloneStack(st)
				b.edge(from, b.id(nst), skAction{Kind: "wgdone", Ch: top.wgDef, Pos: top.fn.Name() + " (deferred)"}, 0)
				return
			}
			st = append(st, skFrame{fn: d.fn, ret: -1})
			continue
		}
		blk := top.fn.Blocks[top.blk]
		if top.idx >= len(blk.Instrs) {
			b.proc.Notes = append(b.proc.Notes, "fell off block in "+top.fn.String())
			return
		}
		ins := blk.Instrs[top.idx]
		adv := func() { top.idx++ }
		switch x := ins.(type) {
		case *ssa.Jump:
			top.blk, top.idx = blk.Succs[0].Index, 0
		case *ssa.If:
			if v, ok := condOnSelect(x.Cond, top.binds); ok {
				if v {
					top.blk, top.idx = blk.Succs[0].Index, 0
				} else {
					top.blk, top.idx = blk.Succs[1].Index, 0
				}
				continue
			}
			for _, s := range blk.Succs {
				nst := cloneStack(st)
				nt := &nst[len(nst)-1]
				nt.blk, nt.idx = s.Index, 0
				b.edge(from, b.id(nst), skAction{Kind: "tau", Pos: b.pos(ins, top.fn)}, 0)
			}
			return
		case *ssa.Return:
			top.phase = 1
			top.ret = -1
			if len(x.Results) == 1 {
				if c, ok := x.Results[0].(*ssa.Const); ok && c.Value != nil && c.Value.Kind() == constant.Bool {
					top.ret = 0
					if constant.BoolVal(c.Value) {
						top.ret = 1
					}
				}
				// a wrapper handing on the constant result of a skeleton callee
				if call, ok := x.Results[0].(*ssa.Call); ok {
					if v, ok := lookupBind(top.binds, fmt.Sprintf("c%d", call.Pos())); ok {
						top.ret = v
					}
				}
			}
		case *ssa.RunDefers:
			// defers run at the return that follows
			adv()
		case *ssa.Panic:
			b.proc.Notes = append(b.proc.Notes, "panic path ignored at "+b.pos(ins, top.fn))
			return
		case *ssa.Select:
			b.selSeq++
			selID := b.selSeq
			for i, s := range x.States {
				nst := cloneStack(st)
				nt := &nst[len(nst)-1]
				nt.idx++
				nt.binds = setBind(nt.binds, bindKey(x), i)
				kind := "recv"
				if s.Dir == types.SendOnly {
					kind = "send"
				}
				b.edge(from, b.id(nst), skAction{Kind: kind, Ch: chanName(s.Chan), Pos: b.pos(ins, top.fn)}, selID)
			}
			if !x.Blocking {
				nst := cloneStack(st)
				nt := &nst[len(nst)-1]
				nt.idx++
				nt.binds = setBind(nt.binds, bindKey(x), -1)
				b.edge(from, b.id(nst), skAction{Kind: "default", Pos: b.pos(ins, top.fn)}, selID)
			}
			return
		case *ssa.Send:
			nst := cloneStack(st)
			nst[len(nst)-1].idx++
			b.edge(from, b.id(nst), skAction{Kind: "send", Ch: chanName(x.Chan), Pos: b.pos(ins, top.fn)}, 0)
			return
		case *ssa.UnOp:
			if x.Op == token.ARROW {
				nst := cloneStack(st)
				nst[len(nst)-1].idx++
				b.edge(from, b.id(nst), skAction{Kind: "recv", Ch: chanName(x.X), Pos: b.pos(ins, top.fn)}, 0)
				return
			}
			if g := b.race.globalOf(x.X); g != "" && x.Op == token.MUL {
				nst := cloneStack(st)
				nst[len(nst)-1].idx++
				b.edge(from, b.id(nst), skAction{Kind: "acc", Ch: g + ":r", Pos: top.fn.Name() + " " + b.pos(ins, top.fn)}, 0)
				return
			}
			adv()
		case *ssa.Defer:
			if k := isWGCall(&x.Call); k == "wgdone" {
				top.defers = append(top.defers, skDefer{kind: "wgdone"})
				top.wgDef = wgName(&x.Call)
			} else if op, name := b.race.mutexOp(&x.Call); op == "unlock" {
				top.defers = append(top.defers, skDefer{kind: "unlock", name: name})
			} else if f := x.Call.StaticCallee(); f != nil && b.relevant[f] {
				top.defers = append(top.defers, skDefer{fn: f})
			} else if mc, ok := x.Call.Value.(*ssa.MakeClosure); ok && b.relevant[mc.Fn.(*ssa.Function)] {
				top.defers = append(top.defers, skDefer{fn: mc.Fn.(*ssa.Function)})
			}
			adv()
		case *ssa.Call:
			if isClose(&x.Call) {
				nst := cloneStack(st)
				nst[len(nst)-1].idx++
				b.edge(from, b.id(nst), skAction{Kind: "close", Ch: chanName(x.Call.Args[0]), Pos: b.pos(ins, top.fn)}, 0)
				return
			}
			if k := isWGCall(&x.Call); k == "wgdone" || k == "wgwait" || k == "wgadd" {
				nst := cloneStack(st)
				nst[len(nst)-1].idx++
				name := wgName(&x.Call)
				if k == "wgadd" {
					d := "?"
					if c, ok := x.Call.Args[1].(*ssa.Const); ok {
						v, _ := constant.Int64Val(c.Value)
						d = strconv.FormatInt(v, 10)
					}
					name += "+" + d
				}
				b.edge(from, b.id(nst), skAction{Kind: k, Ch: name, Pos: b.pos(ins, top.fn)}, 0)
				return
			}
			if op, name := b.race.mutexOp(&x.Call); op != "" {
				nst := cloneStack(st)
				nst[len(nst)-1].idx++
				b.edge(from, b.id(nst), skAction{Kind: op, Ch: name, Pos: b.pos(ins, top.fn)}, 0)
				return
			}
			if f, k := b.race.callAccess(&x.Call); f != "" {
				nst := cloneStack(st)
				nst[len(nst)-1].idx++
				b.edge(from, b.id(nst), skAction{Kind: "acc", Ch: f + ":" + k, Pos: top.fn.Name() + " " + b.pos(ins, top.fn)}, 0)
				return
			}
			var callee *ssa.Function
			if f := x.Call.StaticCallee(); f != nil {
				callee = f
			} else if mc, ok := x.Call.Value.(*ssa.MakeClosure); ok {
				callee = mc.Fn.(*ssa.Function)
			}
			if b.race != nil && callee != nil && !b.relevant[callee] {
				// a function literal handed to a call outside the skeleton (db.Update / db.View run it synchronously)
				for _, a := range x.Call.Args {
					if mc, ok := a.(*ssa.MakeClosure); ok && b.relevant[mc.Fn.(*ssa.Function)] {
						callee = mc.Fn.(*ssa.Function)
					}
				}
			}
			adv()
			if callee != nil && b.relevant[callee] && len(callee.Blocks) > 0 {
				if len(st) > 12 {
					b.proc.Notes = append(b.proc.Notes, "call depth cut at "+callee.String())
					continue
				}
				st = append(st, skFrame{fn: callee, ret: -1})
			}
		case *ssa.Store:
			if g := b.race.globalOf(x.Addr); g != "" {
				nst := cloneStack(st)
				nst[len(nst)-1].idx++
				b.edge(from, b.id(nst), skAction{Kind: "acc", Ch: g + ":w", Pos: top.fn.Name() + " " + b.pos(ins, top.fn)}, 0)
				return
			}
			adv()
		case *ssa.FieldAddr:
			if f, k := b.race.access(x); f != "" {
				nst := cloneStack(st)
				nst[len(nst)-1].idx++
				b.edge(from, b.id(nst), skAction{Kind: "acc", Ch: f + ":" + k, Pos: top.fn.Name() + " " + b.pos(ins, top.fn)}, 0)
				return
			}
			adv()
		default:
			adv()
		}
	}
	b.proc.Notes = append(b.proc.Notes, "expansion budget exhausted")
}

func buildProc(prog *symex.Program, rel map[*ssa.Function]bool, name string, root *ssa.Function) (*skProc, []string) {
	return buildProcRace(prog, rel, name, []*ssa.Function{root}, nil)
}

// buildProcRace: with several roots the process starts by choosing one of them (an API goroutine calling one entry point).
func buildProcRace(prog *symex.Program, rel map[*ssa.Function]bool, name string, roots []*ssa.Function, rc *raceCfg) (*skProc, []string) {
	b := &skBuilder{prog: prog, relevant: rel, proc: &skProc{Name: name}, ids: map[string]int{}, states: map[string][]skFrame{}, race: rc}
	b.proc.Done = 0
	if len(roots) == 1 {
		b.proc.Init = b.id([]skFrame{{fn: roots[0], ret: -1}})
	} else {
		b.ids["<choose>"] = len(b.ids) + 1
		b.proc.Init = b.ids["<choose>"]
		for _, r := range roots {
			b.edge(b.proc.Init, b.id([]skFrame{{fn: r, ret: -1}}), skAction{Kind: "tau", Pos: "call " + r.Name()}, 0)
		}
	}
	for len(b.work) > 0 {
		k := b.work[0]
		b.work = b.work[1:]
		b.expand(k)
		if len(b.ids) > 20000 {
			b.proc.Notes = append(b.proc.Notes, "state budget exhausted")
			break
		}
	}
	b.proc.N = len(b.ids) + 1
	compressTau(b.proc)
	return b.proc, b.lines
}

// compressTau removes nodes whose only outgoing edge is a tau edge (keeps nondeterministic choices).
func compressTau(p *skProc) {
	for changed := true; changed; {
		changed = false
		out := map[int][]int{}
		for i, e := range p.Edges {
			out[e.From] = append(out[e.From], i)
		}
		redirect := map[int]int{}
		for n, es := range out {
			if len(es) == 1 && p.Edges[es[0]].Act.Kind == "tau" && p.Edges[es[0]].To != n {
				redirect[n] = p.Edges[es[0]].To
			}
		}
		if len(redirect) == 0 {
			break
		}
		res := func(n int) int {
			for i := 0; i < 64; i++ {
				t, ok := redirect[n]
				if !ok {
					return n
				}
				n = t
			}
			return n
		}
		var ne []skEdge
		for _, e := range p.Edges {
			if _, gone := redirect[e.From]; gone {
				changed = true
				continue
			}
			e.To = res(e.To)
			ne = append(ne, e)
		}
		p.Init = res(p.Init)
		p.Edges = ne
	}
	// drop duplicate edges
	seen := map[string]bool{}
	var ne []skEdge
	for _, e := range p.Edges {
		k := fmt.Sprintf("%d>%d:%s:%s:%d", e.From, e.To, e.Act.Kind, e.Act.Ch, e.Sel)
		if !seen[k] {
			seen[k] = true
			ne = append(ne, e)
		}
	}
	p.Edges = ne
}

// chanCaps reads the capacities of the handler's channels from NewNtfnsHandler / NewWalletTaskChan.
func chanCaps(pkg *ssa.Package) (map[string]int, []string) {
	caps := map[string]int{}
	var notes []string
	for _, name := range []string{"NewNtfnsHandler", "NewWalletTaskChan"} {
		fn := pkg.Func(name)
		if fn == nil {
			notes = append(notes, name+" not found")
			continue
		}
		for _, b := range fn.Blocks {
			for _, ins := range b.Instrs {
				st, ok := ins.(*ssa.Store)
				if !ok {
					continue
				}
				mc, ok := st.Val.(*ssa.MakeChan)
				if !ok {
					continue
				}
				fa, ok := st.Addr.(*ssa.FieldAddr)
				if !ok {
					continue
				}
				fname := fa.X.Type().Underlying().(*types.Pointer).Elem().Underlying().(*types.Struct).Field(fa.Field).Name()
				if c, ok := mc.Size.(*ssa.Const); ok {
					v, _ := constant.Int64Val(c.Value)
					caps[fname] = int(v)
				} else {
					caps[fname] = -1
				}
			}
		}
	}
	// task channel: max(size, MaxWaitingTaskNum+1); the smallest capacity is the constant
	if c, ok := caps["C"]; ok && c == -1 {
		if k, ok := pkg.Members["MaxWaitingTaskNum"].(*ssa.NamedConst); ok {
			v, _ := constant.Int64Val(k.Value.Value)
			caps["C"] = int(v) + 1
			notes = append(notes, fmt.Sprintf("task channel capacity = max(len(statuses), MaxWaitingTaskNum+1); modelled with the minimum %d", v+1))
		}
	}
	return caps, notes
}

// ---------- BMC encoding ----------

type bmcModel struct {
	procs   []*skProc
	caps    map[string]int
	chans   []string
	wgs     []string
	pcBits  int      // width of the program counters (0 = 8)
	mutexes []string // tracked mutexes (race mode)
	// race mode: pairs of (process, node) whose next actions conflict, filled by smt()
	conflicts []raceConflict
}

type raceConflict struct {
	field      string
	p, q       int
	pn, qn     int
	ppos, qpos string
	pw, qw     bool
}

func (m *bmcModel) smt(k int, envBlocks, envTasks int) (string, []string) {
	var sb strings.Builder
	w := func(f string, a ...interface{}) { fmt.Fprintf(&sb, f+"\n", a...) }
	chset := map[string]bool{}
	wgset := map[string]bool{"quitWg": true}
	for _, p := range m.procs {
		for _, e := range p.Edges {
			if e.Act.Ch != "" && !strings.HasPrefix(e.Act.Kind, "wg") && e.Act.Kind != "acc" && e.Act.Kind != "lock" && e.Act.Kind != "unlock" {
				chset[e.Act.Ch] = true
			}
			if strings.HasPrefix(e.Act.Kind, "wg") {
				wgset[strings.Split(e.Act.Ch, "+")[0]] = true
			}
		}
	}
	m.chans = nil
	for c := range chset {
		m.chans = append(m.chans, c)
	}
	sort.Strings(m.chans)
	var wgs []string
	for g := range wgset {
		wgs = append(wgs, g)
	}
	sort.Strings(wgs)
	m.wgs = wgs
	buffered := func(c string) bool { return m.caps[c] > 0 }
	pcw := m.pcBits
	if pcw == 0 {
		pcw = 8
	}
	mset := map[string]bool{}
	for _, p := range m.procs {
		for _, e := range p.Edges {
			if e.Act.Kind == "lock" || e.Act.Kind == "unlock" {
				mset[e.Act.Ch] = true
			}
		}
	}
	m.mutexes = nil
	for x := range mset {
		m.mutexes = append(m.mutexes, x)
	}
	sort.Strings(m.mutexes)
	for t := 0; t <= k; t++ {
		for i := range m.procs {
			w("(declare-const pc%d_%d (_ BitVec %d))", i, t, pcw)
		}
		for _, x := range m.mutexes {
			w("(declare-const mtx_%s_%d (_ BitVec 4))", x, t)
		}
		for _, c := range m.chans {
			w("(declare-const cnt_%s_%d (_ BitVec 4))", c, t)
			w("(declare-const closed_%s_%d Bool)", c, t)
		}
		for _, g := range wgs {
			w("(declare-const wg_%s_%d (_ BitVec 4))", g, t)
		}
	}
	// initial state: Start() has done quitWg.Add(2) and spawned follower and worker
	for i, p := range m.procs {
		w("(assert (= pc%d_0 (_ bv%d %d)))", i, p.Init, pcw)
	}
	for _, x := range m.mutexes {
		w("(assert (= mtx_%s_0 (_ bv0 4)))", x)
	}
	for _, c := range m.chans {
		w("(assert (= cnt_%s_0 (_ bv0 4)))", c)
		w("(assert (not closed_%s_0))", c)
	}
	for _, g := range wgs {
		if g == "quitWg" {
			w("(assert (= wg_%s_0 (_ bv2 4)))", g) // NtfnsHandler.Start: quitWg.Add(2); go handle; go worker
		} else {
			w("(assert (= wg_%s_0 (_ bv0 4)))", g)
		}
	}

	type tr struct {
		guard, effect string
		procs         []int
		label         string
		env           bool
	}
	// per step transitions are generated as functions of t
	gen := func(t int) []tr {
		var trs []tr
		at := func(i, n int) string { return fmt.Sprintf("(= pc%d_%d (_ bv%d %d))", i, t, n, pcw) }
		goes := func(i, n int) string { return fmt.Sprintf("(= pc%d_%d (_ bv%d %d))", i, t+1, n, pcw) }
		cnt := func(c string, tt int) string { return fmt.Sprintf("cnt_%s_%d", c, tt) }
		closed := func(c string, tt int) string { return fmt.Sprintf("closed_%s_%d", c, tt) }
		// enabledness of a single (non-rendezvous) edge, ignoring pc
		var readyAlone func(pi int, e skEdge) string
		readyAlone = func(pi int, e skEdge) string {
			c := e.Act.Ch
			switch e.Act.Kind {
			case "tau", "exit", "close", "wgdone", "wgadd", "acc", "unlock":
				return "true"
			case "lock":
				return fmt.Sprintf("(= mtx_%s_%d (_ bv0 4))", c, t)
			case "wgwait":
				return fmt.Sprintf("(= wg_%s_%d (_ bv0 4))", c, t)
			case "send":
				if buffered(c) {
					return fmt.Sprintf("(and (not %s) (bvult %s (_ bv%d 4)))", closed(c, t), cnt(c, t), capOf(m.caps[c]))
				}
				return "false" // unbuffered: needs a partner
			case "recv":
				if buffered(c) {
					return fmt.Sprintf("(or (not (= %s (_ bv0 4))) %s)", cnt(c, t), closed(c, t))
				}
				return closed(c, t)
			}
			return "false"
		}
		// partner readiness for unbuffered rendezvous: some other process sits at a node with a matching edge
		partner := func(pi int, e skEdge) string {
			if buffered(e.Act.Ch) || (e.Act.Kind != "send" && e.Act.Kind != "recv") {
				return "false"
			}
			want := "recv"
			if e.Act.Kind == "recv" {
				want = "send"
			}
			var alts []string
			for qi, q := range m.procs {
				if qi == pi {
					continue
				}
				for _, f := range q.Edges {
					if f.Act.Kind == want && f.Act.Ch == e.Act.Ch {
						alts = append(alts, at(qi, f.From))
					}
				}
			}
			if len(alts) == 0 {
				return "false"
			}
			return "(or " + strings.Join(alts, " ") + ")"
		}
		frame := func(changedPC map[int]bool, changedCnt map[string]bool, changedClosed map[string]bool, wgChanged string, mtxChanged ...string) string {
			var fs []string
			for _, x := range m.mutexes {
				if len(mtxChanged) == 0 || mtxChanged[0] != x {
					fs = append(fs, fmt.Sprintf("(= mtx_%s_%d mtx_%s_%d)", x, t+1, x, t))
				}
			}
			for i := range m.procs {
				if !changedPC[i] {
					fs = append(fs, fmt.Sprintf("(= pc%d_%d pc%d_%d)", i, t+1, i, t))
				}
			}
			for _, c := range m.chans {
				if !changedCnt[c] {
					fs = append(fs, fmt.Sprintf("(= %s %s)", cnt(c, t+1), cnt(c, t)))
				}
				if !changedClosed[c] {
					fs = append(fs, fmt.Sprintf("(= %s %s)", closed(c, t+1), closed(c, t)))
				}
			}
			for _, g := range m.wgs {
				if g != wgChanged {
					fs = append(fs, fmt.Sprintf("(= wg_%s_%d wg_%s_%d)", g, t+1, g, t))
				}
			}
			return strings.Join(fs, " ")
		}
		for pi, p := range m.procs {
			env := p.Name == "env"
			for _, e := range p.Edges {
				c := e.Act.Ch
				lbl := fmt.Sprintf("%s:%s %s @%s", p.Name, e.Act.Kind, c, e.Act.Pos)
				switch e.Act.Kind {
				case "default":
					// enabled iff no other case of the same select is ready
					var others []string
					for _, f := range p.Edges {
						if f.Sel == e.Sel && f.From == e.From && f.Act.Kind != "default" {
							others = append(others, fmt.Sprintf("(or %s %s)", readyAlone(pi, f), partner(pi, f)))
						}
					}
					g := at(pi, e.From)
					if len(others) > 0 {
						g = fmt.Sprintf("(and %s (not (or %s)))", g, strings.Join(others, " "))
					}
					trs = append(trs, tr{guard: g, effect: goes(pi, e.To) + " " + frame(map[int]bool{pi: true}, nil, nil, ""), procs: []int{pi}, label: lbl, env: env})
				case "tau", "exit", "acc":
					trs = append(trs, tr{guard: at(pi, e.From), effect: goes(pi, e.To) + " " + frame(map[int]bool{pi: true}, nil, nil, ""), procs: []int{pi}, label: lbl, env: env})
				case "lock":
					trs = append(trs, tr{guard: fmt.Sprintf("(and %s (= mtx_%s_%d (_ bv0 4)))", at(pi, e.From), c, t), effect: goes(pi, e.To) + fmt.Sprintf(" (= mtx_%s_%d (_ bv%d 4)) ", c, t+1, pi+1) + frame(map[int]bool{pi: true}, nil, nil, "", c), procs: []int{pi}, label: lbl, env: env})
				case "unlock":
					trs = append(trs, tr{guard: at(pi, e.From), effect: goes(pi, e.To) + fmt.Sprintf(" (= mtx_%s_%d (_ bv0 4)) ", c, t+1) + frame(map[int]bool{pi: true}, nil, nil, "", c), procs: []int{pi}, label: lbl, env: env})
				case "close":
					trs = append(trs, tr{guard: at(pi, e.From), effect: goes(pi, e.To) + " " + closed(c, t+1) + " " + frame(map[int]bool{pi: true}, nil, map[string]bool{c: true}, ""), procs: []int{pi}, label: lbl, env: env})
				case "wgdone":
					trs = append(trs, tr{guard: at(pi, e.From), effect: goes(pi, e.To) + fmt.Sprintf(" (= wg_%s_%d (bvsub wg_%s_%d (_ bv1 4))) ", c, t+1, c, t) + frame(map[int]bool{pi: true}, nil, nil, c), procs: []int{pi}, label: lbl, env: env})
				case "wgadd":
					parts := strings.Split(c, "+")
					trs = append(trs, tr{guard: at(pi, e.From), effect: goes(pi, e.To) + fmt.Sprintf(" (= wg_%s_%d (bvadd wg_%s_%d (_ bv%s 4))) ", parts[0], t+1, parts[0], t, parts[1]) + frame(map[int]bool{pi: true}, nil, nil, parts[0]), procs: []int{pi}, label: lbl, env: env})
				case "wgwait":
					trs = append(trs, tr{guard: fmt.Sprintf("(and %s (= wg_%s_%d (_ bv0 4)))", at(pi, e.From), c, t), effect: goes(pi, e.To) + " " + frame(map[int]bool{pi: true}, nil, nil, ""), procs: []int{pi}, label: lbl, env: env})
				case "send":
					if buffered(c) {
						trs = append(trs, tr{guard: fmt.Sprintf("(and %s %s)", at(pi, e.From), readyAlone(pi, e)), effect: goes(pi, e.To) + fmt.Sprintf(" (= %s (bvadd %s (_ bv1 4))) ", cnt(c, t+1), cnt(c, t)) + frame(map[int]bool{pi: true}, map[string]bool{c: true}, nil, ""), procs: []int{pi}, label: lbl, env: env})
					} else {
						// rendezvous with every matching receive of another process
						for qi, q := range m.procs {
							if qi == pi {
								continue
							}
							for _, f := range q.Edges {
								if f.Act.Kind == "recv" && f.Act.Ch == c {
									trs = append(trs, tr{guard: fmt.Sprintf("(and %s %s (not %s))", at(pi, e.From), at(qi, f.From), closed(c, t)),
										effect: goes(pi, e.To) + " " + goes(qi, f.To) + " " + frame(map[int]bool{pi: true, qi: true}, nil, nil, ""),
										procs:  []int{pi, qi}, label: lbl + " <-> " + q.Name + " @" + f.Act.Pos, env: env && q.Name == "env"})
								}
							}
						}
					}
				case "recv":
					if buffered(c) {
						trs = append(trs, tr{guard: fmt.Sprintf("(and %s (not (= %s (_ bv0 4))))", at(pi, e.From), cnt(c, t)), effect: goes(pi, e.To) + fmt.Sprintf(" (= %s (bvsub %s (_ bv1 4))) ", cnt(c, t+1), cnt(c, t)) + frame(map[int]bool{pi: true}, map[string]bool{c: true}, nil, ""), procs: []int{pi}, label: lbl, env: env})
						trs = append(trs, tr{guard: fmt.Sprintf("(and %s (= %s (_ bv0 4)) %s)", at(pi, e.From), cnt(c, t), closed(c, t)), effect: goes(pi, e.To) + " " + frame(map[int]bool{pi: true}, nil, nil, ""), procs: []int{pi}, label: lbl + " (closed)", env: env})
					} else {
						trs = append(trs, tr{guard: fmt.Sprintf("(and %s %s)", at(pi, e.From), closed(c, t)), effect: goes(pi, e.To) + " " + frame(map[int]bool{pi: true}, nil, nil, ""), procs: []int{pi}, label: lbl + " (closed)", env: env})
					}
				}
			}
		}
		return trs
	}
	var labels []string
	for t := 0; t < k; t++ {
		trs := gen(t)
		if t == 0 {
			for _, x := range trs {
				labels = append(labels, x.label)
			}
		}
		w("(declare-const choice_%d (_ BitVec 12))", t)
		var alts []string
		for i, x := range trs {
			alts = append(alts, fmt.Sprintf("(and (= choice_%d (_ bv%d 12)) %s %s)", t, i, x.guard, x.effect))
		}
		// stutter (keeps the state) so that a deadlocked state can be extended to depth k
		alts = append(alts, fmt.Sprintf("(and (= choice_%d (_ bv4095 12)) %s)", t, func() string {
			var fs []string
			for i := range m.procs {
				fs = append(fs, fmt.Sprintf("(= pc%d_%d pc%d_%d)", i, t+1, i, t))
			}
			for _, c := range m.chans {
				fs = append(fs, fmt.Sprintf("(= cnt_%s_%d cnt_%s_%d)", c, t+1, c, t), fmt.Sprintf("(= closed_%s_%d closed_%s_%d)", c, t+1, c, t))
			}
			for _, g := range m.wgs {
				fs = append(fs, fmt.Sprintf("(= wg_%s_%d wg_%s_%d)", g, t+1, g, t))
			}
			for _, x := range m.mutexes {
				fs = append(fs, fmt.Sprintf("(= mtx_%s_%d mtx_%s_%d)", x, t+1, x, t))
			}
			return strings.Join(fs, " ")
		}()))
		w("(assert (or %s))", strings.Join(alts, "\n  "))
	}
	// property: at some step, Stop has closed quit, a goroutine of the wait group has not finished, and no
	// transition of the follower, the worker or Stop is enabled (environment actions only fill queues).
	var dls []string
	for t := 0; t <= k && chset["quit"]; t++ {
		trs := gen(t)
		var none []string
		for _, x := range trs {
			if !x.env {
				none = append(none, "(not "+x.guard+")")
			}
		}
		alive := fmt.Sprintf("(bvsgt wg_quitWg_%d (_ bv0 4))", t)
		dls = append(dls, fmt.Sprintf("(and closed_quit_%d %s %s)", t, alive, strings.Join(none, " ")))
	}
	w("(declare-const dl Bool)")
	if len(dls) > 0 {
		w("(assert (= dl (or %s)))", strings.Join(dls, "\n  "))
	}
	// wait group never negative
	var negs []string
	for t := 0; t <= k; t++ {
		for _, g := range m.wgs {
			negs = append(negs, fmt.Sprintf("(bvslt wg_%s_%d (_ bv0 4))", g, t))
		}
	}
	w("(declare-const wgneg Bool)")
	w("(assert (= wgneg (or %s)))", strings.Join(negs, " "))
	// race mode: two processes whose next actions are accesses of the same tracked field, one of them a write.
	// Locks and hand-shakes need no extra treatment: they decide which pairs of nodes are reachable together.
	m.conflicts = nil
	for pi, p := range m.procs {
		for qi, q := range m.procs {
			if qi <= pi {
				continue
			}
			for _, e := range p.Edges {
				if e.Act.Kind != "acc" {
					continue
				}
				ef, ew := accField(e.Act.Ch)
				for _, f := range q.Edges {
					if f.Act.Kind != "acc" {
						continue
					}
					ff, fw := accField(f.Act.Ch)
					if ef == ff && (ew || fw) {
						m.conflicts = append(m.conflicts, raceConflict{field: ef, p: pi, q: qi, pn: e.From, qn: f.From, ppos: e.Act.Pos, qpos: f.Act.Pos, pw: ew, qw: fw})
					}
				}
			}
		}
	}
	if len(m.conflicts) > 0 {
		for ci, c := range m.conflicts {
			var ts []string
			for t := 0; t <= k; t++ {
				ts = append(ts, fmt.Sprintf("(and (= pc%d_%d (_ bv%d %d)) (= pc%d_%d (_ bv%d %d)))", c.p, t, c.pn, pcw, c.q, t, c.qn, pcw))
			}
			w("(declare-const race_%d Bool)", ci)
			w("(assert (= race_%d (or %s)))", ci, strings.Join(ts, " "))
			// vacuity witness: each of the two access nodes is reached at some step (not necessarily the same)
			var tp, tq []string
			for t := 0; t <= k; t++ {
				tp = append(tp, fmt.Sprintf("(= pc%d_%d (_ bv%d %d))", c.p, t, c.pn, pcw))
				tq = append(tq, fmt.Sprintf("(= pc%d_%d (_ bv%d %d))", c.q, t, c.qn, pcw))
			}
			w("(declare-const wit_%d Bool)", ci)
			w("(assert (= wit_%d (and (or %s) (or %s))))", ci, strings.Join(tp, " "), strings.Join(tq, " "))
		}
	}
	return sb.String(), labels
}

// capOf: capacities above the 4-bit counter range behave as "never full" for the bounded environment.
func capOf(c int) int {
	if c > 15 {
		return 15
	}
	return c
}

func runZ3(script string, timeout time.Duration) (string, error) {
	bin := "z3" // 4.8.12: on this unrolled product it is several times faster than 5.1.0
	if v := os.Getenv("VERIF_BMC_SOLVER"); v != "" {
		bin = v
	}
	cmd := exec.Command(bin, "-in", fmt.Sprintf("-T:%d", int(timeout.Seconds())))
	cmd.Stdin = strings.NewReader(script)
	var out bytes.Buffer
	cmd.Stdout = &out
	cmd.Stderr = &out
	err := cmd.Run()
	return out.String(), err
}

// envProc: the environment announces up to nb blocks and queues up to nt tasks through the real
// PushImport skeleton (select send / default).
func envProc(nb, nt int) *skProc {
	p := &skProc{Name: "env", Init: 1, Done: 0}
	n := 1
	for i := 0; i < nb; i++ {
		p.Edges = append(p.Edges, skEdge{From: n, To: n + 1, Act: skAction{Kind: "send", Ch: "queueBlock", Pos: "OnBlockConnected"}})
		p.Edges = append(p.Edges, skEdge{From: n, To: n + 1, Act: skAction{Kind: "tau", Pos: "no block"}})
		n++
	}
	for i := 0; i < nt; i++ {
		p.Edges = append(p.Edges, skEdge{From: n, To: n + 1, Act: skAction{Kind: "send", Ch: "C", Pos: "PushImport/PushRemove"}, Sel: 1000 + i})
		p.Edges = append(p.Edges, skEdge{From: n, To: n + 1, Act: skAction{Kind: "default", Pos: "PushImport/PushRemove"}, Sel: 1000 + i})
		n++
	}
	p.N = n + 1
	return p
}

type c20Known struct {
	Blocked string // substring of the blocked operation's label
}

// checkC20core: the synchronisation-skeleton model check. Returns violations, inconclusive notes, the coverage map and
// the assumptions; cmdCheck merges them with the C20 harnesses of the registry and writes the evidence.
func checkC20core(tier string, seed int, t0 time.Time) (int, []string, map[string]interface{}, []string) {
	id := "C20"
	prog, err := loadProgram([]string{"masswallet"})
	if err != nil {
		return 0, []string{"syncbmc: " + err.Error()}, nil, nil
	}
	pkg := prog.Pkgs[modulePath+"/masswallet"]
	rel := computeRelevant(pkg)
	var relNames []string
	for f := range rel {
		relNames = append(relNames, f.String())
	}
	sort.Strings(relNames)
	roots := map[string]*ssa.Function{"follower": pkg.Func("handle"), "worker": pkg.Func("worker")}
	nh := pkg.Type("WalletManager")
	if nh != nil {
		if sel := prog.Prog.MethodSets.MethodSet(types.NewPointer(nh.Type())).Lookup(pkg.Pkg, "Stop"); sel != nil {
			roots["stop"] = prog.Prog.MethodValue(sel)
		}
	}
	fmt.Fprintf(os.Stderr, "syncbmc: %d functions in the skeleton: %s\n", len(relNames), strings.Join(relNames, ", "))
	var inconclusive []string
	for n, f := range roots {
		if f == nil {
			inconclusive = append(inconclusive, "root function not found: "+n)
		}
	}
	if len(roots) < 3 || len(inconclusive) > 0 {
		return 0, append(inconclusive, "syncbmc: skeleton roots missing"), nil, nil
	}
	caps, capNotes := chanCaps(pkg)
	for _, c := range []string{"quit", "sigSuspend", "sigResume", "queueBlock", "queueMsgTx", "C"} {
		if v, ok := caps[c]; !ok || v < 0 {
			inconclusive = append(inconclusive, "capacity of channel "+c+" could not be resolved from NewNtfnsHandler/NewWalletTaskChan")
		}
	}
	var skeleton []string
	model := &bmcModel{caps: caps}
	for _, n := range []string{"follower", "worker", "stop"} {
		p, lines := buildProc(prog, rel, n, roots[n])
		model.procs = append(model.procs, p)
		skeleton = append(skeleton, lines...)
		fmt.Fprintf(os.Stderr, "syncbmc: %s automaton: %d nodes, %d edges (%d raw lines) notes=%v\n", n, p.N, len(p.Edges), len(lines), p.Notes)
		for _, note := range p.Notes {
			if strings.Contains(note, "budget") || strings.Contains(note, "fell off") {
				inconclusive = append(inconclusive, n+": "+note)
			}
		}
	}
	model.procs = append(model.procs, envProc(2, 2))
	k := 24
	if tier == "thorough" {
		k = 36
	}
	script, labels := model.smt(k, 2, 2)
	fmt.Fprintf(os.Stderr, "syncbmc: k=%d, %d transition labels, script %d bytes\n", k, len(labels), len(script))
	known := loadKnown()
	violations := 0
	var notes []string
	var samples []interface{}
	queries := 0
	solverSec := 0.0
	// query 1: wait group negative (runs concurrently with the deadlock search)
	type wgRes struct {
		verdict string
		sec     float64
	}
	wgCh := make(chan wgRes, 1)
	go func() {
		q0 := time.Now()
		out, _ := runZ3(script+"(assert wgneg)\n(check-sat)\n", 20*time.Minute)
		wgCh <- wgRes{strings.TrimSpace(strings.Split(out, "\n")[0]), time.Since(q0).Seconds()}
	}()
	var out string
	// query 2: deadlock after Stop; enumerate distinct blocked configurations, excluding known ones
	excl := ""
	for round := 0; round < 6; round++ {
		var vals strings.Builder
		for t := 0; t < k; t++ {
			fmt.Fprintf(&vals, "choice_%d ", t)
		}
		for t := 0; t <= k; t++ {
			fmt.Fprintf(&vals, "pc0_%d pc1_%d pc2_%d wg_quitWg_%d closed_quit_%d ", t, t, t, t, t)
		}
		q1 := time.Now()
		out, _ = runZ3(script+"(assert dl)\n"+excl+"(check-sat)\n(get-value ("+vals.String()+"))\n", 20*time.Minute)
		queries++
		solverSec += time.Since(q1).Seconds()
		fmt.Fprintf(os.Stderr, "syncbmc: deadlock query round %d: %.1fs\n", round, time.Since(q1).Seconds())
		lines := strings.Split(out, "\n")
		verdict := strings.TrimSpace(lines[0])
		if verdict == "unsat" {
			break
		}
		if verdict != "sat" {
			inconclusive = append(inconclusive, "deadlock query: "+verdict)
			break
		}
		vm := map[string]int{}
		for _, l := range lines[1:] {
			l = strings.TrimSpace(strings.Trim(strings.TrimSpace(l), "()"))
			l = strings.TrimSpace(strings.Trim(l, "()"))
			f := strings.Fields(strings.NewReplacer("(", " ", ")", " ").Replace(l))
			if len(f) >= 2 {
				neg := false
				val := f[len(f)-1]
				if len(f) >= 3 && f[len(f)-2] == "-" {
					neg = true
				}
				n, err := strconv.Atoi(val)
				if strings.HasPrefix(val, "#x") {
					u, e2 := strconv.ParseUint(val[2:], 16, 64)
					n, err = int(u), e2
				} else if strings.HasPrefix(val, "#b") {
					u, e2 := strconv.ParseUint(val[2:], 2, 64)
					n, err = int(u), e2
				}
				if err == nil {
					if neg {
						n = -n
					}
					vm[f[0]] = n
				} else if val == "true" {
					vm[f[0]] = 1
				} else if val == "false" {
					vm[f[0]] = 0
				}
			}
		}
		// find the deadlock step and the blocked operations
		dlStep := -1
		for t := 0; t <= k; t++ {
			if vm[fmt.Sprintf("closed_quit_%d", t)] == 1 && vm[fmt.Sprintf("wg_quitWg_%d", t)] > 0 && vm[fmt.Sprintf("wg_quitWg_%d", t)] < 8 {
				stuck := true
				for tt := t; tt < k; tt++ {
					if vm[fmt.Sprintf("choice_%d", tt)] != 4095 {
						c := vm[fmt.Sprintf("choice_%d", tt)]
						if c >= 0 && c < len(labels) && !strings.HasPrefix(labels[c], "env:") {
							stuck = false
						}
					}
				}
				if stuck {
					dlStep = t
					break
				}
			}
		}
		var trace []string
		for t := 0; t < k; t++ {
			c := vm[fmt.Sprintf("choice_%d", t)]
			if c >= 0 && c < len(labels) {
				trace = append(trace, labels[c])
			}
		}
		var blocked []string
		pcs := []int{vm[fmt.Sprintf("pc0_%d", k)], vm[fmt.Sprintf("pc1_%d", k)], vm[fmt.Sprintf("pc2_%d", k)]}
		for pi, p := range model.procs[:3] {
			for _, e := range p.Edges {
				if e.From == pcs[pi] && e.Act.Kind != "tau" {
					blocked = append(blocked, fmt.Sprintf("%s blocked at %s %s @%s", p.Name, e.Act.Kind, e.Act.Ch, e.Act.Pos))
				}
			}
		}
		sort.Strings(blocked)
		desc := strings.Join(blocked, "; ")
		_ = dlStep
		rp := filepath.Join(verifRoot, "replays", fmt.Sprintf("C20-deadlock-%d.json", round))
		js, _ := json.MarshalIndent(map[string]interface{}{"property": id, "kind": "deadlock-after-stop", "k": k, "trace": trace, "blocked": blocked, "final_pcs": pcs}, "", " ")
		os.MkdirAll(filepath.Join(verifRoot, "replays"), 0o755)
		os.WriteFile(rp, js, 0o644)
		samples = append(samples, map[string]interface{}{"trace": trace, "blocked": blocked})
		// replay: the blocked worker operation must be a send on sigSuspend/sigResume performed by suspend/resume
		reproduced, rnote := replayC20(blocked, trace)
		notes = append(notes, rnote)
		var kf *KnownFinding
		for i := range known {
			if known[i].Property == id && known[i].Status == "known" && strings.Contains(desc, known[i].Label) {
				kf = &known[i]
			}
		}
		switch {
		case !reproduced:
			inconclusive = append(inconclusive, "deadlock trace not confirmed natively: "+desc+" ("+rnote+")")
		case kf != nil:
			fmt.Printf("KNOWN-FINDING: property=%s %s\n", id, kf.What)
		default:
			fmt.Printf("VIOLATION property=%s replay=%s\n", id, rp)
			fmt.Printf("  deadlock after Stop: %s\n  trace: %s\n", desc, strings.Join(trace, " | "))
			violations++
		}
		// exclude every configuration in which the worker (or follower) is blocked in the same kind of operation,
		// so that the next round looks for a different deadlock
		excluded := false
		for pi, p := range model.procs[:2] {
			var kind, ch string
			for _, e := range p.Edges {
				if e.From == pcs[pi] && (e.Act.Kind == "send" || e.Act.Kind == "recv") {
					kind, ch = e.Act.Kind, e.Act.Ch
				}
			}
			if kind == "" {
				continue
			}
			var nodes []string
			seenN := map[int]bool{}
			for _, e := range p.Edges {
				if e.Act.Kind == kind && e.Act.Ch == ch && !seenN[e.From] {
					seenN[e.From] = true
					nodes = append(nodes, fmt.Sprintf("(= pc%d_%d (_ bv%d 8))", pi, k, e.From))
				}
			}
			if len(nodes) > 0 {
				excl += fmt.Sprintf("(assert (not (or %s)))\n", strings.Join(nodes, " "))
				excluded = true
			}
		}
		if !excluded {
			excl += fmt.Sprintf("(assert (not (and (= pc0_%d (_ bv%d 8)) (= pc1_%d (_ bv%d 8)))))\n", k, pcs[0], k, pcs[1])
		}
	}
	wr := <-wgCh
	queries++
	solverSec += wr.sec
	fmt.Fprintf(os.Stderr, "syncbmc: wait-group query: %.1fs %s\n", wr.sec, wr.verdict)
	if wr.verdict == "sat" {
		fmt.Printf("VIOLATION property=%s replay=%s\n", id, "(wait group counter negative; no replay)")
		violations++
	} else if wr.verdict != "unsat" {
		inconclusive = append(inconclusive, "wait-group query: "+wr.verdict)
	}
	// evidence
	states, trans := 0, 0
	for _, p := range model.procs {
		states += p.N
		trans += len(p.Edges)
	}
	if len(samples) == 0 {
		samples = append(samples, map[string]interface{}{"result": "no deadlock after Stop within the bound", "k": k})
	}
	cov := map[string]interface{}{
		"automata_states": states, "automata_transitions": trans, "traces_confirmed_natively": len(notes), "samples": samples,
		"bound_steps": k, "solver_queries": queries, "solver_seconds": round2(solverSec), "solver": "z3 4.8.12 (/usr/bin/z3), one query per obligation over the unrolled product",
		"functions_in_skeleton": relNames, "skeleton": skeleton, "channel_capacities": caps, "notes": append(capNotes, notes...),
		"explanation": "automata_states/transitions = nodes/edges of the extracted goroutine automata (follower, worker, Stop, environment); every interleaving of up to bound_steps scheduler steps is covered by the SMT query",
	}
	assumptions := []string{
		"sync_bmc: data abstraction: branches not decided by a select index are nondeterministic (adds behaviours only)",
		"sync_bmc: calls without synchronisation operations terminate; mutexes (database writer lock, keystore locks) are not modelled",
		"sync_bmc: Start has run: wait-group counter 2, follower and worker at their entry",
		"sync_bmc: environment: at most 2 announced blocks and 2 queued tasks; one Stop",
		"sync_bmc: bounded: no deadlock within the stated number of scheduler steps; liveness under fairness is outside the claim",
	}
	fmt.Fprintf(os.Stderr, "syncbmc: k=%d automata-states=%d edges=%d violations=%d wall=%.1fs\n", k, states, trans, violations, time.Since(t0).Seconds())
	return violations, inconclusive, cov, assumptions
}

// replayC20 confirms a deadlock natively: with quit closed and the real follower returned, the real
// suspend/resume call that the worker is blocked in must still be blocked after 2 seconds.
func replayC20(blocked []string, trace []string) (bool, string) {
	op := ""
	followerStuck := false
	for _, b := range blocked {
		if strings.HasPrefix(b, "worker blocked at send sigSuspend") {
			op = "suspend"
		}
		if strings.HasPrefix(b, "worker blocked at send sigResume") {
			op = "resume"
		}
		if strings.HasPrefix(b, "follower blocked at recv sigResume") {
			followerStuck = true
		}
	}
	if op == "" && followerStuck {
		// the worker left a task function after the suspend hand-shake without resuming
		fn := ""
		for _, l := range trace {
			if strings.HasPrefix(l, "worker:") {
				for _, f := range []string{"asyncImport", "asyncRemove"} {
					if strings.HasSuffix(l, "@"+f) {
						fn = f
					}
				}
			}
		}
		if fn != "" {
			return replayC20TaskLeak(fn)
		}
	}
	if op == "" {
		return false, "no native replay recipe for this blocked configuration"
	}
	tmp, err := os.MkdirTemp("", "verif-c20-")
	if err != nil {
		return false, err.Error()
	}
	defer os.RemoveAll(tmp)
	test := `//go:build verif

package masswallet

import (
	"fmt"
	"testing"
	"time"
)

func TestVerifC20Replay(t *testing.T) {
	h := &NtfnsHandler{quit: make(chan struct{}), sigSuspend: make(chan struct{}), sigResume: make(chan struct{})}
	h.quitWg.Add(2)
	close(h.quit) // Stop
	followerDone := make(chan struct{})
	go func() { handle(h); close(followerDone) }() // the real follower
	select {
	case <-followerDone:
	case <-time.After(2 * time.Second):
		fmt.Println("VERIF-C20 follower-did-not-return")
		return
	}
	opDone := make(chan struct{})
	go func() { h.` + op + `(false, "", nil); close(opDone) }() // the worker's hand-shake
	select {
	case <-opDone:
		fmt.Println("VERIF-C20 not-blocked")
	case <-time.After(2 * time.Second):
		fmt.Println("VERIF-C20 blocked-forever")
	}
}
`
	tf := filepath.Join(tmp, "zz_verif_c20_test.go")
	os.WriteFile(tf, []byte(test), 0o644)
	repl := map[string]string{filepath.Join(repoRoot, "masswallet", "zz_verif_c20_test.go"): tf}
	js, _ := json.Marshal(map[string]interface{}{"Replace": repl})
	ov := filepath.Join(tmp, "overlay.json")
	os.WriteFile(ov, js, 0o644)
	cmd := exec.Command("go", "test", "-tags", "verif", "-vet=off", "-count=1", "-v", "-run", "^TestVerifC20Replay$", "-overlay", ov, "-timeout", "120s", ".")
	cmd.Dir = filepath.Join(repoRoot, "masswallet")
	cmd.Env = append(os.Environ(), "GOFLAGS=-mod=mod", "GOPROXY=off", "GOSUMDB=off", "GOTOOLCHAIN=local")
	out, _ := cmd.CombinedOutput()
	txt := string(out)
	switch {
	case strings.Contains(txt, "VERIF-C20 blocked-forever"):
		return true, "native replay: after close(quit) the real handle() returned and the real " + op + "() was still blocked after 2s"
	case strings.Contains(txt, "VERIF-C20 not-blocked"):
		return false, "native replay: " + op + "() returned (not blocked)"
	}
	return false, "native replay inconclusive: " + tail(txt, 6)
}

// replayC20TaskLeak confirms natively that the real follower stays parked after the real task function fn
// failed in its database transaction: a real WalletManager over temporary databases (the package's own test
// helpers), the real handle() goroutine, fn called with a database whose BeginTx fails; afterwards a fresh
// suspend() must still be blocked after 2 s and, with quit closed, handle() must not return within 2 s.
func replayC20TaskLeak(fn string) (bool, string) {
	tmp, err := os.MkdirTemp("", "verif-c20-")
	if err != nil {
		return false, err.Error()
	}
	defer os.RemoveAll(tmp)
	call := "_, _ = h.asyncImport(id)"
	if fn == "asyncRemove" {
		call = "_ = h.asyncRemove(id)"
	}
	test := `//go:build verif

package masswallet

import (
	"errors"
	"fmt"
	"sync/atomic"
	"testing"
	"time"

	"massnet.org/mass-wallet/config"
	mwdb "massnet.org/mass-wallet/masswallet/db"
)

type verifFailDB struct {
	mwdb.DB
	armed int32
}

func (d *verifFailDB) BeginTx() (mwdb.DBTransaction, error) {
	if atomic.LoadInt32(&d.armed) == 1 {
		return nil, errors.New("verif: injected database error")
	}
	return d.DB.BeginTx()
}

func TestVerifC20Replay(t *testing.T) {
	chainDb, closeChain, err := newTestChainDB(2)
	if err != nil {
		fmt.Println("VERIF-C20 setup-failed", err)
		return
	}
	defer closeChain()
	rawDb, teardown, err := testDB("verifC20Replay")
	if err != nil {
		fmt.Println("VERIF-C20 setup-failed", err)
		return
	}
	defer teardown()
	fdb := &verifFailDB{DB: rawDb}
	w, err := NewWalletManager(&mockServer{chainDb}, fdb, cfg, config.ChainParams, pubPassphrase)
	if err != nil {
		fmt.Println("VERIF-C20 setup-failed", err)
		return
	}
	id, _, _, err := w.CreateWallet(privPassphrase, "", defaultBitSize)
	if err != nil {
		fmt.Println("VERIF-C20 setup-failed", err)
		return
	}
	h := w.ntfnsHandler
	h.quitWg.Add(1)
	followerDone := make(chan struct{})
	go func() { handle(h); close(followerDone) }() // the real follower
	atomic.StoreInt32(&fdb.armed, 1)
	taskDone := make(chan struct{})
	go func() { ` + call + `; close(taskDone) }() // the real task function, its database transaction fails
	select {
	case <-taskDone:
	case <-time.After(5 * time.Second):
		fmt.Println("VERIF-C20 task-did-not-return")
		return
	}
	atomic.StoreInt32(&fdb.armed, 0)
	probe := make(chan struct{})
	go func() {
		if h.suspend(false, "", nil) {
			h.resume(false, "", nil)
		}
		close(probe)
	}()
	select {
	case <-probe:
		fmt.Println("VERIF-C20 not-blocked")
		close(h.quit)
		return
	case <-time.After(2 * time.Second):
	}
	close(h.quit) // Stop
	select {
	case <-followerDone:
		fmt.Println("VERIF-C20 not-blocked")
	case <-time.After(2 * time.Second):
		fmt.Println("VERIF-C20 blocked-forever")
	}
}
`
	tf := filepath.Join(tmp, "zz_verif_c20_test.go")
	os.WriteFile(tf, []byte(test), 0o644)
	repl := map[string]string{filepath.Join(repoRoot, "masswallet", "zz_verif_c20_test.go"): tf}
	js, _ := json.Marshal(map[string]interface{}{"Replace": repl})
	ov := filepath.Join(tmp, "overlay.json")
	os.WriteFile(ov, js, 0o644)
	cmd := exec.Command("go", "test", "-tags", "verif", "-vet=off", "-count=1", "-v", "-run", "^TestVerifC20Replay$", "-overlay", ov, "-timeout", "180s", ".")
	cmd.Dir = filepath.Join(repoRoot, "masswallet")
	cmd.Env = append(os.Environ(), "GOFLAGS=-mod=mod", "GOPROXY=off", "GOSUMDB=off", "GOTOOLCHAIN=local")
	out, _ := cmd.CombinedOutput()
	txt := string(out)
	switch {
	case strings.Contains(txt, "VERIF-C20 blocked-forever"):
		return true, "native replay: after the real " + fn + "() failed in its database transaction the real handle() stayed parked: a new suspend() was still blocked after 2s and handle() did not return on close(quit)"
	case strings.Contains(txt, "VERIF-C20 not-blocked"):
		return false, "native replay: follower not parked after a failed " + fn + "()"
	}
	return false, "native replay inconclusive: " + tail(txt, 6)
}
