package main

import (
	"encoding/json"
	"fmt"
	"os"
	"os/exec"
	"path/filepath"
	"sort"
	"strings"
	"sync"
	"time"

	"verifeng/symex"
)

// Translator validation (DESIGN 4.4): every harness run also asks the solver for a concrete input per
// finished path (symex.Witness). Those inputs are run natively against the real build; the native outcome and
// the set of reached labels must be what the symbolic path said. This cross-checks the encoder (instructions,
// intrinsics, the model database, contract stubs) on inputs that the solver picked path by path.

type witnessJob struct {
	h Harness
	w symex.Witness
}

type validationStats struct {
	Witnesses   int      `json:"witness_inputs"`
	Strict      int      `json:"agree_outcome_reached_labels_draw_count_and_observed_values"`
	Values      int      `json:"observed_values_compared"`
	Weak        int      `json:"agree_no_failure_only"`
	WeakWhy     string   `json:"weak_reason,omitempty"`
	SkippedUF   int      `json:"skipped_model_disagrees_with_real_hash"`
	Mismatches  []string `json:"mismatches,omitempty"`
	NativeFails []string `json:"native_failures,omitempty"`
}

type nativeResult struct {
	outcome string
	draws   int
	observed []string
	reached []string
	err     error
	text    string
}

// buildTestBinary compiles the package's test binary with the harness overlay and the generated driver.
func buildTestBinary(pkgRel string) (string, func(), error) {
	ov, cleanup, err := writeOverlayJSON(pkgRel)
	if err != nil {
		return "", nil, err
	}
	bin := filepath.Join(filepath.Dir(ov), "pkg.test")
	cmd := exec.Command("go", "test", "-c", "-tags", "verif", "-vet=off", "-overlay", ov, "-o", bin, ".")
	cmd.Dir = filepath.Join(repoRoot, pkgRel)
	cmd.Env = append(os.Environ(), "GOFLAGS=-mod=mod", "GOPROXY=off", "GOSUMDB=off", "GOTOOLCHAIN=local")
	out, err := cmd.CombinedOutput()
	if err != nil {
		cleanup()
		return "", nil, fmt.Errorf("go test -c in %s: %v\n%s", pkgRel, err, tail(string(out), 20))
	}
	return bin, cleanup, nil
}

func runNativeVector(bin, pkgRel, vecPath string) nativeResult {
	cmd := exec.Command(bin, "-test.run", "^TestVerifReplay$", "-test.v", "-test.timeout", "120s")
	cmd.Dir = filepath.Join(repoRoot, pkgRel)
	cmd.Env = append(os.Environ(), "VERIF_REPLAY="+vecPath)
	done := make(chan struct{})
	var out []byte
	go func() { out, _ = cmd.CombinedOutput(); close(done) }()
	select {
	case <-done:
	case <-time.After(150 * time.Second):
		if cmd.Process != nil {
			cmd.Process.Kill()
		}
		<-done
	}
	txt := string(out)
	r := nativeResult{text: txt}
	for _, l := range strings.Split(txt, "\n") {
		if strings.HasPrefix(l, "VERIF-REPLAY-OUTCOME ") {
			r.outcome = strings.TrimPrefix(l, "VERIF-REPLAY-OUTCOME ")
		}
		if strings.HasPrefix(l, "VERIF-DRAWS ") {
			fmt.Sscan(strings.TrimPrefix(l, "VERIF-DRAWS "), &r.draws)
		}
		if strings.HasPrefix(l, "VERIF-OBSERVE ") {
			r.observed = append(r.observed, strings.TrimPrefix(l, "VERIF-OBSERVE "))
		}
		if strings.HasPrefix(l, "VERIF-REACHED ") {
			r.reached = append(r.reached, strings.TrimPrefix(l, "VERIF-REACHED "))
		}
	}
	sort.Strings(r.reached)
	if r.outcome == "" {
		if strings.Contains(txt, "panic:") || strings.Contains(txt, "fatal error:") {
			r.outcome = "panic:uncaught"
		} else {
			r.err = fmt.Errorf("no outcome:\n%s", tail(txt, 15))
		}
	}
	return r
}

// validateWitnesses runs all witness inputs natively. Returns per-harness statistics, the inconclusive notes
// (translation mismatches) and the natively failing inputs (assertion or panic on the real build for an input
// the encoding said was fine) as violation records.
type nativeFailure struct {
	h       Harness
	v       symex.Violation
	rpath   string
	outcome string
}

type binFuture struct {
	done    chan struct{}
	bin     string
	cleanup func()
	err     error
}

var binFutures = map[string]*binFuture{}

// prebuildTestBinaries starts the compilation of the native test binaries while the symbolic runs go on.
func prebuildTestBinaries(pkgs []string) {
	for _, p := range pkgs {
		if binFutures[p] != nil {
			continue
		}
		f := &binFuture{done: make(chan struct{})}
		binFutures[p] = f
		go func(p string) {
			f.bin, f.cleanup, f.err = buildTestBinary(p)
			close(f.done)
		}(p)
	}
}

func testBinary(pkg string) (string, func(), error) {
	if f := binFutures[pkg]; f != nil {
		<-f.done
		delete(binFutures, pkg)
		return f.bin, f.cleanup, f.err
	}
	return buildTestBinary(pkg)
}

func dropPrebuilt() {
	for p, f := range binFutures {
		<-f.done
		if f.cleanup != nil {
			f.cleanup()
		}
		delete(binFutures, p)
	}
}

func validateWitnesses(id string, jobs []witnessJob) (map[string]*validationStats, []string, []nativeFailure) {
	stats := map[string]*validationStats{}
	var inconclusive []string
	var fails []nativeFailure
	defer dropPrebuilt()
	if len(jobs) == 0 {
		return stats, nil, nil
	}
	byPkg := map[string][]int{}
	for i, j := range jobs {
		byPkg[j.h.Pkg] = append(byPkg[j.h.Pkg], i)
		if stats[j.h.Name] == nil {
			stats[j.h.Name] = &validationStats{}
		}
	}
	tmp, err := os.MkdirTemp("", "verif-validate-")
	if err != nil {
		return stats, []string{"translator validation: " + err.Error()}, nil
	}
	defer os.RemoveAll(tmp)
	results := make([]nativeResult, len(jobs))
	paths := make([]string, len(jobs))
	var pkgs []string
	for p := range byPkg {
		pkgs = append(pkgs, p)
	}
	sort.Strings(pkgs)
	for _, pkg := range pkgs {
		bin, cleanup, err := testBinary(pkg)
		if err != nil {
			inconclusive = append(inconclusive, "translator validation: "+err.Error())
			for _, i := range byPkg[pkg] {
				results[i].err = fmt.Errorf("no test binary")
			}
			continue
		}
		var wg sync.WaitGroup
		sem := make(chan struct{}, 12)
		for _, i := range byPkg[pkg] {
			j := jobs[i]
			rf := &replayFile{Harness: j.h.Func, Pkg: j.h.Pkg, Func: j.h.Func, Property: id, Kind: "witness", Label: j.w.End, Values: j.w.Values, Names: j.w.Names, Cuts: j.h.Cuts}
			js, _ := json.MarshalIndent(rf, "", " ")
			paths[i] = filepath.Join(tmp, fmt.Sprintf("w%d.json", i))
			os.WriteFile(paths[i], js, 0o644)
			wg.Add(1)
			sem <- struct{}{}
			go func(i int) {
				defer wg.Done()
				defer func() { <-sem }()
				results[i] = runNativeVector(bin, pkg, paths[i])
			}(i)
		}
		wg.Wait()
		cleanup()
	}
	for i, j := range jobs {
		st := stats[j.h.Name]
		r := results[i]
		if r.err != nil {
			if r.err.Error() != "no test binary" {
				inconclusive = append(inconclusive, fmt.Sprintf("%s: translator validation run failed: %v", j.h.Name, r.err))
			}
			continue
		}
		st.Witnesses++
		want := "ok"
		if j.w.End == "assume" {
			want = "assume"
		}
		failed := strings.HasPrefix(r.outcome, "assert:") || strings.HasPrefix(r.outcome, "panic:")
		if failed {
			// the real build fails on an input the encoding accepted: keep the vector as a replay file
			v := symex.Violation{Kind: "assert", Label: strings.TrimPrefix(r.outcome, "assert:"), Pos: "native run of a solver-chosen path input", Model: j.w.Values, Nondets: j.w.Names}
			if strings.HasPrefix(r.outcome, "panic:") {
				v.Kind, v.Label = "panic", strings.TrimPrefix(r.outcome, "panic:")
			}
			rf := &replayFile{Harness: j.h.Func, Pkg: j.h.Pkg, Func: j.h.Func, Property: id, Kind: v.Kind, Label: v.Label, Pos: v.Pos, Values: j.w.Values, Names: j.w.Names, Cuts: j.h.Cuts}
			js, _ := json.MarshalIndent(rf, "", " ")
			os.MkdirAll(filepath.Join(verifRoot, "replays"), 0o755)
			rp := filepath.Join(verifRoot, "replays", fmt.Sprintf("%s-%s-native-%d.json", id, j.h.Name, i))
			os.WriteFile(rp, js, 0o644)
			st.NativeFails = append(st.NativeFails, fmt.Sprintf("%s values=%v", r.outcome, j.w.Values))
			fails = append(fails, nativeFailure{h: j.h, v: v, rpath: rp, outcome: r.outcome})
			continue
		}
		weak := ""
		switch {
		case len(j.h.Redirect) > 0 && !j.h.RedirectFaithful:
			weak = "dependency functions are replaced by models in the symbolic run only (redirect)"
		case j.w.Opaque:
			weak = "the path applies uninterpreted functions without a real implementation in the engine (curve, scrypt, PBKDF2)"
		}
		if j.w.UsesUF && !j.w.Refined && weak == "" {
			st.SkippedUF++
			st.Witnesses--
			continue
		}
		if weak != "" {
			st.Weak++
			st.WeakWhy = weak
			continue
		}
		obsOK := len(r.observed) == len(j.w.Observed) || j.w.End == "assume"
		if obsOK && j.w.End != "assume" {
			for k, o := range j.w.Observed {
				if o != "" && o != r.observed[k] {
					obsOK = false
				}
				if o != "" {
					st.Values++
				}
			}
		}
		drawsOK := j.w.End == "assume" || r.draws == j.w.Draws
		if r.outcome == want && drawsOK && obsOK && strings.Join(r.reached, ",") == strings.Join(j.w.Reached, ",") {
			st.Strict++
			continue
		}
		if !obsOK {
			want += fmt.Sprintf(" observed=%v (native %v)", j.w.Observed, r.observed)
		}
		if !drawsOK {
			want += fmt.Sprintf(" draws=%d (native %d)", j.w.Draws, r.draws)
		}
		msg := fmt.Sprintf("path end %q (expects %s) reached=%v but native outcome %q reached=%v for values %v", j.w.End, want, j.w.Reached, r.outcome, r.reached, j.w.Values)
		st.Mismatches = append(st.Mismatches, msg)
		inconclusive = append(inconclusive, fmt.Sprintf("%s: TRANSLATION-MISMATCH %s", j.h.Name, msg))
	}
	return stats, inconclusive, fails
}
