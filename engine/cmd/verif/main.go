// Command verif: solver-based checks of MassNet-wallet (SSA -> SMT-LIB2 -> z3).
package main

import (
	"encoding/json"
	"flag"
	"fmt"
	"os"
	"path/filepath"
	"regexp"
	"runtime"
	"runtime/debug"
	"runtime/pprof"
	"strings"
	"time"

	"verifeng/symex"
)

const (
	verifRoot  = "/verif"
	modulePath = "massnet.org/mass-wallet"
)

// repoRoot is /repo. VERIF_REPO overrides it for development only (evaluating a seeded change in a
// scratch worktree without touching /repo); the registered MANIFEST commands never set it.
var repoRoot = func() string {
	if v := os.Getenv("VERIF_REPO"); v != "" {
		return v
	}
	return "/repo"
}()

type Harness struct {
	Name     string            `json:"name"`     // short id, e.g. c15_parse_short
	Pkg      string            `json:"pkg"`      // import path relative to the module ("api")
	Func     string            `json:"func"`     // harness function
	Property string            `json:"property"` // C15
	Tier     string            `json:"tier"`     // quick | thorough (thorough tier runs quick ones too)
	Mode     string            `json:"mode"`     // bv | int
	BigW     int               `json:"bigw"`
	LazyBig  bool              `json:"lazy_big_bytes,omitempty"`
	AbsHex   bool              `json:"abs_hex,omitempty"`
	ScaleConsts map[string]map[string]int64 `json:"scale_consts,omitempty"`
	MaxSteps int64             `json:"max_steps,omitempty"`
	Unwind   int               `json:"unwind"`
	Cuts     []string          `json:"cuts"`
	Redirect map[string]string `json:"redirect"`
	RedirectFaithful bool      `json:"redirect_faithful,omitempty"` // the models are meant to be observationally equal to the real functions: native validation compares strictly
	MaxPaths int               `json:"max_paths"`
	Bounds   string            `json:"bounds"`
	Outside  string            `json:"outside"`
	Stubs    []string          `json:"stubs"`
	Assumes  []string          `json:"assumptions"`
	Reach    []string          `json:"reach"` // witnesses that must be reachable
	TimeoutS int               `json:"query_timeout_s"`
	Workers  int               `json:"workers"`
	Solver   string            `json:"solver"` // override of the per-mode default, e.g. "z3 -in"
}

type Registry struct {
	Harnesses []Harness `json:"harnesses"`
}

func loadRegistry() (*Registry, error) {
	b, err := os.ReadFile(filepath.Join(verifRoot, "harness", "registry.json"))
	if err != nil {
		return nil, err
	}
	var r Registry
	if err := json.Unmarshal(b, &r); err != nil {
		return nil, fmt.Errorf("registry.json: %v", err)
	}
	return &r, nil
}

// Cut: a /repo function that harnesses may replace by a contract stub. The real declaration is renamed to
// <name>__real in an overlay copy generated from the current source; the harness overlay declares a function
// of the original name that delegates to <name>__real unless the harness activates the cut (rt.CutActive).
type Cut struct {
	Pkg  string `json:"pkg"`  // directory relative to the module
	File string `json:"file"` // file declaring the function
	Recv string `json:"recv"` // receiver type name ("" for a plain function)
	Name string `json:"name"`
}

func loadCuts() ([]Cut, error) {
	b, err := os.ReadFile(filepath.Join(verifRoot, "harness", "cuts.json"))
	if err != nil {
		if os.IsNotExist(err) {
			return nil, nil
		}
		return nil, err
	}
	var cs struct {
		Cuts      []Cut      `json:"cuts"`
		CallSites []CallSite `json:"callsites"`
	}
	if err := json.Unmarshal(b, &cs); err != nil {
		return nil, fmt.Errorf("cuts.json: %v", err)
	}
	callSites = cs.CallSites
	return cs.Cuts, nil
}

// CallSite: a call of a dependency function inside a /repo file that harnesses observe or replace. In the overlay copy
// generated from the current source the text From is replaced by To (a wrapper declared in the harness overlay that
// delegates to the real function unless the harness activates a cut). From must occur exactly Count times - a source
// that changed shape makes the load fail (INCONCLUSIVE) instead of leaving a call unobserved.
type CallSite struct {
	Pkg   string `json:"pkg"`
	File  string `json:"file"`
	From  string `json:"from"`
	To    string `json:"to"`
	Count int    `json:"count"`
}

var callSites []CallSite

// cutOverlays returns, per source file path under /repo, the rewritten content (real declarations renamed).
func cutOverlays() (map[string][]byte, error) {
	cuts, err := loadCuts()
	if err != nil {
		return nil, err
	}
	out := map[string][]byte{}
	for _, c := range cuts {
		path := filepath.Join(repoRoot, c.Pkg, c.File)
		src, ok := out[path]
		if !ok {
			src, err = os.ReadFile(path)
			if err != nil {
				return nil, fmt.Errorf("cut %s.%s: %v", c.Pkg, c.Name, err)
			}
		}
		var re *regexp.Regexp
		if c.Recv != "" {
			re = regexp.MustCompile(`(?m)^func \((\w+) \*?` + regexp.QuoteMeta(c.Recv) + `\) ` + regexp.QuoteMeta(c.Name) + `\(`)
		} else {
			re = regexp.MustCompile(`(?m)^func ` + regexp.QuoteMeta(c.Name) + `\(`)
		}
		loc := re.FindIndex(src)
		if loc == nil {
			return nil, fmt.Errorf("cut target %s.%s not found in %s (the source changed shape)", c.Recv, c.Name, path)
		}
		decl := string(src[loc[0]:loc[1]])
		renamed := strings.Replace(decl, " "+c.Name+"(", " "+c.Name+"__real(", 1)
		if c.Recv == "" {
			renamed = strings.Replace(decl, "func "+c.Name+"(", "func "+c.Name+"__real(", 1)
		}
		src = append(append(append([]byte{}, src[:loc[0]]...), []byte(renamed)...), src[loc[1]:]...)
		out[path] = src
	}
	for _, c := range callSites {
		path := filepath.Join(repoRoot, c.Pkg, c.File)
		src, ok := out[path]
		if !ok {
			src, err = os.ReadFile(path)
			if err != nil {
				return nil, fmt.Errorf("call site %s in %s: %v", c.From, path, err)
			}
		}
		if n := strings.Count(string(src), c.From); n != c.Count {
			return nil, fmt.Errorf("call site %q occurs %d time(s) in %s, expected %d (the source changed shape)", c.From, n, path, c.Count)
		}
		out[path] = []byte(strings.ReplaceAll(string(src), c.From, c.To))
	}
	return out, nil
}

func loadProgram(pkgs []string) (*symex.Program, error) {
	ov, err := symex.OverlayFromDir(filepath.Join(verifRoot, "harness", "overlay"), repoRoot)
	if err != nil {
		return nil, err
	}
	cov, err := cutOverlays()
	if err != nil {
		return nil, err
	}
	for p, b := range cov {
		ov[p] = b
	}
	pats := []string{modulePath + "/zzverifrt"}
	seen := map[string]bool{}
	for _, p := range pkgs {
		if !seen[p] {
			seen[p] = true
			pats = append(pats, modulePath+"/"+p)
		}
	}
	return symex.Load(repoRoot, pats, ov, "verif")
}

func (h *Harness) config() symex.Config {
	cuts := map[string]bool{}
	for _, c := range h.Cuts {
		cuts[c] = true
	}
	return symex.Config{Mode: h.Mode, BigW: h.BigW, Unwind: h.Unwind, Cuts: cuts, Redirect: h.Redirect, LazyBigBytes: h.LazyBig, MaxSteps: h.MaxSteps, AbsHex: h.AbsHex, ScaleConsts: h.ScaleConsts}
}

func main() {
	// The loaded SSA program is a large, long-lived heap; the default GC target makes 16 allocating workers
	// re-scan it continuously and starves the solver processes.
	debug.SetGCPercent(1500)
	debug.SetMemoryLimit(40 << 30)
	if len(os.Args) < 2 {
		fmt.Fprintln(os.Stderr, "usage: verif check <ID> [--tier quick|thorough] | run <harness> | list | replay <path> | syncbmc ...")
		os.Exit(2)
	}
	switch os.Args[1] {
	case "run":
		os.Exit(cmdRun(os.Args[2:]))
	case "check":
		os.Exit(cmdCheck(os.Args[2:]))
	case "racebmc":
		tier := "quick"
		if len(os.Args) > 2 {
			tier = os.Args[2]
		}
		r := checkRaces("C17", tier)
		js, _ := json.MarshalIndent(map[string]interface{}{"violations": r.Violations, "inconclusive": r.Inconclusive}, "", " ")
		fmt.Println(string(js))
		return
	case "replay":
		os.Exit(cmdReplay(os.Args[2:]))
	case "list":
		r, err := loadRegistry()
		if err != nil {
			fmt.Fprintln(os.Stderr, err)
			os.Exit(3)
		}
		for _, h := range r.Harnesses {
			fmt.Printf("%-4s %-8s %-34s %s.%s\n", h.Property, h.Tier, h.Name, h.Pkg, h.Func)
		}
	default:
		fmt.Fprintln(os.Stderr, "unknown command", os.Args[1])
		os.Exit(2)
	}
}

// cmdRun: developer entry: run one harness (by registry name) and print the result.
func cmdRun(args []string) int {
	fs := flag.NewFlagSet("run", flag.ExitOnError)
	verbose := fs.Bool("v", false, "verbose")
	workers := fs.Int("workers", runtime.NumCPU(), "workers")
	logq := fs.String("logq", "", "directory for solver transcripts")
	maxPaths := fs.Int("maxpaths", 0, "path budget")
	solver := fs.String("solver", "", "solver command (default: z3-new -in, else z3 -in)")
	cpuprof := fs.String("cpuprofile", "", "write cpu profile")
	fs.Parse(args)
	if *cpuprof != "" {
		f, _ := os.Create(*cpuprof)
		pprof.StartCPUProfile(f)
		defer pprof.StopCPUProfile()
	}
	reg, err := loadRegistry()
	if err != nil {
		fmt.Fprintln(os.Stderr, err)
		return 3
	}
	rc := 0
	for _, name := range fs.Args() {
		var h *Harness
		for i := range reg.Harnesses {
			if reg.Harnesses[i].Name == name {
				h = &reg.Harnesses[i]
			}
		}
		if h == nil {
			fmt.Fprintln(os.Stderr, "no such harness", name)
			return 3
		}
		t0 := time.Now()
		prog, err := loadProgram([]string{h.Pkg})
		if err != nil {
			fmt.Fprintln(os.Stderr, err)
			return 3
		}
		fmt.Fprintf(os.Stderr, "loaded in %.1fs\n", time.Since(t0).Seconds())
		entry := prog.FindFunc(modulePath + "/" + h.Pkg + "." + h.Func)
		if entry == nil {
			fmt.Fprintln(os.Stderr, "harness function not found:", h.Pkg+"."+h.Func)
			return 3
		}
		opts := symex.ExploreOpts{Workers: *workers, Verbose: *verbose, LogQueries: *logq, MaxPaths: *maxPaths, SolverCmd: strings.Fields(*solver)}
		if *solver == "" {
			opts.SolverCmd = nil
			if h.Solver != "" {
				opts.SolverCmd = strings.Fields(h.Solver)
			}
		}
		if h.TimeoutS > 0 {
			opts.TimeoutMs = h.TimeoutS * 1000
		}
		res := symex.Explore(prog, entry, h.config(), opts)
		fmt.Println(res.Summary())
		fmt.Println("  reached:", res.Reached, "funcs:", len(res.Funcs), "terms:", res.Terms, "maxq:", res.MaxQuerySec)
		for _, inc := range res.Inconclusive() {
			fmt.Println("  INCONCLUSIVE:", inc)
			rc = 3
		}
		for i, v := range res.Violations {
			if i > 8 {
				break
			}
			fmt.Printf("  CEX %s %q at %s model=%v\n", v.Kind, v.Label, v.Pos, v.Model)
		}
		if *verbose {
			for _, f := range res.Funcs {
				fmt.Println("   fn", f, res.FuncDigests[f])
			}
			for _, n := range res.InitNotes {
				fmt.Println("   initnote", n)
			}
			for _, sp := range res.SamplePaths {
				fmt.Println("   path", sp)
			}
		}
	}
	return rc
}
