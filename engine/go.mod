module verifeng

go 1.23

require (
	golang.org/x/crypto v0.0.0-20210322153248-0c34fe9e7dc2
	golang.org/x/tools v0.29.0
)

require (
	golang.org/x/mod v0.22.0 // indirect
	golang.org/x/sync v0.10.0 // indirect
)
