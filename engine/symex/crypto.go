package symex

import (
	"crypto/hmac"
	"crypto/sha256"
	"crypto/sha512"
	"fmt"
	"go/types"
	"hash"

	"golang.org/x/crypto/ripemd160"
	"verifeng/smt"
)

// Hash functions are uninterpreted functions of their input bytes (per input length), evaluated
// concretely when the input is concrete.

type hashSpec struct {
	name string
	out  int // bytes
	new  func() hash.Hash
}

var hashSpecs = map[string]hashSpec{
	"sha256":    {"sha256", 32, sha256.New},
	"sha512":    {"sha512", 64, sha512.New},
	"ripemd160": {"ripemd160", 20, ripemd160.New},
}

func allConst(bs []*smt.Term) ([]byte, bool) {
	out := make([]byte, len(bs))
	for i, b := range bs {
		if !b.IsConst() {
			return nil, false
		}
		out[i] = byte(b.BigVal().Uint64())
	}
	return out, true
}

func (m *Machine) constBytes(bs []byte) []*smt.Term {
	out := make([]*smt.Term, len(bs))
	for i, b := range bs {
		out[i] = m.mkByte(b)
	}
	return out
}

// ufBytes applies the uninterpreted function `name` to input bytes, returning out bytes.
func (m *Machine) ufBytes(name string, in []*smt.Term, out int) []*smt.Term {
	if m.IntMode() {
		m.unsupported("hash %s of symbolic bytes in int mode", name)
	}
	var arg *smt.Term
	if len(in) == 0 {
		arg = smt.BVConst(8, 0)
	} else {
		arg = smt.Concat(in...)
	}
	m.usedUF = true
	fn := fmt.Sprintf("%s_%d", name, len(in))
	r := smt.App(fn, smt.BV(8*out), arg)
	m.ufPoints[fn] = append(m.ufPoints[fn], ufPoint{args: []*smt.Term{arg}, res: r})
	res := make([]*smt.Term, out)
	for i := 0; i < out; i++ {
		res[i] = smt.Extract(r, 8*(out-i)-1, 8*(out-i-1))
	}
	return res
}

func (m *Machine) hashBytes(kind string, key, in []*smt.Term) []*smt.Term {
	if kind[:4] == "hmac" {
		inner := hashSpecs[kind[5:]]
		kb, ok1 := allConst(key)
		ib, ok2 := allConst(in)
		if ok1 && ok2 {
			h := hmac.New(inner.new, kb)
			h.Write(ib)
			return m.constBytes(h.Sum(nil))
		}
		// UF over key||in with a name that carries the key length
		return m.ufBytes(fmt.Sprintf("hmac_%s_k%d", inner.name, len(key)), append(append([]*smt.Term(nil), key...), in...), inner.out)
	}
	spec := hashSpecs[kind]
	if ib, ok := allConst(in); ok {
		h := spec.new()
		h.Write(ib)
		return m.constBytes(h.Sum(nil))
	}
	return m.ufBytes(spec.name, in, spec.out)
}

func (m *Machine) hashIface(acc *HashAcc) Value {
	hp := m.P.Pkgs["hash"]
	var t types.Type = types.Typ[types.Int]
	if hp != nil {
		t = hp.Type("Hash").Type()
	}
	return IfaceVal{T: t, V: acc}
}

func (m *Machine) hashMethod(h *HashAcc, name string, args []Value) Value {
	switch name {
	case "Write":
		bs := m.sliceBytes(args[0].(SliceVal))
		h.Buf = append(h.Buf, bs...)
		return TupleVal{m.mkInt(int64(len(bs))), IfaceVal{}}
	case "Sum":
		var pre []*smt.Term
		if sv, ok := args[0].(SliceVal); ok {
			pre = m.sliceBytes(sv)
		}
		out := m.hashBytes(h.Kind, h.Key, h.Buf)
		return m.bytesSlice(append(pre, out...))
	case "Reset":
		h.Buf = nil
		return nil
	case "Size":
		k := h.Kind
		if k[:4] == "hmac" {
			k = k[5:]
		}
		return m.mkInt(int64(hashSpecs[k].out))
	case "BlockSize":
		k := h.Kind
		if k[:4] == "hmac" {
			k = k[5:]
		}
		if k == "sha512" {
			return m.mkInt(128)
		}
		return m.mkInt(64)
	}
	m.unsupported("hash method %s", name)
	return nil
}

func init() {
	reg := func(name string, f intrinsic) { intrinsics[name] = f }
	sum := func(kind string) intrinsic {
		return func(m *Machine, a []Value) Value {
			out := m.hashBytes(kind, nil, m.sliceBytes(a[0].(SliceVal)))
			arr := &ArrayVal{E: make([]Value, len(out))}
			for i, b := range out {
				arr.E[i] = b
			}
			return arr
		}
	}
	reg("crypto/sha256.Sum256", sum("sha256"))
	reg("crypto/sha512.Sum512", sum("sha512"))
	reg("crypto/sha256.New", func(m *Machine, a []Value) Value { return m.hashIface(&HashAcc{Kind: "sha256"}) })
	reg("crypto/sha512.New", func(m *Machine, a []Value) Value { return m.hashIface(&HashAcc{Kind: "sha512"}) })
	reg("golang.org/x/crypto/ripemd160.New", func(m *Machine, a []Value) Value { return m.hashIface(&HashAcc{Kind: "ripemd160"}) })
	reg("crypto/hmac.New", func(m *Machine, a []Value) Value {
		// find the inner kind by calling the constructor
		inner := m.call(a[0], nil, nil)
		iv, ok := inner.(IfaceVal)
		if !ok {
			m.unsupported("hmac.New inner constructor")
		}
		acc, ok := iv.V.(*HashAcc)
		if !ok {
			m.unsupported("hmac.New over unknown hash")
		}
		return m.hashIface(&HashAcc{Kind: "hmac-" + acc.Kind, Key: m.sliceBytes(a[1].(SliceVal))})
	})
	reg("crypto/hmac.Equal", func(m *Machine, a []Value) Value {
		x, y := m.sliceBytes(a[0].(SliceVal)), m.sliceBytes(a[1].(SliceVal))
		if len(x) != len(y) {
			return smt.False
		}
		_, eq := m.bytesCompare(x, y)
		return eq
	})
	reg("crypto/subtle.ConstantTimeCompare", func(m *Machine, a []Value) Value {
		x, y := m.sliceBytes(a[0].(SliceVal)), m.sliceBytes(a[1].(SliceVal))
		if len(x) != len(y) {
			return m.mkInt(0)
		}
		_, eq := m.bytesCompare(x, y)
		return smt.Ite(eq, m.mkInt(1), m.mkInt(0))
	})
}

func init() {
	reg := func(name string, f intrinsic) { intrinsics[name] = f }
	// scrypt / pbkdf2: uninterpreted functions of password, salt and the cost parameters
	reg("golang.org/x/crypto/scrypt.Key", func(m *Machine, a []Value) Value {
		pw, salt := m.sliceBytes(a[0].(SliceVal)), m.sliceBytes(a[1].(SliceVal))
		n, r, p, kl := concInt(m, a[2], "scrypt N"), concInt(m, a[3], "scrypt r"), concInt(m, a[4], "scrypt p"), int(concInt(m, a[5], "scrypt keyLen"))
		// scrypt keys PBKDF2-HMAC-SHA256 with the password: HMAC pads a key of up to 64 bytes with zero bytes to its
		// block (longer keys are hashed first), so passwords that differ only in trailing zero bytes are the same
		// key. The uninterpreted function takes the padded block, which keeps exactly that identification.
		if len(pw) > 64 {
			pw = m.hashBytes("sha256", nil, pw)
		}
		for len(pw) < 64 {
			pw = append(pw, m.mkByte(0))
		}
		name := fmt.Sprintf("scrypt_N%d_r%d_p%d_k0", n, r, p)
		in := append(append([]*smt.Term(nil), pw...), salt...)
		if len(in) == 0 {
			in = []*smt.Term{m.mkByte(0)}
		}
		var out []*smt.Term
		if cb, ok := allConst(in); ok {
			// concrete inputs: still opaque, but a fixed function of them
			h := sha512.Sum512(append([]byte(name), cb...))
			out = m.constBytes(h[:])
			for len(out) < kl {
				out = append(out, out...)
			}
			out = out[:kl]
		} else {
			out = m.ufBytes(name, in, kl)
		}
		return TupleVal{m.bytesSlice(out), IfaceVal{}}
	})
	reg("golang.org/x/crypto/pbkdf2.Key", func(m *Machine, a []Value) Value {
		pw, salt := m.sliceBytes(a[0].(SliceVal)), m.sliceBytes(a[1].(SliceVal))
		iter, kl := concInt(m, a[2], "pbkdf2 iter"), int(concInt(m, a[3], "pbkdf2 keyLen"))
		name := fmt.Sprintf("pbkdf2_i%d_pw%d", iter, len(pw))
		in := append(append([]*smt.Term(nil), pw...), salt...)
		if len(in) == 0 {
			in = []*smt.Term{m.mkByte(0)}
		}
		m.pbkdf2Calls = append(m.pbkdf2Calls, fmt.Sprintf("iter=%d keyLen=%d", iter, kl))
		return m.bytesSlice(m.ufBytes(name, in, kl))
	})
	// randomness: fresh environment bytes
	fresh := func(m *Machine, n int) []*smt.Term {
		out := make([]*smt.Term, n)
		for i := range out {
			if m.Cfg.IsConc || m.IntMode() {
				out[i] = m.mkByte(0)
			} else {
				out[i] = m.skolemBV("rand", 8)
			}
		}
		m.skolem -= n - 1 // keep the model cache usable: randomness is not an input, count it once
		if n == 0 {
			m.skolem++
		}
		return out
	}
	reg("crypto/rand.Read", func(m *Machine, a []Value) Value {
		sv := a[0].(SliceVal)
		arr := m.backing(sv)
		for i, b := range fresh(m, sv.Len) {
			m.noteWrite(sv.Obj, &arr.E[sv.Off+i])
			arr.E[sv.Off+i] = b
		}
		return TupleVal{m.mkInt(int64(sv.Len)), IfaceVal{}}
	})
	reg("io.ReadFull", func(m *Machine, a []Value) Value {
		// only used with crypto/rand.Reader in the targeted code
		sv := a[1].(SliceVal)
		arr := m.backing(sv)
		for i, b := range fresh(m, sv.Len) {
			m.noteWrite(sv.Obj, &arr.E[sv.Off+i])
			arr.E[sv.Off+i] = b
		}
		return TupleVal{m.mkInt(int64(sv.Len)), IfaceVal{}}
	})
}
