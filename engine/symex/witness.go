package symex

import (
	"fmt"
	"go/types"
	"sort"
	"strings"
	"sync"

	"verifeng/smt"
)

// Translator validation. For a finished path (all assumptions and assertions passed: "done"; or an assumption
// that no input of the path satisfies: "assume") the solver is asked for a model of the path condition. The
// caller runs the harness natively on the real build with that input vector: the native outcome must be "ok"
// (resp. "assume") and the set of rt.Reach labels must be the one the symbolic path collected. A disagreement
// means that the encoding (an intrinsic, a model, an instruction) does not represent the code.

type Witness struct {
	End     string   // "done" | "assume"
	Values  []string // nondet values in draw order
	Names   []string
	Reached []string // sorted
	UsesUF  bool     // the path applied uninterpreted hashes
	Refined bool     // ... and the model agrees with the real hash functions at its own argument points
	Skolem  bool
	Draws   int      // number of Nondet draws on the path
	Observed []string // rt.Observe records evaluated under the model ("" when a value cannot be evaluated)
	Opaque  bool // an uninterpreted function without a real implementation in the engine (curve, scrypt, pbkdf2) was applied
}

type WitnessSink struct {
	Cap int
	mu  sync.Mutex
	sig map[string]int
	W   []Witness
	// counters
	Asked, Sat, NotSat int
}

func NewWitnessSink(cap int) *WitnessSink { return &WitnessSink{Cap: cap, sig: map[string]int{}} }

func (s *WitnessSink) want(sig string, h uint64) bool {
	s.mu.Lock()
	defer s.mu.Unlock()
	if len(s.W) >= s.Cap {
		return false
	}
	n := s.sig[sig]
	if n == 0 {
		s.sig[sig] = 1
		return true
	}
	// repeated signatures: a few early ones, then a spread over the exploration order
	if (len(s.W) < s.Cap/2 && n < 3) || h%7 == 0 {
		s.sig[sig] = n + 1
		return true
	}
	return false
}

type obsRec struct {
	label string
	vals  []Value
}

// evalObserved formats the rt.Observe records of the path under the solver's current model, in the format of
// the native rt.obs (unsigned decimals, quoted strings, [b b b] byte slices).
func (m *Machine) evalObserved() []string {
	if len(m.observedV) == 0 {
		return nil
	}
	ts := make([]*smt.Term, 0, len(m.nondets))
	for _, n := range m.nondets {
		if !n.T.IsConst() {
			ts = append(ts, n.T)
		}
	}
	env := map[*smt.Term]*smt.Term{}
	if len(ts) > 0 {
		vals, err := m.Sol.GetValues(ts)
		if err != nil {
			return nil
		}
		for i, t := range ts {
			env[t] = vals[i]
		}
	}
	memo := map[*smt.Term]*smt.Term{}
	var one func(v Value) (string, bool)
	one = func(v Value) (string, bool) {
		if iv, ok := v.(IfaceVal); ok {
			if iv.T == nil {
				return "<nil>", true
			}
			switch iv.V.(type) {
			case *smt.Term, StrVal, SliceVal:
			default:
				if ms := types.NewMethodSet(iv.T); ms.Lookup(nil, "Error") != nil {
					return "error", true
				}
				return "", false
			}
			v = iv.V
		}
		switch x := v.(type) {
		case *smt.Term:
			r := smt.Subst(x, env, memo)
			if !r.IsConst() {
				return "", false
			}
			if r.Sort.K == smt.KBool {
				if r.U == 1 {
					return "true", true
				}
				return "false", true
			}
			return r.BigVal().String(), true
		case StrVal:
			if s, ok := x.Concrete(); ok {
				return fmt.Sprintf("%q", s), true
			}
			if x.Abs != nil {
				return "", false
			}
			bs := make([]byte, len(x.B))
			for i, b := range x.B {
				r := smt.Subst(b, env, memo)
				if !r.IsConst() {
					return "", false
				}
				bs[i] = byte(r.U)
			}
			return fmt.Sprintf("%q", string(bs)), true
		case SliceVal:
			out := "["
			for i := 0; i < x.Len; i++ {
				if i > 0 {
					out += " "
				}
				e, ok := one(m.sliceElem(x, i))
				if !ok {
					return "", false
				}
				out += e
			}
			return out + "]", true
		}
		return "", false
	}
	var out []string
	for _, rec := range m.observedV {
		s := rec.label
		ok := true
		for _, v := range rec.vals {
			e, k := one(v)
			if !k {
				ok = false
				break
			}
			s += " " + e
		}
		if !ok {
			s = ""
		}
		out = append(out, s)
	}
	return out
}

func (m *Machine) takeWitness() {
	s := m.Cfg.Witness
	var labels []string
	for k := range m.Reached {
		labels = append(labels, k)
	}
	sort.Strings(labels)
	sig := m.EndKind + "|" + strings.Join(labels, ",")
	var th uint64 = 1469598103934665603
	for _, d := range m.trace {
		th = (th ^ uint64(d)) * 1099511628211
	}
	if !s.want(sig, th>>7) {
		return
	}
	defer func() {
		// a path end raised while asking for the model must not change the path's classification
		if r := recover(); r != nil {
			if _, ok := r.(pathEnd); !ok {
				panic(r)
			}
		}
	}()
	m.defineNondets()
	m.Sol.Push()
	defer m.Sol.Pop()
	s.mu.Lock()
	s.Asked++
	s.mu.Unlock()
	if m.Sol.Check() != smt.Sat {
		s.mu.Lock()
		s.NotSat++
		s.mu.Unlock()
		return
	}
	w := Witness{End: m.EndKind, Reached: labels, UsesUF: m.usedUF, Skolem: m.skolem > 0, Refined: true}
	if m.usedUF {
		w.Refined = m.refineUF()
		if !w.Refined {
			// the solver state may be mid-refinement: re-solve the plain path condition
			m.Sol.Pop()
			m.Sol.Push()
			m.defineNondets()
			if m.Sol.Check() != smt.Sat {
				return
			}
		}
	}
	if m.usedUF {
		w.Opaque = len(m.ufPoints) == 0
	}
	// every uninterpreted function applied in the path condition must have a real implementation in the engine
	// (hashes, through the refinement above); otherwise its values in the model are arbitrary (curve, scrypt)
	seen := map[*smt.Term]bool{}
	var walk func(t *smt.Term)
	walk = func(t *smt.Term) {
		if seen[t] {
			return
		}
		seen[t] = true
		if t.Op == smt.OApp && realHash(t.Name, []byte{0}) == nil {
			w.Opaque = true
		}
		for _, a := range t.Args {
			walk(a)
		}
	}
	for _, t := range m.pc {
		walk(t)
	}
	w.Values, w.Names = m.modelStrings()
	if len(w.Values) > 0 && strings.HasPrefix(w.Values[0], "error") {
		return
	}
	w.Draws = len(m.nondets)
	w.Observed = m.evalObserved()
	s.mu.Lock()
	s.Sat++
	if len(s.W) < s.Cap {
		s.W = append(s.W, w)
	}
	s.mu.Unlock()
}
