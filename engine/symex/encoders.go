package symex

import (
	"math/big"

	"verifeng/smt"
)

// base58 (btcsuite alphabet) as an injective encoder: symbolic inputs give an abstract string, the decoder
// inverts it; concrete inputs are computed.

const b58Alphabet = "123456789ABCDEFGHJKLMNPQRSTUVWXYZabcdefghijkmnopqrstuvwxyz"

func b58Encode(b []byte) string {
	x := new(big.Int).SetBytes(b)
	var out []byte
	radix, zero, mod := big.NewInt(58), big.NewInt(0), new(big.Int)
	for x.Cmp(zero) > 0 {
		x.DivMod(x, radix, mod)
		out = append(out, b58Alphabet[mod.Int64()])
	}
	for _, c := range b {
		if c != 0 {
			break
		}
		out = append(out, b58Alphabet[0])
	}
	for i, j := 0, len(out)-1; i < j; i, j = i+1, j-1 {
		out[i], out[j] = out[j], out[i]
	}
	return string(out)
}

func b58Decode(s string) []byte {
	answer := big.NewInt(0)
	j := big.NewInt(1)
	radix := big.NewInt(58)
	for i := len(s) - 1; i >= 0; i-- {
		idx := -1
		for k := 0; k < len(b58Alphabet); k++ {
			if b58Alphabet[k] == s[i] {
				idx = k
			}
		}
		if idx < 0 {
			return []byte("")
		}
		t := new(big.Int).Mul(j, big.NewInt(int64(idx)))
		answer.Add(answer, t)
		j.Mul(j, radix)
	}
	tmp := answer.Bytes()
	nz := 0
	for nz < len(s) && s[nz] == b58Alphabet[0] {
		nz++
	}
	out := make([]byte, nz+len(tmp))
	copy(out[nz:], tmp)
	return out
}

func init() {
	reg := func(name string, f intrinsic) { intrinsics[name] = f }
	for _, pkg := range []string{"github.com/massnetorg/mass-core/massutil/base58", "github.com/btcsuite/btcutil/base58"} {
		reg(pkg+".Encode", func(m *Machine, a []Value) Value {
			bs := m.sliceBytes(a[0].(SliceVal))
			if cb, ok := allConst(bs); ok {
				return StrVal{S: b58Encode(cb)}
			}
			return StrVal{Abs: &AbsStr{Ctor: "base58", Args: bs}}
		})
		reg(pkg+".Decode", func(m *Machine, a []Value) Value {
			s := a[0].(StrVal)
			if s.Abs != nil {
				if s.Abs.Ctor != "base58" {
					m.unsupported("base58.Decode of a %s string", s.Abs.Ctor)
				}
				return m.bytesSlice(append([]*smt.Term(nil), s.Abs.Args...))
			}
			c, ok := s.Concrete()
			if !ok {
				m.unsupported("base58.Decode of a symbolic plain string")
			}
			return m.bytesSlice(m.constBytes(b58Decode(c)))
		})
	}
}
