package symex

import (
	"math/big"
	"strings"

	"verifeng/smt"
)

// base58 (btcsuite alphabet) as an injective encoder: symbolic inputs give an abstract string, the decoder
// inverts it; concrete inputs are computed.

const b58Alphabet = "123456789ABCDEFGHJKLMNPQRSTUVWXYZabcdefghijkmnopqrstuvwxyz"

func b58Encode(b []byte) string {
	x := new(big.Int).SetBytes(b)
	var out []byte
	radix, zero, mod := big.NewInt(58), big.NewInt(0), new(big.Int)
	for x.Cmp(zero) > 0 {
		x.DivMod(x, radix, mod)
		out = append(out, b58Alphabet[mod.Int64()])
	}
	for _, c := range b {
		if c != 0 {
			break
		}
		out = append(out, b58Alphabet[0])
	}
	for i, j := 0, len(out)-1; i < j; i, j = i+1, j-1 {
		out[i], out[j] = out[j], out[i]
	}
	return string(out)
}

func b58Decode(s string) []byte {
	answer := big.NewInt(0)
	j := big.NewInt(1)
	radix := big.NewInt(58)
	for i := len(s) - 1; i >= 0; i-- {
		idx := -1
		for k := 0; k < len(b58Alphabet); k++ {
			if b58Alphabet[k] == s[i] {
				idx = k
			}
		}
		if idx < 0 {
			return []byte("")
		}
		t := new(big.Int).Mul(j, big.NewInt(int64(idx)))
		answer.Add(answer, t)
		j.Mul(j, radix)
	}
	tmp := answer.Bytes()
	nz := 0
	for nz < len(s) && s[nz] == b58Alphabet[0] {
		nz++
	}
	out := make([]byte, nz+len(tmp))
	copy(out[nz:], tmp)
	return out
}

func init() {
	reg := func(name string, f intrinsic) { intrinsics[name] = f }
	for _, pkg := range []string{"github.com/massnetorg/mass-core/massutil/base58", "github.com/btcsuite/btcutil/base58"} {
		reg(pkg+".Encode", func(m *Machine, a []Value) Value {
			bs := m.sliceBytes(a[0].(SliceVal))
			if cb, ok := allConst(bs); ok {
				return StrVal{S: b58Encode(cb)}
			}
			return StrVal{Abs: &AbsStr{Ctor: "base58", Args: bs}}
		})
		reg(pkg+".Decode", func(m *Machine, a []Value) Value {
			s := a[0].(StrVal)
			if s.Abs != nil {
				if s.Abs.Ctor != "base58" {
					m.unsupported("base58.Decode of a %s string", s.Abs.Ctor)
				}
				return m.bytesSlice(append([]*smt.Term(nil), s.Abs.Args...))
			}
			c, ok := s.Concrete()
			if !ok {
				m.unsupported("base58.Decode of a symbolic plain string")
			}
			return m.bytesSlice(m.constBytes(b58Decode(c)))
		})
	}
}

// ---------- hex (Config.AbsHex): text of symbolic bytes is abstract, hex.DecodeString inverts it ----------

// declined: an intrinsic's answer "run the real function" (the call falls through to the SSA body).
type declined struct{}

func isDeclined(v Value) bool { _, d := v.(declined); return d }

func init() {
	intrinsics["encoding/hex.EncodeToString"] = func(m *Machine, a []Value) Value {
		if !m.Cfg.AbsHex {
			return declined{}
		}
		bs := m.sliceBytes(a[0].(SliceVal))
		if _, ok := allConst(bs); ok {
			return declined{}
		}
		return StrVal{Abs: &AbsStr{Ctor: "hex", Args: bs}}
	}
	intrinsics["encoding/hex.DecodeString"] = func(m *Machine, a []Value) Value {
		s := a[0].(StrVal)
		if s.Abs == nil {
			return declined{}
		}
		if s.Abs.Ctor != "hex" {
			m.unsupported("hex.DecodeString of a %s string", s.Abs.Ctor)
		}
		return TupleVal{m.bytesSlice(append([]*smt.Term(nil), s.Abs.Args...)), IfaceVal{}}
	}
}

// ---------- bech32 (BIP-173 checksum) ----------

const bech32Charset = "qpzry9x8gf2tvdw0s3jn54khce6mua7l"

var bech32Gen = []int{0x3b6a57b2, 0x26508e6d, 0x1ea119fa, 0x3d4233dd, 0x2a1462b3}

func bech32Polymod(values []int) int {
	chk := 1
	for _, v := range values {
		b := chk >> 25
		chk = (chk&0x1ffffff)<<5 ^ v
		for i := 0; i < 5; i++ {
			if (b>>uint(i))&1 == 1 {
				chk ^= bech32Gen[i]
			}
		}
	}
	return chk
}

func bech32HrpExpand(hrp string) []int {
	v := make([]int, 0, len(hrp)*2+1)
	for i := 0; i < len(hrp); i++ {
		v = append(v, int(hrp[i]>>5))
	}
	v = append(v, 0)
	for i := 0; i < len(hrp); i++ {
		v = append(v, int(hrp[i]&31))
	}
	return v
}

func bech32EncodeConcrete(hrp string, data []byte) (string, bool) {
	values := bech32HrpExpand(hrp)
	for _, d := range data {
		if d >= 32 {
			return "", false
		}
		values = append(values, int(d))
	}
	values = append(values, 0, 0, 0, 0, 0, 0)
	pm := bech32Polymod(values) ^ 1
	out := []byte(hrp + "1")
	for _, d := range data {
		out = append(out, bech32Charset[d])
	}
	for i := 0; i < 6; i++ {
		out = append(out, bech32Charset[(pm>>uint(5*(5-i)))&31])
	}
	return string(out), true
}

func bech32DecodeConcrete(bech string) (string, []byte, bool) {
	if len(bech) < 8 || len(bech) > 90 {
		return "", nil, false
	}
	hasLower, hasUpper := false, false
	for i := 0; i < len(bech); i++ {
		c := bech[i]
		if c < 33 || c > 126 {
			return "", nil, false
		}
		if c >= 'a' && c <= 'z' {
			hasLower = true
		}
		if c >= 'A' && c <= 'Z' {
			hasUpper = true
		}
	}
	if hasLower && hasUpper {
		return "", nil, false
	}
	lb := []byte(bech)
	for i, c := range lb {
		if c >= 'A' && c <= 'Z' {
			lb[i] = c + 32
		}
	}
	bech = string(lb)
	one := -1
	for i := len(bech) - 1; i >= 0; i-- {
		if bech[i] == '1' {
			one = i
			break
		}
	}
	if one < 1 || one+7 > len(bech) {
		return "", nil, false
	}
	hrp, data := bech[:one], bech[one+1:]
	dec := make([]byte, len(data))
	values := bech32HrpExpand(hrp)
	for i := 0; i < len(data); i++ {
		idx := -1
		for k := 0; k < 32; k++ {
			if bech32Charset[k] == data[i] {
				idx = k
			}
		}
		if idx < 0 {
			return "", nil, false
		}
		dec[i] = byte(idx)
		values = append(values, idx)
	}
	if bech32Polymod(values) != 1 {
		return "", nil, false
	}
	return hrp, dec[:len(dec)-6], true
}

func init() {
	reg := func(name string, f intrinsic) { intrinsics[name] = f }
	const pkg = "github.com/massnetorg/mass-core/massutil/bech32"
	reg(pkg+".Encode", func(m *Machine, a []Value) Value {
		hrp := concStr(m, a[0], "bech32 hrp")
		bs := m.sliceBytes(a[1].(SliceVal))
		if cb, ok := allConst(bs); ok {
			s, ok := bech32EncodeConcrete(hrp, cb)
			if !ok {
				return TupleVal{StrVal{}, m.newError("bech32: invalid data byte")}
			}
			return TupleVal{StrVal{S: s}, IfaceVal{}}
		}
		// every 5-bit group must be < 32
		conds := make([]*smt.Term, len(bs))
		for i, b := range bs {
			if m.IntMode() {
				conds[i] = smt.ILt(b, smt.IntConstI(32))
			} else {
				conds[i] = smt.BvUlt(b, smt.BVConst(8, 32))
			}
		}
		if !m.Branch(smt.And(conds...)) {
			return TupleVal{StrVal{}, m.newError("bech32: invalid data byte")}
		}
		return TupleVal{StrVal{Abs: &AbsStr{Ctor: "bech32:" + hrp, Args: bs, Hrp: hrp}}, IfaceVal{}}
	})
	reg(pkg+".Decode", func(m *Machine, a []Value) Value {
		s := a[0].(StrVal)
		if s.Abs != nil {
			if len(s.Abs.Ctor) < 7 || s.Abs.Ctor[:7] != "bech32:" {
				m.unsupported("bech32.Decode of a %s string", s.Abs.Ctor)
			}
			return TupleVal{StrVal{S: s.Abs.Ctor[7:]}, m.bytesSlice(append([]*smt.Term(nil), s.Abs.Args...)), IfaceVal{}}
		}
		c, ok := s.Concrete()
		if !ok {
			m.unsupported("bech32.Decode of a symbolic plain string")
		}
		hrp, data, ok := bech32DecodeConcrete(c)
		if !ok {
			return TupleVal{StrVal{}, SliceVal{}, m.newError("bech32: decode failed")}
		}
		return TupleVal{StrVal{S: hrp}, m.bytesSlice(m.constBytes(data)), IfaceVal{}}
	})
}

func init() {
	reg := func(name string, f intrinsic) { intrinsics[name] = f }
	// strings.LastIndexByte: on abstract bech32 text the only '1' is the separator after the prefix
	reg("strings.LastIndexByte", func(m *Machine, a []Value) Value {
		s := a[0].(StrVal)
		c := a[1].(*smt.Term)
		if s.Abs != nil {
			if strings.HasPrefix(s.Abs.Ctor, "bech32:") && c.IsConst() && c.BigVal().Uint64() == '1' && !strings.Contains(s.Abs.Hrp, "1") {
				return m.mkInt(int64(len(s.Abs.Hrp)))
			}
			m.unsupported("LastIndexByte on an abstract %s string", s.Abs.Ctor)
		}
		bs := m.strBytes(s)
		for i := len(bs) - 1; i >= 0; i-- {
			if m.Branch(smt.Eq(bs[i], c)) {
				return m.mkInt(int64(i))
			}
		}
		return m.mkInt(-1)
	})
}
