package symex

import (
	"math/big"
	"sort"

	"verifeng/smt"
)

// Small-domain tracker. When the path condition and a query together depend on at most sdMaxBits free bits
// (variables pinned by an equality var = const do not count), the set of assignments satisfying the path
// condition is kept explicitly and branch feasibility / value enumeration are answered by in-process
// evaluation. This is an exploration aid only: obligations (assertions, panic checks) are always decided by
// the SMT solver.

const sdMaxBits = 12

type smallDom struct {
	vars   []*smt.Term          // free variables, fixed order
	fixed  map[*smt.Term]*smt.Term
	asgs   []*sdAsg             // assignments (values per var) satisfying pc[:upto]
	upto   int                  // number of pc terms already applied
	off    bool                 // disabled for the rest of the path
	Hits   int
}

type sdAsg struct {
	vals []*smt.Term
	env  map[*smt.Term]*smt.Term
	memo map[*smt.Term]*smt.Term // persistent: sub-terms are evaluated once per assignment
}

func termVars(t *smt.Term, seen map[*smt.Term]bool, out *[]*smt.Term, hasUF *bool) {
	if seen[t] {
		return
	}
	seen[t] = true
	switch t.Op {
	case smt.OConst:
		return
	case smt.OVar:
		*out = append(*out, t)
		return
	case smt.OApp:
		*hasUF = true
	}
	for _, a := range t.Args {
		termVars(a, seen, out, hasUF)
	}
}

func varBits(v *smt.Term) int {
	switch v.Sort.K {
	case smt.KBool:
		return 1
	case smt.KBV:
		return v.Sort.W
	}
	if v.Lo != nil && v.Hi != nil {
		n := new(big.Int).Sub(v.Hi, v.Lo)
		if n.IsInt64() && n.Int64() < 4096 {
			b := 0
			for x := n.Int64() + 1; x > 1; x = (x + 1) / 2 {
				b++
			}
			return b
		}
	}
	return 1 << 20
}

func varValues(v *smt.Term) []*smt.Term {
	var out []*smt.Term
	switch v.Sort.K {
	case smt.KBool:
		return []*smt.Term{smt.False, smt.True}
	case smt.KBV:
		for i := 0; i < 1<<uint(v.Sort.W); i++ {
			out = append(out, smt.BVConst(v.Sort.W, uint64(i)))
		}
	default:
		for x := v.Lo.Int64(); x <= v.Hi.Int64(); x++ {
			out = append(out, smt.IntConstI(x))
		}
	}
	return out
}

// sdPrepare brings the tracker up to date with the current pc and the extra query terms. Returns false
// when the small-domain route does not apply.
func (m *Machine) sdPrepare(extra ...*smt.Term) bool {
	sd := m.sd
	if sd == nil {
		sd = &smallDom{fixed: map[*smt.Term]*smt.Term{}}
		m.sd = sd
	}
	if sd.off {
		return false
	}
	// fixed variables from pc equalities
	for _, t := range m.pc[sd.upto:] {
		if t.Op == smt.OEq && t.Args[0].Op == smt.OVar && t.Args[1].IsConst() {
			sd.fixed[t.Args[0]] = t.Args[1]
		}
		if t.Op == smt.OVar && t.Sort.K == smt.KBool {
			sd.fixed[t] = smt.True
		}
		if t.Op == smt.ONot && t.Args[0].Op == smt.OVar {
			sd.fixed[t.Args[0]] = smt.False
		}
	}
	// free variables of pc and the query
	seen := map[*smt.Term]bool{}
	var vars []*smt.Term
	hasUF := false
	for _, t := range m.pc {
		termVars(t, seen, &vars, &hasUF)
	}
	for _, t := range extra {
		termVars(t, seen, &vars, &hasUF)
	}
	if hasUF {
		sd.off = true
		return false
	}
	var free []*smt.Term
	bits := 0
	for _, v := range vars {
		if _, ok := sd.fixed[v]; ok {
			continue
		}
		free = append(free, v)
		bits += varBits(v)
		if bits > sdMaxBits {
			sd.off = true // domains only grow along a path
			return false
		}
	}
	sort.Slice(free, func(i, j int) bool { return free[i].ID < free[j].ID })
	same := len(free) == len(sd.vars)
	if same {
		for i := range free {
			if free[i] != sd.vars[i] {
				same = false
			}
		}
	}
	if !same || sd.asgs == nil {
		// rebuild the product and re-apply the whole pc
		sd.vars = free
		prod := [][]*smt.Term{{}}
		for _, v := range free {
			vals := varValues(v)
			next := make([][]*smt.Term, 0, len(prod)*len(vals))
			for _, a := range prod {
				for _, x := range vals {
					na := make([]*smt.Term, len(a)+1)
					copy(na, a)
					na[len(a)] = x
					next = append(next, na)
				}
			}
			prod = next
		}
		sd.asgs = make([]*sdAsg, len(prod))
		for i, a := range prod {
			sd.asgs[i] = &sdAsg{vals: a}
		}
		sd.upto = 0
	}
	// (re)build environments when the fixed set grew
	for _, a := range sd.asgs {
		if a.env == nil || len(a.env) != len(a.vals)+len(sd.fixed) {
			a.env = make(map[*smt.Term]*smt.Term, len(a.vals)+len(sd.fixed))
			for k, v := range sd.fixed {
				a.env[k] = v
			}
			for i, v := range sd.vars {
				a.env[v] = a.vals[i]
			}
			a.memo = map[*smt.Term]*smt.Term{}
		}
	}
	for ; sd.upto < len(m.pc); sd.upto++ {
		t := m.pc[sd.upto]
		kept := sd.asgs[:0:0]
		for _, a := range sd.asgs {
			if m.sdEval(t, a) == 1 {
				kept = append(kept, a)
			}
		}
		sd.asgs = kept
	}
	return true
}

// sdEval: 1 true, 0 false, -1 not a constant under the assignment.
func (m *Machine) sdEval(t *smt.Term, a *sdAsg) int {
	r := smt.Subst(t, a.env, a.memo)
	if !r.IsConst() {
		return -1
	}
	if r.Sort.K == smt.KBool {
		return int(r.U)
	}
	return -1
}

// sdFeasible: (answer, decided).
func (m *Machine) sdFeasible(t *smt.Term) (bool, bool) {
	if !m.sdPrepare(t) {
		return false, false
	}
	for _, a := range m.sd.asgs {
		switch m.sdEval(t, a) {
		case 1:
			m.sd.Hits++
			return true, true
		case -1:
			return false, false
		}
	}
	m.sd.Hits++
	return false, true
}

// sdValues: all values t takes over the assignments satisfying pc.
func (m *Machine) sdValues(t *smt.Term) ([]int64, bool) {
	if !m.sdPrepare(t) {
		return nil, false
	}
	seen := map[int64]bool{}
	var out []int64
	for _, a := range m.sd.asgs {
		r := smt.Subst(t, a.env, a.memo)
		if !r.IsConst() {
			return nil, false
		}
		var x int64
		if r.Sort.K == smt.KBV {
			x = r.SignedVal().Int64()
		} else {
			x = r.BigVal().Int64()
		}
		if !seen[x] {
			seen[x] = true
			out = append(out, x)
		}
	}
	sort.Slice(out, func(i, j int) bool { return out[i] < out[j] })
	m.sd.Hits++
	return out, true
}
