package symex

import (
	"crypto/sha256"
	"encoding/hex"
	"fmt"
	"os"
	"os/exec"
	"sort"
	"strings"
	"sync"
	"time"

	"golang.org/x/tools/go/ssa"
	"verifeng/smt"
)

type ExploreOpts struct {
	Workers    int
	SolverCmd  []string
	TimeoutMs  int
	MaxPaths   int
	Deadline   time.Time
	LogQueries string // directory for solver transcripts (debug)
	Verbose    bool
}

type HarnessResult struct {
	Entry        string
	Paths        int
	Ends         map[string]int
	EndSamples   map[string]string
	Obligations  int
	Discharged   int
	Trivial      int
	SecretSinks  int // text-sink operands examined while a secret was registered (secret.go)
	SecretFlows  int // of those, operands that mention a secret: each one a two-run solver obligation
	Decisions    int
	Violations   []Violation
	Reached      map[string]int
	Unknowns     []string
	Queries      int
	SolverSec    float64
	MaxQuerySec  float64
	SolverErrors []string
	Funcs        []string
	FuncDigests  map[string]string
	WallSec      float64
	Truncated    bool
	SamplePaths  []string
	Observed     [][]string
	Terms        int64
	Solver       string
	InitNotes    []string
}

func (r *HarnessResult) Inconclusive() []string {
	var out []string
	for _, k := range []string{"unsupported", "unwind", "steps"} {
		if r.Ends[k] > 0 {
			out = append(out, fmt.Sprintf("%d path(s) ended with %s: %s", r.Ends[k], k, r.EndSamples[k]))
		}
	}
	if len(r.Unknowns) > 0 {
		out = append(out, fmt.Sprintf("%d solver unknown(s): %s", len(r.Unknowns), r.Unknowns[0]))
	}
	if len(r.SolverErrors) > 0 {
		out = append(out, "solver errors: "+r.SolverErrors[0])
	}
	if r.Truncated {
		out = append(out, "exploration truncated (path or time budget)")
	}
	return out
}

// Explore runs all paths of the harness entry.
func Explore(p *Program, entry *ssa.Function, cfg Config, opts ExploreOpts) *HarnessResult {
	t0 := time.Now()
	if opts.Workers <= 0 {
		opts.Workers = 8
	}
	if len(opts.SolverCmd) == 0 {
		opts.SolverCmd = DefaultSolver(cfg.Mode)
	}
	if opts.TimeoutMs == 0 {
		opts.TimeoutMs = 60000
	}
	res := &HarnessResult{Entry: entry.String(), Ends: map[string]int{}, EndSamples: map[string]string{}, Reached: map[string]int{}, FuncDigests: map[string]string{}}
	var mu sync.Mutex
	cond := sync.NewCond(&mu)
	stack := [][]int64{{}}
	active := 0
	funcs := map[*ssa.Function]bool{}
	violSeen := map[string]bool{}
	var wg sync.WaitGroup
	stopProgress := make(chan struct{})
	if os.Getenv("VERIF_PROGRESS") != "" {
		go func() {
			tk := time.NewTicker(10 * time.Second)
			defer tk.Stop()
			for {
				select {
				case <-stopProgress:
					return
				case <-tk.C:
					mu.Lock()
					fmt.Fprintf(os.Stderr, "  progress %s: paths=%d queue=%d active=%d ends=%v decisions=%d t=%.0fs\n", entry.Name(), res.Paths, len(stack), active, res.Ends, res.Decisions, time.Since(t0).Seconds())
					mu.Unlock()
				}
			}
		}()
	}
	for w := 0; w < opts.Workers; w++ {
		wg.Add(1)
		go func(w int) {
			defer wg.Done()
			sol, err := smt.NewSolver(opts.SolverCmd, opts.TimeoutMs)
			if err != nil {
				mu.Lock()
				res.SolverErrors = append(res.SolverErrors, err.Error())
				mu.Unlock()
				return
			}
			defer sol.Close()
			if opts.LogQueries != "" {
				f, _ := os.Create(fmt.Sprintf("%s/worker%d.smt2", opts.LogQueries, w))
				if f != nil {
					sol.Log = f
					defer f.Close()
				}
			}
			m := NewMachine(p, cfg, sol)
			for {
				mu.Lock()
				for len(stack) == 0 && active > 0 {
					cond.Wait()
				}
				if len(stack) == 0 && active == 0 {
					mu.Unlock()
					cond.Broadcast()
					break
				}
				if (opts.MaxPaths > 0 && res.Paths >= opts.MaxPaths) || (!opts.Deadline.IsZero() && time.Now().After(opts.Deadline)) {
					res.Truncated = true
					stack = nil
					mu.Unlock()
					cond.Broadcast()
					if active == 0 {
						break
					}
					mu.Lock()
					for active > 0 {
						cond.Wait()
					}
					mu.Unlock()
					break
				}
				prefix := stack[len(stack)-1]
				stack = stack[:len(stack)-1]
				active++
				mu.Unlock()

				var alts [][]int64
				m.RunPath(entry, prefix, func(a []int64) { alts = append(alts, a) })

				mu.Lock()
				active--
				// push in reverse so the first alternative is explored first (DFS)
				for i := len(alts) - 1; i >= 0; i-- {
					stack = append(stack, alts[i])
				}
				res.Paths++
				res.Ends[m.EndKind]++
				if _, ok := res.EndSamples[m.EndKind]; !ok {
					res.EndSamples[m.EndKind] = m.EndMsg
				}
				res.Obligations += m.Obligations
				res.Discharged += m.Discharged
				res.Trivial += m.Trivial
				res.SecretSinks += m.SecretSinks
				res.SecretFlows += m.SecretFlows
				res.Decisions += m.Decisions
				for _, v := range m.Violations {
					key := v.Kind + "|" + v.Label + "|" + v.Pos
					if !violSeen[key] || len(res.Violations) < 4 {
						res.Violations = append(res.Violations, v)
					}
					violSeen[key] = true
				}
				for k := range m.Reached {
					res.Reached[k]++
				}
				res.Unknowns = append(res.Unknowns, m.Unknowns...)
				if len(res.SamplePaths) < 6 && (m.EndKind == "done" || m.EndKind == "violated") {
					res.SamplePaths = append(res.SamplePaths, fmt.Sprintf("end=%s decisions=%v pc=%d obligations=%d", m.EndKind, m.trace, len(m.pc), m.Obligations))
				}
				if len(m.Observed) > 0 && len(res.Observed) < 4 {
					res.Observed = append(res.Observed, m.Observed)
				}
				if opts.Verbose && (m.EndKind != "done" && m.EndKind != "assume") {
					fmt.Fprintf(os.Stderr, "  path end=%s %s trace=%v\n", m.EndKind, m.EndMsg, m.trace)
				}
				mu.Unlock()
				cond.Broadcast()
			}
			mu.Lock()
			for f := range m.funcsSeen {
				funcs[f] = true
			}
			if len(res.InitNotes) == 0 {
				res.InitNotes = append(res.InitNotes, m.InitNotes...)
			}
			res.Queries += sol.Queries
			res.SolverSec += sol.Seconds
			if sol.MaxQuery > res.MaxQuerySec {
				res.MaxQuerySec = sol.MaxQuery
			}
			res.SolverErrors = append(res.SolverErrors, sol.Errors...)
			mu.Unlock()
		}(w)
	}
	wg.Wait()
	close(stopProgress)
	for f := range funcs {
		res.Funcs = append(res.Funcs, f.String())
		res.FuncDigests[f.String()] = p.funcDigest(f)
	}
	sort.Strings(res.Funcs)
	res.WallSec = time.Since(t0).Seconds()
	res.Terms = smt.NumTerms()
	res.Solver = strings.Join(opts.SolverCmd, " ")
	return res
}

var fileCache sync.Map

func (p *Program) funcDigest(f *ssa.Function) string {
	syn := f.Syntax()
	if syn == nil {
		return "synthetic"
	}
	st, en := p.Fset.Position(syn.Pos()), p.Fset.Position(syn.End())
	if st.Filename == "" {
		return "?"
	}
	var data []byte
	if v, ok := fileCache.Load(st.Filename); ok {
		data = v.([]byte)
	} else {
		b, err := os.ReadFile(st.Filename)
		if err != nil {
			return "overlay"
		}
		fileCache.Store(st.Filename, b)
		data = b
	}
	if en.Offset > len(data) || st.Offset > en.Offset {
		return "?"
	}
	h := sha256.Sum256(data[st.Offset:en.Offset])
	return hex.EncodeToString(h[:6])
}

func (r *HarnessResult) Summary() string {
	var sb strings.Builder
	fmt.Fprintf(&sb, "%s: paths=%d ends=%v obligations=%d discharged=%d (trivial %d) violations=%d queries=%d solver=%.1fs wall=%.1fs",
		r.Entry, r.Paths, r.Ends, r.Obligations, r.Discharged, r.Trivial, len(r.Violations), r.Queries, r.SolverSec, r.WallSec)
	if r.SecretSinks > 0 {
		fmt.Fprintf(&sb, " text-sink-operands=%d (mentioning a secret: %d)", r.SecretSinks, r.SecretFlows)
	}
	return sb.String()
}

// DefaultSolver: for bit-vector harnesses z3 5.1.0 (installed as z3-new) when present, else the system z3. On the table-lookup
// queries of this code base 5.1.0 is two orders of magnitude faster than 4.8.12.
func DefaultSolver(mode string) []string {
	if s := os.Getenv("VERIF_SOLVER"); s != "" {
		return strings.Fields(s)
	}
	if mode == "int" {
		// linear integer arithmetic with Skolem digits: 4.8.12 is the faster and more complete of the two here
		return []string{"z3", "-in"}
	}
	if p, err := exec.LookPath("z3-new"); err == nil {
		return []string{p, "-in"}
	}
	return []string{"z3", "-in"}
}
