package symex

import (
	"fmt"
	"go/constant"
	"go/token"
	"go/types"
	"math/big"
	"os"
	"sort"
	"strings"

	"golang.org/x/tools/go/ssa"
	"verifeng/smt"
)

// Program is the shared, immutable part: loaded SSA.
type Program struct {
	Prog     *ssa.Program
	Pkgs     map[string]*ssa.Package // by import path
	Fset     *token.FileSet
	RepoRoot string
}

type Config struct {
	Mode      string // "bv" (default) or "int"
	BigW      int    // width of math/big.Int values in bv mode
	Unwind    int    // max symbolic decisions at one instruction per frame chain
	MaxSteps  int64
	MaxChoice int
	Redirect  map[string]string // callee full name -> replacement function full name
	Cuts      map[string]bool   // names for which rt.CutActive returns true
	ScaleConsts  map[string]map[string]int64 // function -> integer literal -> value used instead (a threshold scaled down; part of the stated bound)
	AbsHex       bool           // hex.EncodeToString of symbolic bytes is abstract text (inverted by hex.DecodeString), not executed
	LazyBigBytes bool           // (*big.Int).Bytes returns a LazyBytes value (forced on first use other than a call/store/return)
	Concrete  []int64           // concrete mode: values for Nondet calls (translator validation / replay-in-engine)
	IsConc    bool
	Trace     bool
	Witness   *WitnessSink // translator validation: a solver-chosen input per finished path, replayed natively by the caller
}

const uncheckedTag = int64(-0x7ead0001)

type pathEnd struct {
	Kind string // "done","assume","unwind","unsupported","panic","blocked","steps"
	Msg  string
}

type Nondet struct {
	Name string
	T    *smt.Term
	Kind string
}

type Violation struct {
	Label   string
	Kind    string // "assert","panic"
	Pos     string
	Model   []string // values of nondets in order (decimal)
	Nondets []string
	PCSize  int
	Trace   []int64
	UsesUF  bool // the path applied uninterpreted functions (hashes, curve) to symbolic arguments
	Refined bool // the model agrees with the real hash functions at its own argument points
}

type frame struct {
	fn     *ssa.Function
	locals map[ssa.Value]Value
	defers []deferred
	caller *frame
	pos    token.Pos
}

type deferred struct {
	fn   Value
	args []Value
	call *ssa.CallCommon
}

type Machine struct {
	tblCache map[*ArrayVal][]string
	invCache map[*MapObj]map[string]bool
	P   *Program
	Cfg Config
	Sol *smt.Solver

	pc      []*smt.Term
	prefix  []int64
	cursor  int
	trace   []int64
	pushAlt func(prefix []int64)

	globals   map[*ssa.Global]*Object
	initDone  map[*ssa.Package]bool
	nextObj   int
	nondets   []Nondet
	steps     int64
	forkCount map[string]int
	depth     int
	curFrame  *frame

	// results of this path
	Obligations int
	Discharged  int
	Trivial     int
	Violations  []Violation
	Reached     map[string]bool
	Observed    []string
	observedV   []obsRec
	Unknowns    []string
	Decisions   int
	EndKind     string
	EndMsg      string
	skolem      int
	funcsSeen   map[*ssa.Function]bool
	GoCalls     []string
	concIdx     int
	ufPoints    map[string][]ufPoint
	inInit      int
	BogusModels int
	pbkdf2Calls []string
	sd          *smallDom
	model       map[*smt.Term]*smt.Term // last satisfying assignment of the nondets, valid for the current pc
	modelMemo   map[*smt.Term]*smt.Term
	ModelHits   int
	pcSet       map[*smt.Term]bool
	usedUF      bool
	muHeld      map[string]bool // write-held mutexes of this path (blocked.go)
	blockCatch  int             // > 0 inside rt.Blocked(f)
	sec         *secretState // rt.Secret: secret variables of this path (secret.go)
	SecretSinks int          // text-sink operands examined on this path while a secret was registered
	SecretFlows int          // of those, operands that mention a secret (each one a solver obligation)
	s256obj     *Object
	decCache    map[*smt.Term][]*smt.Term
	softLimit   int64
	undo        []undoRec
	mapSaved    map[*MapObj]bool
	oncePath    map[*Object]bool
	InitNotes   []string
	initTop     *ssa.Function
	onceDone    map[*Object]bool
}

type ufPoint struct {
	args []*smt.Term
	res  *smt.Term
}

func NewMachine(p *Program, cfg Config, sol *smt.Solver) *Machine {
	if cfg.Mode == "" {
		cfg.Mode = "bv"
	}
	if cfg.BigW == 0 {
		cfg.BigW = 320
	}
	if cfg.Unwind == 0 {
		cfg.Unwind = 8
	}
	if cfg.MaxSteps == 0 {
		cfg.MaxSteps = 50_000_000
	}
	if cfg.MaxChoice == 0 {
		cfg.MaxChoice = 300
	}
	return &Machine{P: p, Cfg: cfg, Sol: sol}
}

func (m *Machine) IntMode() bool { return m.Cfg.Mode == "int" }

func (m *Machine) end(kind, format string, a ...interface{}) {
	panic(pathEnd{kind, fmt.Sprintf(format, a...)})
}

func (m *Machine) unsupported(format string, a ...interface{}) {
	where := ""
	if m.curFrame != nil {
		where = " in " + m.curFrame.fn.String() + " at " + m.posStr(m.curFrame.pos)
	}
	panic(pathEnd{"unsupported", fmt.Sprintf(format, a...) + where})
}

func (m *Machine) posStr(p token.Pos) string {
	if !p.IsValid() {
		return "?"
	}
	ps := m.P.Fset.Position(p)
	f := ps.Filename
	if i := strings.Index(f, "/pkg/mod/"); i >= 0 {
		f = f[i+9:]
	}
	f = strings.TrimPrefix(f, m.P.RepoRoot+"/")
	return fmt.Sprintf("%s:%d", f, ps.Line)
}

// RunPath executes entry() following the decision prefix. New alternatives are passed to pushAlt.
func (m *Machine) RunPath(entry *ssa.Function, prefix []int64, pushAlt func([]int64)) {
	m.pc = nil
	m.prefix = prefix
	m.cursor = 0
	m.trace = nil
	m.pushAlt = pushAlt
	if m.globals == nil {
		m.globals = map[*ssa.Global]*Object{}
		m.initDone = map[*ssa.Package]bool{}
	}
	m.mapSaved = map[*MapObj]bool{}
	m.sd = nil
	m.model, m.modelMemo = nil, nil
	m.pcSet = map[*smt.Term]bool{}
	m.usedUF = false
	m.sec = nil
	m.muHeld = map[string]bool{}
	m.blockCatch = 0
	m.SecretSinks, m.SecretFlows = 0, 0
	m.decCache = nil
	m.oncePath = map[*Object]bool{}
	m.nondets = nil
	m.steps = 0
	m.forkCount = map[string]int{}
	m.Obligations, m.Discharged, m.Trivial = 0, 0, 0
	m.Violations = nil
	m.Reached = map[string]bool{}
	m.Observed = nil
	m.observedV = nil
	m.Unknowns = nil
	m.Decisions = 0
	m.skolem = 0
	m.concIdx = 0
	m.GoCalls = nil
	m.ufPoints = map[string][]ufPoint{}
	m.inInit = 0
	m.depth = 0
	m.curFrame = nil
	if m.funcsSeen == nil {
		m.funcsSeen = map[*ssa.Function]bool{}
	}
	if m.Sol != nil {
		m.Sol.PopTo(0)
		m.Sol.Push()
	}
	m.EndKind, m.EndMsg = "done", ""
	func() {
		defer func() {
			if r := recover(); r != nil {
				if pe, ok := r.(pathEnd); ok {
					m.EndKind, m.EndMsg = pe.Kind, pe.Msg
					return
				}
				if os.Getenv("VERIF_ENGINE_PANIC") != "" {
					panic(r)
				}
				m.EndKind, m.EndMsg = "unsupported", fmt.Sprintf("engine panic: %v at %s", r, m.where())
			}
		}()
		m.call(FuncVal{Fn: entry}, nil, nil)
	}()
	if m.Cfg.Witness != nil && m.Sol != nil && (m.EndKind == "done" || m.EndKind == "assume") {
		m.takeWitness()
	}
	m.rollback()
}

type undoRec struct {
	slot *Value
	old  Value
	mo   *MapObj
	keys []Value
	vals []Value
	live []bool
	idx  map[string]int
	big  *BigInt
	oldT *smt.Term
}

// rollback undoes path-time writes into objects owned by package initialisation.
func (m *Machine) rollback() {
	for i := len(m.undo) - 1; i >= 0; i-- {
		u := m.undo[i]
		switch {
		case u.slot != nil:
			*u.slot = u.old
		case u.mo != nil:
			u.mo.Keys, u.mo.Vals, u.mo.Live, u.mo.idx = u.keys, u.vals, u.live, u.idx
		case u.big != nil:
			u.big.T = u.oldT
		}
	}
	m.undo = m.undo[:0]
}

// noteWrite must be called before writing *slot of an object.
func (m *Machine) noteWrite(o *Object, slot *Value) {
	if o != nil && o.Init && m.inInit == 0 {
		m.undo = append(m.undo, undoRec{slot: slot, old: *slot})
	}
}

func (m *Machine) noteMapWrite(mo *MapObj) {
	if mo.Init && m.inInit == 0 && !m.mapSaved[mo] {
		m.mapSaved[mo] = true
		idx := make(map[string]int, len(mo.idx))
		for k, v := range mo.idx {
			idx[k] = v
		}
		m.undo = append(m.undo, undoRec{mo: mo, keys: append([]Value(nil), mo.Keys...), vals: append([]Value(nil), mo.Vals...), live: append([]bool(nil), mo.Live...), idx: idx})
	}
}

func (m *Machine) setBig(z *BigInt, t *smt.Term) {
	if z.Init && m.inInit == 0 {
		m.undo = append(m.undo, undoRec{big: z, oldT: z.T})
	}
	z.T = t
}

func (m *Machine) FuncsSeen() []*ssa.Function {
	var out []*ssa.Function
	for f := range m.funcsSeen {
		out = append(out, f)
	}
	sort.Slice(out, func(i, j int) bool { return out[i].String() < out[j].String() })
	return out
}

// ---------- solver interaction ----------

func (m *Machine) assumeRaw(t *smt.Term) {
	if t.IsConst() {
		if t.U == 0 {
			m.end("assume", "false")
		}
		return
	}
	m.pc = append(m.pc, t)
	m.notePC(t)
	if m.model != nil && !m.modelSays(t) {
		m.model = nil
	}
	if m.Sol != nil {
		m.Sol.Assert(t)
	}
}

// notePC records a fact of the path condition (and its conjuncts) for syntactic look-ups.
func (m *Machine) notePC(t *smt.Term) {
	m.pcSet[t] = true
	if t.Op == smt.OAnd {
		for _, a := range t.Args {
			m.notePC(a)
		}
	}
	if t.Op == smt.ONot && t.Args[0].Op == smt.OOr {
		for _, a := range t.Args[0].Args {
			m.notePC(smt.Not(a))
		}
	}
}

// known: 1 if the path condition contains t, -1 if it contains its negation, 0 otherwise.
func (m *Machine) known(t *smt.Term) int {
	if m.pcSet[t] {
		return 1
	}
	if m.pcSet[smt.Not(t)] {
		return -1
	}
	if t.Op == smt.OAnd {
		all := true
		for _, a := range t.Args {
			switch m.known(a) {
			case -1:
				return -1
			case 0:
				all = false
			}
		}
		if all {
			return 1
		}
	}
	return 0
}

// modelSays: does the cached model make t true (evaluated in-process, no solver call)?
func (m *Machine) modelSays(t *smt.Term) bool {
	if m.model == nil {
		return false
	}
	v := smt.Subst(t, m.model, m.modelMemo)
	return v.IsConst() && v.U == 1
}

// fetchModel reads the nondet values after a sat answer (same solver scope).
func (m *Machine) fetchModel() {
	m.model = nil
	if len(m.nondets) == 0 || len(m.nondets) > 96 || m.skolem > 0 {
		return
	}
	ts := make([]*smt.Term, len(m.nondets))
	for i, n := range m.nondets {
		ts[i] = n.T
	}
	vals, err := m.Sol.GetValues(ts)
	if err != nil {
		return
	}
	m.model = map[*smt.Term]*smt.Term{}
	for i, n := range m.nondets {
		if !n.T.IsConst() {
			m.model[n.T] = vals[i]
		}
	}
	m.modelMemo = map[*smt.Term]*smt.Term{}
}

func (m *Machine) feasible(t *smt.Term) bool {
	if t.IsConst() {
		return t.U == 1
	}
	if m.modelSays(t) {
		m.ModelHits++
		return true
	}
	if ans, ok := m.sdFeasible(t); ok {
		return ans
	}
	m.defineNondets()
	for _, e := range []*smt.Term{t} {
		m.Sol.Define(e)
	}
	m.Sol.Push()
	m.Sol.Assert(t)
	r := m.Sol.Check()
	if r == smt.Sat {
		m.fetchModel() // valid for pc and t; stays valid for pc alone
	}
	m.Sol.Pop()
	if r == smt.Unknown {
		m.Unknowns = append(m.Unknowns, "feasibility:"+m.where())
		return true
	}
	return r == smt.Sat
}

func (m *Machine) feasibleOld(t *smt.Term) bool {
	if t.IsConst() {
		return t.U == 1
	}
	r := m.Sol.CheckWith(t)
	if r == smt.Unknown {
		m.Unknowns = append(m.Unknowns, "feasibility:"+m.where())
		return true
	}
	return r == smt.Sat
}

func (m *Machine) where() string {
	if m.curFrame == nil {
		return "?"
	}
	return m.curFrame.fn.String() + "@" + m.posStr(m.curFrame.pos)
}

// Assume with feasibility check (harness-level assumption).
func (m *Machine) Assume(t *smt.Term) {
	if t.IsConst() {
		if t.U == 0 {
			m.end("assume", "false")
		}
		return
	}
	if m.cursor < len(m.prefix) {
		m.assumeRaw(t)
		return
	}
	if m.Cfg.IsConc {
		m.end("unsupported", "symbolic assume in concrete mode")
	}
	if !m.feasible(t) {
		m.end("assume", "infeasible")
	}
	m.assumeRaw(t)
}

func (m *Machine) unwindCheck() {
	key := m.where()
	m.forkCount[key]++
	if m.forkCount[key] > m.Cfg.Unwind*frameDepthFactor(m) {
		m.end("unwind", "more than %d symbolic decisions at %s", m.Cfg.Unwind, key)
	}
}

func frameDepthFactor(m *Machine) int { return 1 }

// Branch decides a symbolic condition, forking if both sides are feasible.
func (m *Machine) Branch(cond *smt.Term) bool {
	if cond.IsConst() {
		return cond.U == 1
	}
	if m.Cfg.IsConc {
		m.end("unsupported", "symbolic branch in concrete mode: %s", cond.String())
	}
	if m.inInit > 0 {
		m.unsupported("symbolic branch during package initialisation")
	}
	m.Decisions++
	if m.cursor < len(m.prefix) {
		d := m.prefix[m.cursor]
		m.cursor++
		m.trace = append(m.trace, d)
		if k := m.known(cond); k != 0 {
			return k == 1
		}
		if d == 1 {
			m.assumeRaw(cond)
		} else {
			m.assumeRaw(smt.Not(cond))
		}
		m.unwindCountOnly()
		return d == 1
	}
	if k := m.known(cond); k != 0 {
		m.trace = append(m.trace, int64((k+1)/2))
		return k == 1
	}
	m.unwindCheck()
	ncond := smt.Not(cond)
	if !m.feasible(cond) {
		m.trace = append(m.trace, 0)
		m.assumeRaw(ncond)
		return false
	}
	if m.feasible(ncond) {
		alt := make([]int64, len(m.trace)+1)
		copy(alt, m.trace)
		alt[len(m.trace)] = 0
		m.pushAlt(alt)
	}
	m.trace = append(m.trace, 1)
	m.assumeRaw(cond)
	return true
}

// ChooseAmong: a scheduling choice among n alternatives that are all possible (no condition attached);
// every alternative is explored.
func (m *Machine) ChooseAmong(n int) int {
	if n <= 1 {
		return 0
	}
	if m.inInit > 0 {
		m.unsupported("scheduling choice during package initialisation")
	}
	m.Decisions++
	if m.cursor < len(m.prefix) {
		d := m.prefix[m.cursor]
		m.cursor++
		m.trace = append(m.trace, d)
		m.unwindCountOnly()
		if d < 0 || int(d) >= n {
			m.unsupported("replayed scheduling choice out of range")
		}
		return int(d)
	}
	m.unwindCheck()
	for alt := 1; alt < n; alt++ {
		a := make([]int64, len(m.trace)+1)
		copy(a, m.trace)
		a[len(m.trace)] = int64(alt)
		m.pushAlt(a)
	}
	m.trace = append(m.trace, 0)
	return 0
}

func (m *Machine) unwindCountOnly() {
	key := m.where()
	m.forkCount[key]++
}

// Concretize returns a concrete value for an integer-valued term, forking over all feasible values.
func (m *Machine) Concretize(t *smt.Term, what string) int64 {
	if t.IsConst() {
		if t.Sort.K == smt.KBV {
			return t.SignedVal().Int64()
		}
		return t.BigVal().Int64()
	}
	if m.Cfg.IsConc {
		m.end("unsupported", "symbolic concretize in concrete mode")
	}
	mkc := func(v int64) *smt.Term {
		if t.Sort.K == smt.KInt {
			return smt.IntConstI(v)
		}
		return smt.BVConstBig(t.Sort.W, big.NewInt(v))
	}
	m.Decisions++
	if m.cursor < len(m.prefix) {
		v := m.prefix[m.cursor]
		m.cursor++
		m.trace = append(m.trace, v)
		if m.cursor < len(m.prefix) && m.prefix[m.cursor] == uncheckedTag {
			// alternative that was pushed without a feasibility check
			m.cursor++
			m.trace = append(m.trace, uncheckedTag)
			m.unwindCountOnly()
			eq := smt.Eq(t, mkc(v))
			if !m.feasible(eq) {
				m.end("assume", "infeasible alternative of concretize")
			}
			m.assumeRaw(eq)
			return v
		}
		m.assumeRaw(smt.Eq(t, mkc(v)))
		m.unwindCountOnly()
		return v
	}
	// table look-ups: the candidate values are the constant leaves of the ite tree
	if constLeafIte(t, 0) <= 400 && distinctLeaves(t) <= 6 {
		seen := map[int64]bool{}
		var leaves []int64
		var walk func(x *smt.Term)
		walk = func(x *smt.Term) {
			if x.IsConst() {
				var v int64
				if x.Sort.K == smt.KBV {
					v = x.SignedVal().Int64()
				} else {
					v = x.BigVal().Int64()
				}
				if !seen[v] {
					seen[v] = true
					leaves = append(leaves, v)
				}
				return
			}
			walk(x.Args[1])
			walk(x.Args[2])
		}
		walk(t)
		sort.Slice(leaves, func(i, j int) bool { return leaves[i] < leaves[j] })
		m.unwindCheck()
		first := -1
		for i, v := range leaves {
			if m.feasible(smt.Eq(t, mkc(v))) {
				first = i
				break
			}
		}
		if first < 0 {
			m.end("assume", "infeasible at concretize")
		}
		for _, v := range leaves[first+1:] {
			alt := make([]int64, len(m.trace)+2)
			copy(alt, m.trace)
			alt[len(m.trace)] = v
			alt[len(m.trace)+1] = uncheckedTag
			m.pushAlt(alt)
		}
		m.trace = append(m.trace, leaves[first])
		m.assumeRaw(smt.Eq(t, mkc(leaves[first])))
		return leaves[first]
	}
	m.unwindCheck()
	if vals, ok := m.sdValues(t); ok {
		if len(vals) == 0 {
			m.end("assume", "infeasible at concretize")
		}
		if len(vals) > m.Cfg.MaxChoice {
			m.end("unsupported", "more than %d values for %s at %s", m.Cfg.MaxChoice, what, m.where())
		}
		for _, v := range vals[1:] {
			alt := make([]int64, len(m.trace)+1)
			copy(alt, m.trace)
			alt[len(m.trace)] = v
			m.pushAlt(alt)
		}
		m.trace = append(m.trace, vals[0])
		m.assumeRaw(smt.Eq(t, mkc(vals[0])))
		return vals[0]
	}
	var found []int64
	m.Sol.Push()
	m.Sol.Define(t)
	for len(found) <= m.Cfg.MaxChoice {
		r := m.Sol.Check()
		if r == smt.Unknown {
			m.Sol.Pop()
			m.end("unsupported", "solver unknown while concretizing %s", what)
		}
		if r == smt.Unsat {
			break
		}
		vs, err := m.Sol.GetValues([]*smt.Term{t})
		if err != nil {
			m.Sol.Pop()
			m.end("unsupported", "get-value: %v", err)
		}
		var v int64
		if t.Sort.K == smt.KBV {
			v = vs[0].SignedVal().Int64()
		} else {
			v = vs[0].BigVal().Int64()
		}
		found = append(found, v)
		m.Sol.Assert(smt.Not(smt.Eq(t, mkc(v))))
	}
	m.Sol.Pop()
	if len(found) == 0 {
		m.end("assume", "infeasible at concretize")
	}
	if len(found) > m.Cfg.MaxChoice {
		m.end("unsupported", "more than %d values for %s at %s", m.Cfg.MaxChoice, what, m.where())
	}
	sort.Slice(found, func(i, j int) bool { return found[i] < found[j] })
	for _, v := range found[1:] {
		alt := make([]int64, len(m.trace)+1)
		copy(alt, m.trace)
		alt[len(m.trace)] = v
		m.pushAlt(alt)
	}
	m.trace = append(m.trace, found[0])
	m.assumeRaw(smt.Eq(t, mkc(found[0])))
	return found[0]
}

// Oblige checks that cond holds on the current path; a counterexample is recorded, then cond is assumed.
func (m *Machine) Oblige(cond *smt.Term, label, kind string) {
	m.Obligations++
	if cond.IsConst() && cond.U == 1 {
		m.Discharged++
		m.Trivial++
		return
	}
	if m.Cfg.IsConc {
		if cond.IsConst() {
			m.Violations = append(m.Violations, Violation{Label: label, Kind: kind, Pos: m.where()})
			m.end("violated", "%s %s", kind, label)
		}
		m.end("unsupported", "symbolic obligation in concrete mode")
	}
	if m.known(cond) == 1 {
		m.Discharged++
		m.Trivial++
		return
	}
	r := m.Sol.CheckWith(smt.Not(cond))
	switch r {
	case smt.Unsat:
		m.Discharged++
		m.assumeRaw(cond) // helps later queries
	case smt.Unknown:
		m.Unknowns = append(m.Unknowns, "obligation "+label+" at "+m.where())
		m.assumeRaw(cond)
	case smt.Sat:
		m.Sol.Push()
		m.Sol.Assert(smt.Not(cond))
		m.defineNondets()
		v := Violation{Label: label, Kind: kind, Pos: m.where(), PCSize: len(m.pc), Trace: append([]int64(nil), m.trace...), UsesUF: m.usedUF}
		if m.Sol.Check() == smt.Sat {
			// prefer a model that agrees with the real hash functions at its own argument points
			v.Refined = m.refineUF()
			if !v.Refined {
				// fall back to the unrefined model (it will be classified by the native replay)
				m.Sol.Pop()
				m.Sol.Push()
				m.Sol.Assert(smt.Not(cond))
				m.defineNondets()
				m.Sol.Check()
			}
			v.Model, v.Nondets = m.modelStrings()
			// validate the model in-process: the obligation must evaluate to false under it (possible when no
			// Skolem or uninterpreted symbol is involved). A model that does not falsify it is a solver glitch.
			if m.skolem == 0 && !m.usedUF && !m.modelFalsifies(cond) {
				m.Sol.Pop()
				m.BogusModels++
				if m.BogusModels <= 3 && m.Sol.CheckWith(smt.Not(cond)) == smt.Unsat {
					m.Discharged++
					m.assumeRaw(cond)
					return
				}
				m.Unknowns = append(m.Unknowns, "solver returned a model that does not falsify obligation "+label+" at "+m.where())
				m.assumeRaw(cond)
				return
			}
		}
		m.Sol.Pop()
		m.Violations = append(m.Violations, v)
		if cond.IsConst() {
			m.end("violated", "%s %s", kind, label)
		}
		if !m.feasible(cond) {
			m.end("violated", "%s %s (always on this path)", kind, label)
		}
		m.assumeRaw(cond)
	}
}

// modelFalsifies: under the solver's current model of the nondets, does cond evaluate to false?
// (true also when it cannot be evaluated to a constant - then the native replay decides)
func (m *Machine) modelFalsifies(cond *smt.Term) bool {
	ts := make([]*smt.Term, 0, len(m.nondets))
	for _, n := range m.nondets {
		if !n.T.IsConst() {
			ts = append(ts, n.T)
		}
	}
	vals, err := m.Sol.GetValues(ts)
	if err != nil {
		return true
	}
	env := map[*smt.Term]*smt.Term{}
	for i, t := range ts {
		env[t] = vals[i]
	}
	r := smt.Subst(cond, env, map[*smt.Term]*smt.Term{})
	if !r.IsConst() {
		return true
	}
	return r.U == 0
}

func (m *Machine) defineNondets() {
	for _, n := range m.nondets {
		m.Sol.Define(n.T)
	}
	// terms whose values the UF refinement reads must exist before check-sat (z3 drops the model otherwise)
	for _, pts := range m.ufPoints {
		for _, p := range pts {
			m.Sol.Define(p.args[0])
			m.Sol.Define(p.res)
		}
	}
}

func (m *Machine) modelStrings() ([]string, []string) {
	ts := make([]*smt.Term, len(m.nondets))
	names := make([]string, len(m.nondets))
	for i, n := range m.nondets {
		ts[i] = n.T
		names[i] = n.Name + ":" + n.Kind
	}
	vals, err := m.Sol.GetValues(ts)
	if err != nil {
		return []string{"error: " + err.Error()}, names
	}
	out := make([]string, len(vals))
	for i, v := range vals {
		if v.Sort.K == smt.KBool {
			out[i] = fmt.Sprint(v.U)
		} else {
			out[i] = v.BigVal().String()
		}
	}
	return out, names
}

// ---------- values, zero values, constants ----------

func (m *Machine) newObj(v Value, t types.Type, name string) *Object {
	m.nextObj++
	return &Object{ID: m.nextObj, Val: v, Typ: t, Name: name, Init: m.inInit > 0}
}

type numT struct {
	w      int
	signed bool
}

func intInfo(t types.Type) (numT, bool) {
	b, ok := t.Underlying().(*types.Basic)
	if !ok {
		return numT{}, false
	}
	switch b.Kind() {
	case types.Int8:
		return numT{8, true}, true
	case types.Int16:
		return numT{16, true}, true
	case types.Int32:
		return numT{32, true}, true
	case types.Int64, types.Int, types.UntypedInt, types.UntypedRune:
		return numT{64, true}, true
	case types.Uint8:
		return numT{8, false}, true
	case types.Uint16:
		return numT{16, false}, true
	case types.Uint32:
		return numT{32, false}, true
	case types.Uint64, types.Uint, types.Uintptr:
		return numT{64, false}, true
	}
	return numT{}, false
}

func (m *Machine) numConst(nt numT, v *big.Int) *smt.Term {
	if m.IntMode() {
		return smt.IntConst(v)
	}
	return smt.BVConstBig(nt.w, v)
}

func (m *Machine) intConst(t types.Type, v int64) *smt.Term {
	nt, ok := intInfo(t)
	if !ok {
		panic("intConst of non-int type " + t.String())
	}
	return m.numConst(nt, big.NewInt(v))
}

func (m *Machine) mkInt(v int64) *smt.Term { return m.numConst(numT{64, true}, big.NewInt(v)) }
func (m *Machine) mkByte(b byte) *smt.Term { return m.numConst(numT{8, false}, big.NewInt(int64(b))) }

func isBigInt(t types.Type) bool {
	n, ok := t.(*types.Named)
	return ok && n.Obj().Pkg() != nil && n.Obj().Pkg().Path() == "math/big" && n.Obj().Name() == "Int"
}

func (m *Machine) bigZero() *BigInt {
	if m.IntMode() {
		return &BigInt{T: smt.IntConstI(0), Init: m.inInit > 0}
	}
	return &BigInt{T: smt.BVConst(m.Cfg.BigW, 0), Init: m.inInit > 0}
}

func (m *Machine) zero(t types.Type) Value {
	if isBigInt(t) {
		return m.bigZero()
	}
	switch u := t.Underlying().(type) {
	case *types.Basic:
		if nt, ok := intInfo(u); ok {
			return m.numConst(nt, big.NewInt(0))
		}
		switch u.Kind() {
		case types.Bool, types.UntypedBool:
			return smt.False
		case types.String, types.UntypedString:
			return StrVal{}
		case types.UnsafePointer:
			return Ptr{}
		case types.UntypedNil:
			return Ptr{}
		}
		return Poison{"zero of " + u.String()}
	case *types.Pointer:
		return Ptr{}
	case *types.Slice:
		return SliceVal{}
	case *types.Array:
		a := &ArrayVal{E: make([]Value, u.Len())}
		if u.Len() > 0 {
			z := m.zero(u.Elem())
			a.E[0] = z
			for i := int64(1); i < u.Len(); i++ {
				a.E[i] = m.copyVal(z)
			}
		}
		return a
	case *types.Struct:
		s := &StructVal{F: make([]Value, u.NumFields())}
		for i := 0; i < u.NumFields(); i++ {
			s.F[i] = m.zero(u.Field(i).Type())
		}
		return s
	case *types.Interface:
		return IfaceVal{}
	case *types.Map:
		return MapVal{}
	case *types.Signature:
		return FuncVal{}
	case *types.Chan:
		return ChanVal{}
	case *types.Tuple:
		tv := make(TupleVal, u.Len())
		for i := range tv {
			tv[i] = m.zero(u.At(i).Type())
		}
		return tv
	}
	return Poison{"zero of " + t.String()}
}

func (m *Machine) copyVal(v Value) Value {
	switch x := v.(type) {
	case *ArrayVal:
		n := &ArrayVal{E: make([]Value, len(x.E))}
		for i, e := range x.E {
			n.E[i] = m.copyVal(e)
		}
		return n
	case *StructVal:
		n := &StructVal{F: make([]Value, len(x.F))}
		for i, e := range x.F {
			n.F[i] = m.copyVal(e)
		}
		return n
	case *BigInt:
		return &BigInt{T: x.T, Init: m.inInit > 0}
	case TupleVal:
		n := make(TupleVal, len(x))
		for i, e := range x {
			n[i] = m.copyVal(e)
		}
		return n
	}
	return v
}

func (m *Machine) constVal(c *ssa.Const) Value {
	t := c.Type()
	if c.Value == nil {
		return m.zero(t)
	}
	if _, isTP := t.(*types.TypeParam); isTP {
		m.unsupported("type-param constant")
	}
	switch u := t.Underlying().(type) {
	case *types.Basic:
		if nt, ok := intInfo(u); ok {
			v := constant.ToInt(c.Value)
			bi, ok2 := new(big.Int).SetString(v.ExactString(), 10)
			if !ok2 {
				return Poison{"const " + c.Value.String()}
			}
			return m.numConst(nt, bi)
		}
		switch u.Kind() {
		case types.Bool, types.UntypedBool:
			return smt.Bool(constant.BoolVal(c.Value))
		case types.String, types.UntypedString:
			return StrVal{S: constant.StringVal(c.Value)}
		case types.Float64, types.Float32, types.UntypedFloat:
			f, _ := constant.Float64Val(c.Value)
			return Opaque{Kind: "float", Data: f}
		}
	}
	return Poison{"const of type " + t.String()}
}

func (m *Machine) get(fr *frame, v ssa.Value) Value {
	switch x := v.(type) {
	case *ssa.Const:
		if sc := m.Cfg.ScaleConsts; sc != nil && x.Value != nil && x.Value.Kind() == constant.Int {
			if tbl, ok := sc[fr.fn.String()]; ok {
				if to, ok2 := tbl[x.Value.ExactString()]; ok2 {
					if u, okb := x.Type().Underlying().(*types.Basic); okb {
						if nt, oki := intInfo(u); oki {
							return m.numConst(nt, big.NewInt(to))
						}
					}
				}
			}
		}
		return m.constVal(x)
	case *ssa.Global:
		return Ptr{Obj: m.global(x)}
	case *ssa.Function:
		return FuncVal{Fn: x}
	case *ssa.Builtin:
		return FuncVal{IName: "builtin:" + x.Name()}
	}
	val, ok := fr.locals[v]
	if !ok {
		panic(fmt.Sprintf("engine: no value for %s (%T) in %s", v.Name(), v, fr.fn))
	}
	return val
}

// ---------- globals and package init ----------

func (m *Machine) global(g *ssa.Global) *Object {
	if o, ok := m.globals[g]; ok {
		return o
	}
	m.ensureInit(g.Pkg)
	if o, ok := m.globals[g]; ok {
		return o
	}
	return m.allocGlobal(g)
}

func (m *Machine) allocGlobal(g *ssa.Global) *Object {
	et := g.Type().(*types.Pointer).Elem()
	m.inInit++
	o := m.newObj(m.zero(et), et, g.String())
	m.inInit--
	m.globals[g] = o
	return o
}

var skipInitPkgs = map[string]bool{
	"runtime": true, "os": true, "syscall": true, "reflect": true, "internal/reflectlite": true,
	"fmt": true, "log": true, "time": true, "sync": true, "unicode": true, "net": true, "io": true,
	"github.com/massnetorg/mass-core/logging": true, "math/big": true, "crypto/elliptic": true,
	"crypto/internal/nistec": true,
}

var skipInitPrefixes = []string{
	"google.golang.org/", "github.com/golang/protobuf", "github.com/gogo/protobuf", "github.com/grpc-ecosystem/",
	"net/", "crypto/tls", "crypto/x509", "github.com/spf13/", "golang.org/x/net/", "golang.org/x/text/", "golang.org/x/sys/",
	"vendor/", "internal/", "runtime/", "encoding/json", "encoding/xml", "html", "mime", "text/template", "regexp", "compress/",
	"github.com/syndtr/goleveldb", "github.com/tecbot/", "github.com/rs/", "github.com/btcsuite/go-flags", "github.com/btcsuite/winsvc",
	"massnet.org/mass-wallet/api/proto", "github.com/massnetorg/mass-core/p2p", "github.com/massnetorg/mass-core/netsync",
}

// exceptions to the prefixes: small initialisers (error values) that harnesses over the LevelDB wrapper read
var runInitPkgs = map[string]bool{
	"github.com/syndtr/goleveldb/leveldb": true, "github.com/syndtr/goleveldb/leveldb/errors": true,
	"github.com/syndtr/goleveldb/leveldb/util": true, "github.com/syndtr/goleveldb/leveldb/iterator": true,
}

func skipInit(path string) bool {
	if runInitPkgs[path] {
		return false
	}
	if skipInitPkgs[path] {
		return true
	}
	for _, pre := range skipInitPrefixes {
		if strings.HasPrefix(path, pre) {
			return true
		}
	}
	return false
}

// ensureInit runs the package initializer lazily (calls to other packages' init are skipped; they
// are run when one of their globals is first touched).
func (m *Machine) ensureInit(p *ssa.Package) {
	if p == nil || m.initDone[p] {
		return
	}
	m.initDone[p] = true
	initFn := p.Func("init")
	skipped := initFn != nil && len(initFn.Blocks) > 0 && skipInit(p.Pkg.Path())
	zeros := map[*ssa.Global]Value{}
	for _, mem := range p.Members {
		if g, ok := mem.(*ssa.Global); ok {
			if _, have := m.globals[g]; !have {
				o := m.allocGlobal(g)
				if skipped && g.Name() != "init$guard" {
					// never silently zero: a global whose initialiser is not run is poison
					o.Val = Poison{"global " + g.String() + " of a package whose initialiser is skipped by the engine"}
				}
				zeros[g] = o.Val
			}
		}
	}
	if initFn == nil || len(initFn.Blocks) == 0 || skipped {
		return
	}
	poisonRest := func(why string) {
		for g, z := range zeros {
			if o := m.globals[g]; o != nil && sameValue(o.Val, z) && g.Name() != "init$guard" {
				if _, isP := z.(Poison); !isP {
					o.Val = Poison{"global " + g.String() + ": " + why}
				}
			}
		}
	}
	// Special-case: big-table packages are skipped unless needed (errors.New-style inits are cheap).
	saveFrame := m.curFrame
	saveDepth := m.depth
	func() {
		defer func() {
			if r := recover(); r != nil {
				if _, isPE := r.(pathEnd); !isPE {
					m.InitNotes = append(m.InitNotes, fmt.Sprintf("init of %s: engine panic: %v", p.Pkg.Path(), r))
					m.curFrame = saveFrame
					m.depth = saveDepth
					poisonRest("package initialiser aborted")
					return
				}
				if pe, ok := r.(pathEnd); ok && pe.Kind == "unsupported" {
					// Partial init: remaining globals stay zero; note it.
					m.InitNotes = append(m.InitNotes, "init of "+p.Pkg.Path()+" incomplete: "+pe.Msg)
					m.curFrame = saveFrame
					m.depth = saveDepth
					poisonRest("package initialiser aborted")
					return
				}
				panic(r)
			}
		}()
		m.inInit++
		saveTop := m.initTop
		m.initTop = initFn
		defer func() { m.inInit--; m.initTop = saveTop }()
		m.call(FuncVal{Fn: initFn}, nil, nil)
	}()
}

// sameValue: identity of the engine value (pointer identity for aggregates and terms); false when unsure.
func sameValue(a, b Value) (same bool) {
	defer func() {
		if recover() != nil {
			same = false
		}
	}()
	switch x := a.(type) {
	case *smt.Term:
		y, ok := b.(*smt.Term)
		return ok && x == y
	case *StructVal:
		y, ok := b.(*StructVal)
		return ok && x == y
	case *ArrayVal:
		y, ok := b.(*ArrayVal)
		return ok && x == y
	case *BigInt:
		y, ok := b.(*BigInt)
		return ok && x == y
	case Ptr:
		y, ok := b.(Ptr)
		return ok && x.Obj == nil && y.Obj == nil
	case SliceVal:
		y, ok := b.(SliceVal)
		return ok && x.Obj == nil && y.Obj == nil
	case MapVal:
		y, ok := b.(MapVal)
		return ok && x.M == nil && y.M == nil
	case IfaceVal:
		y, ok := b.(IfaceVal)
		return ok && x.T == nil && y.T == nil
	case FuncVal:
		y, ok := b.(FuncVal)
		return ok && x.Fn == nil && y.Fn == nil && x.Intr == nil && y.Intr == nil
	case StrVal:
		y, ok := b.(StrVal)
		return ok && x.Len() == 0 && y.Len() == 0
	}
	return false
}

func distinctLeaves(t *smt.Term) int {
	seen := map[string]bool{}
	var walk func(x *smt.Term)
	walk = func(x *smt.Term) {
		if len(seen) > 16 {
			return
		}
		if x.IsConst() {
			seen[x.BigVal().String()] = true
			return
		}
		if x.Op == smt.OIte {
			walk(x.Args[1])
			walk(x.Args[2])
		}
	}
	walk(t)
	return len(seen)
}
