package symex

import (
	"crypto/hmac"
	"sort"
	"fmt"
	"os"
	"math/big"
	"strconv"
	"strings"

	"verifeng/smt"
)

// UF refinement: a counterexample may rely on a value of an uninterpreted hash that the real function does
// not have (e.g. a checksum). Before the model is reported, the real function is evaluated at every argument
// point the model mentions, the implication  arg = point -> result = real value  is asserted, and the query is
// re-solved; a model that survives is consistent with the real hashes at its own points and can be replayed
// natively. At most maxRefine rounds.

const maxRefine = 12

// realHash computes the real function behind a UF name for concrete input bytes (nil when unknown).
func realHash(fn string, in []byte) []byte {
	switch {
	case strings.HasPrefix(fn, "hmac_"):
		// hmac_<hash>_k<keylen>_<n>: input = key || data
		parts := strings.Split(fn, "_")
		if len(parts) < 4 {
			return nil
		}
		spec, ok := hashSpecs[parts[1]]
		if !ok {
			return nil
		}
		kl, err := strconv.Atoi(strings.TrimPrefix(parts[2], "k"))
		if err != nil || kl > len(in) {
			return nil
		}
		h := hmac.New(spec.new, in[:kl])
		h.Write(in[kl:])
		return h.Sum(nil)
	default:
		name := fn
		if i := strings.LastIndex(fn, "_"); i >= 0 {
			name = fn[:i]
		}
		spec, ok := hashSpecs[name]
		if !ok {
			return nil
		}
		h := spec.new()
		h.Write(in)
		return h.Sum(nil)
	}
}

// refineUF runs inside a pushed solver scope whose last Check() was Sat. It returns true when the final
// model is consistent with the real hash functions at all its argument points (or no hash is involved),
// false when no such model was found within the bound.
func (m *Machine) refineUF() bool {
	if os.Getenv("VERIF_DEBUG") != "" {
		fmt.Fprintf(os.Stderr, "refineUF enter: %d uf names\n", len(m.ufPoints))
	}
	if len(m.ufPoints) == 0 {
		return true
	}
	for round := 0; round < maxRefine; round++ {
		// Points in creation order (innermost applications first), duplicates removed. One point is pinned per
		// round: pinning an outer application before the inner one would fix its argument to a fake inner value.
		type pt struct {
			fn string
			p  ufPoint
		}
		var all []pt
		seen := map[*smt.Term]bool{}
		for fn, pts := range m.ufPoints {
			if realHash(fn, []byte{0}) == nil {
				continue // curve / scrypt etc.: no real implementation in the engine
			}
			for _, p := range pts {
				if !seen[p.res] {
					seen[p.res] = true
					all = append(all, pt{fn, p})
				}
			}
		}
		sort.Slice(all, func(i, j int) bool { return all[i].p.res.ID < all[j].p.res.ID })
		var pending []*smt.Term
		for _, x := range all {
			fn, p := x.fn, x.p
			arg := p.args[0]
			vals, err := m.Sol.GetValues([]*smt.Term{arg, p.res})
			if err != nil {
				if os.Getenv("VERIF_DEBUG") != "" {
					fmt.Fprintf(os.Stderr, "refineUF: get-value failed: %v\n", err)
				}
				return false
			}
			nbytes := arg.Sort.W / 8
			in := vals[0].BigVal().FillBytes(make([]byte, nbytes))
			if strings.HasSuffix(fn, "_0") && !strings.HasPrefix(fn, "hmac_") {
				in = nil
			}
			real := realHash(fn, in)
			if real == nil {
				continue
			}
			realT := smt.BVConstBig(p.res.Sort.W, new(big.Int).SetBytes(real))
			if vals[1].BigVal().Cmp(realT.BigVal()) == 0 {
				continue
			}
			// keep this argument and pin the function there
			pending = append(pending, smt.Eq(arg, vals[0]), smt.Eq(p.res, realT))
			break
		}
		if os.Getenv("VERIF_DEBUG") != "" {
			fmt.Fprintf(os.Stderr, "refineUF round %d: %d point(s) pinned to the real hash\n", round, len(pending))
		}
		if len(pending) == 0 {
			return true
		}
		// first try to keep the argument point (pin argument and real value); when no counterexample exists at
		// that point, only the function's real value there is recorded and the solver moves to another point
		if m.Sol.CheckWith(pending...) == smt.Sat {
			for _, t := range pending {
				m.Sol.Assert(t)
			}
		} else {
			m.Sol.Assert(smt.Implies(pending[0], pending[1]))
		}
		if r := m.Sol.Check(); r != smt.Sat {
			if os.Getenv("VERIF_DEBUG") != "" {
				fmt.Fprintf(os.Stderr, "refineUF: re-check gave %v\n", r)
			}
			return false
		}
	}
	return false
}
