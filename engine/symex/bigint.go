package symex

import (
	"go/token"
	"math/big"

	"verifeng/smt"
)

// math/big.Int intrinsics. Payload is *BigInt{T}: Int sort (int mode) or signed BV(BigW) (bv mode).

func (m *Machine) bigOf(v Value) *BigInt {
	p, ok := v.(Ptr)
	if !ok {
		m.unsupported("big.Int receiver %s", describe(v))
	}
	if p.IsNil() {
		m.panicNow("nil *big.Int dereference")
	}
	p = m.concPtr(p)
	b, ok := (*m.slot(p)).(*BigInt)
	if !ok {
		m.unsupported("big.Int payload is %s", describe(*m.slot(p)))
	}
	return b
}

func (m *Machine) newBig(t *smt.Term) Value {
	bt := m.P.Pkgs["math/big"].Type("Int").Type()
	return Ptr{Obj: m.newObj(&BigInt{T: t, Init: m.inInit > 0}, bt, "big.Int")}
}

func (m *Machine) bigW() int { return m.Cfg.BigW }

// machine int -> big term
func (m *Machine) toBig(t *smt.Term, nt numT) *smt.Term {
	if m.IntMode() {
		return t
	}
	if nt.signed && bvUpperBits(t) >= t.Sort.W {
		return smt.Sext(t, m.bigW()-nt.w)
	}
	return smt.Zext(t, m.bigW()-nt.w) // unsigned, or signed with a sign bit that is structurally zero
}

func (m *Machine) bigConst(v *big.Int) *smt.Term {
	if m.IntMode() {
		return smt.IntConst(v)
	}
	return smt.BVConstBig(m.bigW(), v)
}

func (m *Machine) bigLt(a, b *smt.Term) *smt.Term {
	if m.IntMode() {
		return smt.ILt(a, b)
	}
	return smt.BvSlt(a, b)
}

func (m *Machine) bigNeg(a *smt.Term) *smt.Term {
	if m.IntMode() {
		return smt.INeg(a)
	}
	return smt.BvNeg(a)
}

func (m *Machine) bigAbs(a *smt.Term) *smt.Term {
	if m.IntMode() && a.Lo != nil && a.Lo.Sign() >= 0 {
		return a
	}
	return smt.Ite(m.bigLt(a, m.bigConst(big.NewInt(0))), m.bigNeg(a), a)
}

func (m *Machine) bigBin(op string, a, b *smt.Term) *smt.Term {
	if m.IntMode() {
		switch op {
		case "add":
			return smt.IAdd(a, b)
		case "sub":
			return smt.ISub(a, b)
		case "mul":
			return smt.IMul(a, b)
		}
	} else {
		w := m.bigW()
		ua, ub := bvUpperBits(a), bvUpperBits(b)
		switch op {
		case "add":
			if maxInt(ua, ub)+1 >= w && maxInt(bvSignedBits(a), bvSignedBits(b))+1 >= w {
				// no structural bound: the solver decides whether the sum can leave the model width on this path
				wide := smt.BvAdd(smt.Sext(a, 1), smt.Sext(b, 1))
				if !m.Branch(smt.Eq(wide, smt.Sext(smt.BvAdd(a, b), 1))) {
					m.unsupported("big.Int addition exceeds the %d-bit model width", w)
				}
			}
			return smt.BvAdd(a, b)
		case "sub":
			return smt.BvSub(a, b)
		case "mul":
			// multiplication by a power of two is a shift: keeps the bit structure visible to the folder
			for _, pr := range [][2]*smt.Term{{a, b}, {b, a}} {
				x, c := pr[0], pr[1]
				if c.IsConst() && c.BigVal().Sign() > 0 && c.BigVal().BitLen() == int(c.BigVal().TrailingZeroBits())+1 {
					k := int(c.BigVal().TrailingZeroBits())
					ux := bvUpperBits(x)
					if ux+k < w {
						if k == 0 {
							return x
						}
						return smt.Concat(smt.Extract(x, w-1-k, 0), smt.BVConst(k, 0))
					}
				}
			}
			if ua+ub >= w && bvSignedBits(a)+bvSignedBits(b) >= w {
				// sufficient: both factors fit in half the width (signed); decided by the solver on this path
				h := w/2 - 1
				fits := func(x *smt.Term) *smt.Term {
					return smt.Eq(smt.Sext(smt.Extract(x, h, 0), w-h-1), x)
				}
				if !m.Branch(smt.And(fits(a), fits(b))) {
					m.unsupported("big.Int multiplication may exceed the %d-bit model width", w)
				}
			}
			return smt.BvMul(a, b)
		case "and":
			// mask 2^k-1: the low k bits
			for _, pr := range [][2]*smt.Term{{a, b}, {b, a}} {
				x, c := pr[0], pr[1]
				if c.IsConst() && c.BigVal().Sign() > 0 {
					k := c.BigVal().BitLen()
					if new(big.Int).Add(c.BigVal(), big.NewInt(1)).BitLen() == k+1 && new(big.Int).Add(c.BigVal(), big.NewInt(1)).TrailingZeroBits() == uint(k) && k < w {
						return smt.Zext(smt.Extract(x, k-1, 0), w-k)
					}
				}
			}
			return smt.BvAnd(a, b)
		case "or":
			return smt.BvOr(a, b)
		case "xor":
			return smt.BvXor(a, b)
		}
	}
	m.unsupported("big.Int %s in %s mode", op, m.Cfg.Mode)
	return nil
}

// nonNegBig: is the term known non-negative (cheaply)?
func (m *Machine) bigNonNegKnown(a *smt.Term) bool {
	if a.IsConst() {
		if m.IntMode() {
			return a.Big.Sign() >= 0
		}
		return a.SignedVal().Sign() >= 0
	}
	if m.IntMode() {
		return a.Lo != nil && a.Lo.Sign() >= 0
	}
	// zero-extended, or bounded below the sign bit by structure
	if a.Op == smt.OConcat && a.Args[0].IsConst() && a.Args[0].BigVal().Sign() == 0 {
		return true
	}
	return bvUpperBits(a) < a.Sort.W
}

func maxInt(a, b int) int {
	if a > b {
		return a
	}
	return b
}

// euclidean / truncated division helpers; y must be nonzero (checked by caller)
func (m *Machine) bigDivMod(x, y *smt.Term, trunc bool) (*smt.Term, *smt.Term) {
	if m.IntMode() {
		if trunc && !(m.bigNonNegKnown(x)) {
			// truncated: sign(x)*sign(y) * (|x| div |y|)
			ax, ay := m.bigAbs(x), m.bigAbs(y)
			q := smt.IDiv(ax, ay)
			neg := smt.Not(smt.Eq(smt.ILt(x, smt.IntConstI(0)), smt.ILt(y, smt.IntConstI(0))))
			q = smt.Ite(neg, smt.INeg(q), q)
			return q, smt.ISub(x, smt.IMul(q, y))
		}
		q := smt.IDiv(x, y) // SMT-LIB div is euclidean: matches big.Int.Div; for x>=0 also Quo when y>0
		if trunc && !m.bigNonNegKnown(y) {
			ay := m.bigAbs(y)
			q = smt.IDiv(x, ay)
			q = smt.Ite(smt.ILt(y, smt.IntConstI(0)), smt.INeg(q), q)
		}
		return q, smt.ISub(x, smt.IMul(q, y))
	}
	// bv mode, non-negative dividend and a power-of-two divisor: shift and mask
	if y.IsConst() && y.BigVal().Sign() > 0 && y.BigVal().BitLen() == int(y.BigVal().TrailingZeroBits())+1 && m.bigNonNegKnown(x) {
		k := int(y.BigVal().TrailingZeroBits())
		w := m.bigW()
		if k == 0 {
			return x, m.bigConst(big.NewInt(0))
		}
		if k < w {
			return smt.Zext(smt.Extract(x, w-1, k), k), smt.Zext(smt.Extract(x, k-1, 0), w-k)
		}
	}
	// bv mode, constant divisor and a dividend only a few bits longer: x = q*y + r with Skolem q (few bits), r < y
	if y.IsConst() && !x.IsConst() && y.BigVal().Sign() > 0 {
		xb, yb := bvUpperBits(x), y.BigVal().BitLen()
		if xb < m.bigW() && xb-yb+1 <= 3 && xb-yb+1 >= 1 {
			qbits := xb - yb + 1
			q := m.skolemBV("q", qbits)
			r := m.skolemBV("r", m.bigW())
			sum := r
			for i := 0; i < qbits; i++ {
				part := smt.Ite(smt.Eq(smt.Extract(q, i, i), smt.BVConst(1, 1)), m.bigConst(new(big.Int).Lsh(y.BigVal(), uint(i))), m.bigConst(big.NewInt(0)))
				sum = smt.BvAdd(sum, part)
			}
			// no overflow possible: r < y < 2^yb and q*y < 2^(xb+1) < 2^BigW
			m.assumeRaw(smt.And(smt.Eq(x, sum), smt.BvUlt(r, y)))
			return smt.Zext(q, m.bigW()-qbits), r
		}
	}
	// bv mode: only non-negative operands supported
	if !m.bigNonNegKnown(x) || !m.bigNonNegKnown(y) {
		if x.IsConst() && y.IsConst() {
			xv, yv := x.SignedVal(), y.SignedVal()
			q, r := new(big.Int), new(big.Int)
			if trunc {
				q.QuoRem(xv, yv, r)
			} else {
				q.DivMod(xv, yv, r)
			}
			return m.bigConst(q), m.bigConst(r)
		}
		m.unsupported("bv-mode big.Int division with possibly negative symbolic operands")
	}
	return smt.BvUdiv(x, y), smt.BvUrem(x, y)
}

func (m *Machine) bigBytesLen(x *smt.Term) int {
	// number of bytes of |x|, decided by forking on thresholds
	ax := m.bigAbs(x)
	maxBytes := 64
	if !m.IntMode() {
		maxBytes = (m.bigW() + 7) / 8
	} else if ax.Hi != nil {
		maxBytes = (ax.Hi.BitLen() + 7) / 8
	}
	for k := 0; k < maxBytes; k++ {
		th := m.bigConst(new(big.Int).Lsh(big.NewInt(1), uint(8*k)))
		if !m.IntMode() && 8*k >= m.bigW()-1 {
			break
		}
		if m.Branch(m.bigLt(ax, th)) {
			return k
		}
	}
	return maxBytes
}

func (m *Machine) bigByteAt(ax *smt.Term, k int) *smt.Term {
	// byte k (0 = least significant) of non-negative ax
	if m.IntMode() {
		return smt.IMod(smt.IDiv(ax, smt.IntConst(pow2(8*k))), smt.IntConstI(256))
	}
	return smt.Extract(ax, 8*k+7, 8*k)
}

func (m *Machine) bigFromBytes(bs []*smt.Term) *smt.Term {
	if m.IntMode() {
		acc := smt.IntConstI(0)
		for _, b := range bs {
			acc = smt.IAdd(smt.IMul(acc, smt.IntConstI(256)), b)
		}
		return acc
	}
	if len(bs) == 0 {
		return smt.BVConst(m.bigW(), 0)
	}
	if 8*len(bs) >= m.bigW() {
		// leading bytes must be zero
		extra := len(bs) - (m.bigW()-1)/8
		for i := 0; i < extra; i++ {
			m.Oblige(smt.Eq(bs[i], smt.BVConst(8, 0)), "engine: big.Int wider than BigW", "panic")
		}
		bs = bs[extra:]
	}
	c := smt.Concat(bs...)
	return smt.Zext(c, m.bigW()-c.Sort.W)
}

// decimal digits of non-negative x as byte terms (most significant first)
func (m *Machine) bigDecimal(x *smt.Term) []*smt.Term {
	if x.IsConst() {
		s := x.BigVal().String()
		if !m.IntMode() {
			s = x.SignedVal().String()
		}
		out := make([]*smt.Term, len(s))
		for i := range out {
			out[i] = m.mkByte(s[i])
		}
		return out
	}
	if !m.IntMode() {
		m.unsupported("decimal text of symbolic big.Int in bv mode")
	}
	if m.decCache == nil {
		m.decCache = map[*smt.Term][]*smt.Term{}
	}
	if ds, ok := m.decCache[x]; ok {
		return ds
	}
	orig := x
	defer func() {
		if r := recover(); r != nil {
			panic(r)
		}
	}()
	// digit count by forking
	n := 1
	maxDigits := 40
	if x.Hi != nil {
		maxDigits = len(x.Hi.String())
	}
	p := big.NewInt(10)
	for ; n < maxDigits; n++ {
		if m.Branch(smt.ILt(x, smt.IntConst(p))) {
			break
		}
		p = new(big.Int).Mul(p, big.NewInt(10))
	}
	// x = sum d_i 10^i, digits skolem
	ds := make([]*smt.Term, n)
	sum := smt.IntConstI(0)
	pw := big.NewInt(1)
	for i := 0; i < n; i++ {
		ds[i] = m.skolemInt("dig", 0, 9)
		sum = smt.IAdd(sum, smt.IMul(ds[i], smt.IntConst(pw)))
		pw = new(big.Int).Mul(pw, big.NewInt(10))
	}
	m.assumeRaw(smt.Eq(x, sum))
	out := make([]*smt.Term, n)
	for i := 0; i < n; i++ {
		out[i] = smt.IAdd(ds[n-1-i], smt.IntConstI(48))
	}
	m.decCache[orig] = out
	return out
}

func (m *Machine) bigText(x *smt.Term) StrVal {
	zero := m.bigConst(big.NewInt(0))
	if !m.bigNonNegKnown(x) {
		if m.Branch(m.bigLt(x, zero)) {
			ds := m.bigDecimal(m.bigNeg(x))
			return m.mkStr(append([]*smt.Term{m.mkByte('-')}, ds...))
		}
		if m.IntMode() && !x.IsConst() {
			// refine bounds for the digit count
			nx := smt.Ite(smt.ILt(x, smt.IntConstI(0)), smt.IntConstI(0), x)
			nx.Lo = big.NewInt(0)
			if x.Hi != nil {
				nx.Hi = x.Hi
			}
			m.assumeRaw(smt.Eq(nx, x))
			x = nx
		}
	}
	return m.mkStr(m.bigDecimal(x))
}

func init() {
	reg := func(name string, f intrinsic) { intrinsics[name] = f }
	i64 := numT{64, true}
	u64 := numT{64, false}

	reg("math/big.NewInt", func(m *Machine, a []Value) Value { return m.newBig(m.toBig(a[0].(*smt.Term), i64)) })
	set := func(f func(m *Machine, z *BigInt, a []Value)) intrinsic {
		return func(m *Machine, a []Value) Value {
			z := m.bigOf(a[0])
			f(m, z, a)
			return a[0]
		}
	}
	reg("(*math/big.Int).SetInt64", set(func(m *Machine, z *BigInt, a []Value) { m.setBig(z, m.toBig(a[1].(*smt.Term), i64)) }))
	reg("(*math/big.Int).SetUint64", set(func(m *Machine, z *BigInt, a []Value) { m.setBig(z, m.toBig(a[1].(*smt.Term), u64)) }))
	reg("(*math/big.Int).Set", set(func(m *Machine, z *BigInt, a []Value) { m.setBig(z, m.bigOf(a[1]).T) }))
	reg("(*math/big.Int).SetBytes", set(func(m *Machine, z *BigInt, a []Value) {
		if l, ok := a[1].(LazyBytes); ok {
			m.setBig(z, l.T) // the value whose bytes these are
			return
		}
		m.setBig(z, m.bigFromBytes(m.sliceBytes(a[1].(SliceVal))))
	}))
	bin := func(op string) intrinsic {
		return set(func(m *Machine, z *BigInt, a []Value) { m.setBig(z, m.bigBin(op, m.bigOf(a[1]).T, m.bigOf(a[2]).T)) })
	}
	reg("(*math/big.Int).Add", bin("add"))
	reg("(*math/big.Int).Sub", bin("sub"))
	reg("(*math/big.Int).Mul", bin("mul"))
	reg("(*math/big.Int).And", bin("and"))
	reg("(*math/big.Int).Or", bin("or"))
	reg("(*math/big.Int).Xor", bin("xor"))
	reg("(*math/big.Int).Neg", set(func(m *Machine, z *BigInt, a []Value) { m.setBig(z, m.bigNeg(m.bigOf(a[1]).T)) }))
	reg("(*math/big.Int).Abs", set(func(m *Machine, z *BigInt, a []Value) { m.setBig(z, m.bigAbs(m.bigOf(a[1]).T)) }))
	divmod := func(trunc bool, which int) intrinsic {
		return set(func(m *Machine, z *BigInt, a []Value) {
			x, y := m.bigOf(a[1]).T, m.bigOf(a[2]).T
			m.checkPanic(smt.Not(smt.Eq(y, m.bigConst(big.NewInt(0)))), "big.Int division by zero")
			q, r := m.bigDivMod(x, y, trunc)
			if which == 0 {
				m.setBig(z, q)
			} else {
				if !trunc && m.IntMode() {
					// Mod is euclidean: r in [0,|y|)
					m.setBig(z, smt.IMod(x, y))
					if !y.IsConst() {
						m.setBig(z, r)
					}
				} else {
					m.setBig(z, r)
				}
			}
		})
	}
	reg("(*math/big.Int).Div", divmod(false, 0))
	reg("(*math/big.Int).Mod", divmod(false, 1))
	reg("(*math/big.Int).Quo", divmod(true, 0))
	reg("(*math/big.Int).Rem", divmod(true, 1))
	reg("(*math/big.Int).Lsh", set(func(m *Machine, z *BigInt, a []Value) {
		k := concInt(m, a[2], "Lsh amount")
		x := m.bigOf(a[1]).T
		if m.IntMode() {
			m.setBig(z, smt.IMul(x, smt.IntConst(pow2(int(k)))))
		} else {
			m.setBig(z, smt.BvShl(x, smt.BVConst(m.bigW(), uint64(k))))
		}
	}))
	reg("(*math/big.Int).Rsh", set(func(m *Machine, z *BigInt, a []Value) {
		k := concInt(m, a[2], "Rsh amount")
		x := m.bigOf(a[1]).T
		if m.IntMode() {
			m.setBig(z, smt.IDiv(x, smt.IntConst(pow2(int(k)))))
		} else {
			m.setBig(z, smt.BvAshr(x, smt.BVConst(m.bigW(), uint64(k))))
		}
	}))
	reg("(*math/big.Int).Exp", set(func(m *Machine, z *BigInt, a []Value) {
		x, y := m.bigOf(a[1]).T, m.bigOf(a[2]).T
		if !x.IsConst() || !y.IsConst() {
			m.unsupported("big.Int.Exp with symbolic operands")
		}
		var mod *big.Int
		if p, ok := a[3].(Ptr); ok && !p.IsNil() {
			mt := m.bigOf(a[3]).T
			if !mt.IsConst() {
				m.unsupported("big.Int.Exp symbolic modulus")
			}
			mod = mt.BigVal()
		}
		xv, yv := x.BigVal(), y.BigVal()
		m.setBig(z, m.bigConst(new(big.Int).Exp(xv, yv, mod))) }))
	reg("(*math/big.Int).Cmp", func(m *Machine, a []Value) Value {
		x, y := m.bigOf(a[0]).T, m.bigOf(a[1]).T
		return smt.Ite(m.bigLt(x, y), m.mkInt(-1), smt.Ite(smt.Eq(x, y), m.mkInt(0), m.mkInt(1)))
	})
	reg("(*math/big.Int).CmpAbs", func(m *Machine, a []Value) Value {
		x, y := m.bigAbs(m.bigOf(a[0]).T), m.bigAbs(m.bigOf(a[1]).T)
		return smt.Ite(m.bigLt(x, y), m.mkInt(-1), smt.Ite(smt.Eq(x, y), m.mkInt(0), m.mkInt(1)))
	})
	reg("(*math/big.Int).Sign", func(m *Machine, a []Value) Value {
		x := m.bigOf(a[0]).T
		zero := m.bigConst(big.NewInt(0))
		return smt.Ite(m.bigLt(x, zero), m.mkInt(-1), smt.Ite(smt.Eq(x, zero), m.mkInt(0), m.mkInt(1)))
	})
	reg("(*math/big.Int).BitLen", func(m *Machine, a []Value) Value {
		x := m.bigAbs(m.bigOf(a[0]).T)
		if x.IsConst() {
			return m.mkInt(int64(x.BigVal().BitLen()))
		}
		cap_ := m.bigW()
		if m.IntMode() && x.Hi != nil && x.Hi.BitLen() < cap_ {
			cap_ = x.Hi.BitLen()
		}
		if !m.IntMode() {
			cap_ = m.bigW() - 1
		}
		acc := m.mkInt(int64(cap_))
		if m.IntMode() && (x.Hi == nil || x.Hi.BitLen() > cap_) {
			acc = m.mkInt(int64(cap_ + 1)) // inexact above BigW bits (stated in evidence)
		}
		for k := cap_ - 1; k >= 0; k-- {
			th := m.bigConst(pow2(k))
			acc = smt.Ite(m.bigLt(x, th), m.mkInt(int64(k)), acc)
		}
		return acc
	})
	reg("(*math/big.Int).Int64", func(m *Machine, a []Value) Value {
		x := m.bigOf(a[0]).T
		if m.IntMode() {
			return wrapInt(x, i64)
		}
		return smt.Extract(x, 63, 0)
	})
	reg("(*math/big.Int).Uint64", func(m *Machine, a []Value) Value {
		x := m.bigOf(a[0]).T
		if m.IntMode() {
			return wrapInt(m.bigAbs(x), u64)
		}
		return smt.Extract(m.bigAbs(x), 63, 0)
	})
	reg("(*math/big.Int).IsInt64", func(m *Machine, a []Value) Value {
		x := m.bigOf(a[0]).T
		lo, hi := typeRange(i64)
		return smt.And(smt.Not(m.bigLt(x, m.bigConst(lo))), smt.Not(m.bigLt(m.bigConst(hi), x)))
	})
	reg("(*math/big.Int).IsUint64", func(m *Machine, a []Value) Value {
		x := m.bigOf(a[0]).T
		lo, hi := typeRange(u64)
		return smt.And(smt.Not(m.bigLt(x, m.bigConst(lo))), smt.Not(m.bigLt(m.bigConst(hi), x)))
	})
	reg("(*math/big.Int).Bytes", func(m *Machine, a []Value) Value {
		x := m.bigOf(a[0]).T
		if m.Cfg.LazyBigBytes && !x.IsConst() {
			return LazyBytes{T: m.bigAbs(x)}
		}
		return m.forceLazy(LazyBytes{T: m.bigAbs(x)})
	})
	reg("(*math/big.Int).FillBytes", func(m *Machine, a []Value) Value {
		x := m.bigAbs(m.bigOf(a[0]).T)
		buf := a[1].(SliceVal)
		n := buf.Len
		th := m.bigConst(pow2(8 * n))
		if m.IntMode() || 8*n < m.bigW()-1 {
			m.checkPanic(m.bigLt(x, th), "math/big: buffer too small to fit value")
		}
		arr := m.backing(buf)
		for i := 0; i < n; i++ {
			arr.E[buf.Off+i] = m.bigByteAt(x, n-1-i)
		}
		return buf
	})
	text := func(m *Machine, a []Value) Value {
		if len(a) > 1 {
			if b := concInt(m, a[1], "Text base"); b != 10 {
				x := m.bigOf(a[0]).T
				if !x.IsConst() {
					m.unsupported("big.Int.Text base %d symbolic", b)
				}
				v := x.BigVal()
				if !m.IntMode() {
					v = x.SignedVal()
				}
				return StrVal{S: v.Text(int(b))}
			}
		}
		p := a[0].(Ptr)
		if p.IsNil() {
			return StrVal{S: "<nil>"}
		}
		return m.bigText(m.bigOf(a[0]).T)
	}
	reg("(*math/big.Int).Text", text)
	reg("(*math/big.Int).String", text)
	reg("(*math/big.Int).SetString", func(m *Machine, a []Value) Value {
		z := m.bigOf(a[0])
		s := concStr(m, a[1], "big.Int.SetString")
		base := concInt(m, a[2], "SetString base")
		v, ok := new(big.Int).SetString(s, int(base))
		if !ok {
			return TupleVal{Ptr{}, smt.False}
		}
		m.setBig(z, m.bigConst(v))
		return TupleVal{a[0], smt.True}
	})
	_ = token.ADD
}

// bvUpperBits: an upper bound on the number of significant bits of a non-negative BV term.
func bvUpperBits(t *smt.Term) int {
	w := t.Sort.W
	switch t.Op {
	case smt.OConst:
		return t.BigVal().BitLen()
	case smt.OConcat:
		if t.Args[0].IsConst() && t.Args[0].BigVal().Sign() == 0 {
			rest := 0
			for _, a := range t.Args[1:] {
				rest += a.Sort.W
			}
			return rest
		}
	case smt.OBvAdd:
		a, b := bvUpperBits(t.Args[0]), bvUpperBits(t.Args[1])
		if b > a {
			a = b
		}
		if a+1 < w {
			return a + 1
		}
	case smt.OIte:
		a, b := bvUpperBits(t.Args[1]), bvUpperBits(t.Args[2])
		if b > a {
			a = b
		}
		return a
	case smt.OBvOr, smt.OBvXor:
		a := 0
		for _, x := range t.Args {
			if b := bvUpperBits(x); b > a {
				a = b
			}
		}
		return a
	case smt.OBvAnd:
		a := w
		for _, x := range t.Args {
			if b := bvUpperBits(x); b < a {
				a = b
			}
		}
		return a
	}
	if t.Op == smt.OConcat {
		// leading zero constant followed by anything (handled above when Args[0] is the zero constant); a concat whose
		// first argument has itself a bound
		rest := 0
		for _, a := range t.Args[1:] {
			rest += a.Sort.W
		}
		if b := bvUpperBits(t.Args[0]); b < t.Args[0].Sort.W {
			return rest + b
		}
	}
	return w
}

// forceLazy materialises the bytes of a big value: forks on the byte length.
func (m *Machine) forceLazy(l LazyBytes) SliceVal {
	ax := l.T
	n := m.bigBytesLen(ax)
	bs := make([]*smt.Term, n)
	for i := 0; i < n; i++ {
		bs[i] = m.bigByteAt(ax, n-1-i)
	}
	if m.IntMode() && !ax.IsConst() && n > 0 {
		sum := smt.IntConstI(0)
		for i := 0; i < n; i++ {
			sum = smt.IAdd(smt.IMul(sum, smt.IntConstI(256)), bs[i])
		}
		m.assumeRaw(smt.Eq(sum, ax))
	}
	return m.bytesSlice(bs)
}

// bvSignedBits: a structural bound s such that the term, read as a signed number, fits in s bits (w when nothing
// is known). A non-negative value below 2^u fits in u+1 bits; sums and differences need one bit more than their
// operands, products the sum of their operands' bits.
func bvSignedBits(t *smt.Term) int {
	w := t.Sort.W
	if u := bvUpperBits(t); u < w {
		return u + 1
	}
	clamp := func(x int) int {
		if x > w {
			return w
		}
		return x
	}
	switch t.Op {
	case smt.OConst:
		return clamp(t.SignedVal().BitLen() + 1)
	case smt.OSext:
		return clamp(bvSignedBits(t.Args[0]))
	case smt.OBvAdd, smt.OBvSub:
		m := 0
		for _, a := range t.Args {
			if b := bvSignedBits(a); b > m {
				m = b
			}
		}
		return clamp(m + len(t.Args) - 1)
	case smt.OBvNeg:
		return clamp(bvSignedBits(t.Args[0]) + 1)
	case smt.OBvMul:
		m := 0
		for _, a := range t.Args {
			m += bvSignedBits(a)
		}
		return clamp(m)
	case smt.OIte:
		a, b := bvSignedBits(t.Args[1]), bvSignedBits(t.Args[2])
		if b > a {
			a = b
		}
		return clamp(a)
	}
	return w
}
