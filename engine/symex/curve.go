package symex

import (
	"fmt"
	"go/types"
	"math/big"

	"verifeng/smt"
)

// secp256k1 as uninterpreted algebra: scalar multiplication of the base point, point addition and
// decompression are uninterpreted functions over 256-bit coordinates. Contracts between them (group
// homomorphism) are stated by the harnesses that need them, in Go, through the same API.

const btcecPkg = "github.com/btcsuite/btcd/btcec"

var (
	secpN, _ = new(big.Int).SetString("FFFFFFFFFFFFFFFFFFFFFFFFFFFFFFFEBAAEDCE6AF48A03BBFD25E8CD0364141", 16)
	secpP, _ = new(big.Int).SetString("FFFFFFFFFFFFFFFFFFFFFFFFFFFFFFFFFFFFFFFFFFFFFFFFFFFFFFFEFFFFFC2F", 16)
	secpGx, _ = new(big.Int).SetString("79BE667EF9DCBBAC55A06295CE870B07029BFCDB2DCE28D959F2815B16F81798", 16)
	secpGy, _ = new(big.Int).SetString("483ADA7726A3C4655DA4FBFC0E1108A8FD17B448A68554199C47D08FFB10D4B8", 16)
)

func (m *Machine) structFieldIndex(t types.Type, name string) int {
	st := t.Underlying().(*types.Struct)
	for i := 0; i < st.NumFields(); i++ {
		if st.Field(i).Name() == name {
			return i
		}
	}
	m.unsupported("no field %s in %s", name, t)
	return -1
}

func (m *Machine) s256() Value {
	if m.s256obj != nil {
		return Ptr{Obj: m.s256obj}
	}
	bp := m.P.Pkgs[btcecPkg]
	ep := m.P.Pkgs["crypto/elliptic"]
	if bp == nil || ep == nil {
		m.unsupported("btcec not loaded")
	}
	m.inInit++
	defer func() { m.inInit-- }()
	cpT := ep.Type("CurveParams").Type()
	cp := m.zero(cpT).(*StructVal)
	set := func(name string, v *big.Int) {
		cp.F[m.structFieldIndex(cpT, name)] = m.newBig(m.bigConst(v))
	}
	if !m.IntMode() && m.bigW() < 264 {
		m.unsupported("btcec needs BigW >= 264")
	}
	set("P", secpP)
	set("N", secpN)
	set("B", big.NewInt(7))
	set("Gx", secpGx)
	set("Gy", secpGy)
	cp.F[m.structFieldIndex(cpT, "BitSize")] = m.mkInt(256)
	cp.F[m.structFieldIndex(cpT, "Name")] = StrVal{S: "secp256k1"}
	cpObj := m.newObj(cp, cpT, "secp256k1 params")
	kcT := bp.Type("KoblitzCurve").Type()
	kc := m.zero(kcT).(*StructVal)
	kc.F[0] = Ptr{Obj: cpObj}
	m.s256obj = m.newObj(kc, kcT, "btcec.S256")
	return Ptr{Obj: m.s256obj}
}

// coordinate (256 bit) <-> big term
func (m *Machine) coordToBig(c *smt.Term) *smt.Term {
	if m.IntMode() {
		m.unsupported("curve operations in int mode")
	}
	return smt.Zext(c, m.bigW()-256)
}

func (m *Machine) bigToCoord(b *smt.Term) *smt.Term { return smt.Extract(b, 255, 0) }

func (m *Machine) scalarOfBytes(bs []*smt.Term) *smt.Term {
	// numeric value of big-endian bytes, as a 256-bit vector (longer inputs: leading bytes must be zero)
	if len(bs) > 32 {
		for _, b := range bs[:len(bs)-32] {
			m.Oblige(smt.Eq(b, smt.BVConst(8, 0)), "engine: scalar wider than 256 bits", "panic")
		}
		bs = bs[len(bs)-32:]
	}
	if len(bs) == 0 {
		return smt.BVConst(256, 0)
	}
	c := smt.Concat(bs...)
	return smt.Zext(c, 256-c.Sort.W)
}

func (m *Machine) newPoint(x, y *smt.Term) Value {
	if !x.IsConst() {
		m.usedUF = true
	}
	return TupleVal{m.newBig(m.coordToBig(x)), m.newBig(m.coordToBig(y))}
}

// secpDecompress: the y with the requested parity for which (x,y) is on secp256k1, nil when there is none.
func secpDecompress(x *big.Int, odd bool) *big.Int {
	if x.Cmp(secpP) >= 0 {
		return nil
	}
	rhs := new(big.Int).Exp(x, big.NewInt(3), secpP)
	rhs.Add(rhs, big.NewInt(7)).Mod(rhs, secpP)
	e := new(big.Int).Add(secpP, big.NewInt(1))
	e.Rsh(e, 2)
	y := new(big.Int).Exp(rhs, e, secpP)
	if new(big.Int).Exp(y, big.NewInt(2), secpP).Cmp(rhs) != 0 {
		return nil
	}
	if (y.Bit(0) == 1) != odd {
		y.Sub(secpP, y)
	}
	return y
}

func init() {
	reg := func(name string, f intrinsic) { intrinsics[name] = f }
	reg(btcecPkg+".S256", func(m *Machine, a []Value) Value { return m.s256() })
	reg("(*"+btcecPkg+".KoblitzCurve).ScalarBaseMult", func(m *Machine, a []Value) Value {
		k := m.scalarOfBytes(m.sliceBytes(a[1].(SliceVal)))
		return m.newPoint(smt.App("ec_mulG_x", smt.BV(256), k), smt.App("ec_mulG_y", smt.BV(256), k))
	})
	reg("(*"+btcecPkg+".KoblitzCurve).Add", func(m *Machine, a []Value) Value {
		var cs [4]*smt.Term
		for i := 0; i < 4; i++ {
			cs[i] = m.bigToCoord(m.bigOf(a[1+i]).T)
		}
		return m.newPoint(smt.App("ec_add_x", smt.BV(256), cs[0], cs[1], cs[2], cs[3]), smt.App("ec_add_y", smt.BV(256), cs[0], cs[1], cs[2], cs[3]))
	})
	reg("(*"+btcecPkg+".KoblitzCurve).ScalarMult", func(m *Machine, a []Value) Value {
		x, y := m.bigToCoord(m.bigOf(a[1]).T), m.bigToCoord(m.bigOf(a[2]).T)
		k := m.scalarOfBytes(m.sliceBytes(a[3].(SliceVal)))
		return m.newPoint(smt.App("ec_mul_x", smt.BV(256), x, y, k), smt.App("ec_mul_y", smt.BV(256), x, y, k))
	})
	reg("(*"+btcecPkg+".KoblitzCurve).IsOnCurve", func(m *Machine, a []Value) Value {
		x, y := m.bigToCoord(m.bigOf(a[1]).T), m.bigToCoord(m.bigOf(a[2]).T)
		return smt.Eq(smt.App("ec_oncurve", smt.BV(1), x, y), smt.BVConst(1, 1))
	})
	// PublicKey{Curve, X, Y}.SerializeCompressed: 0x02|odd(Y) || ser256(X)
	serC := func(m *Machine, a []Value) Value {
		var pk *StructVal
		switch v := a[0].(type) {
		case Ptr:
			if v.IsNil() {
				m.panicNow("nil *btcec.PublicKey")
			}
			pk = (*m.slot(m.concPtr(v))).(*StructVal)
		case *StructVal:
			pk = v
		default:
			m.unsupported("SerializeCompressed receiver %s", describe(a[0]))
		}
		x, y := m.bigToCoord(m.bigOf(pk.F[1]).T), m.bigToCoord(m.bigOf(pk.F[2]).T)
		out := make([]*smt.Term, 33)
		out[0] = smt.Concat(smt.BVConst(7, 1), smt.Extract(y, 0, 0))
		for i := 0; i < 32; i++ {
			out[1+i] = smt.Extract(x, 255-8*i, 248-8*i)
		}
		return m.bytesSlice(out)
	}
	reg("(*"+btcecPkg+".PublicKey).SerializeCompressed", serC)
	reg("("+btcecPkg+".PublicKey).SerializeCompressed", serC)
	// ParsePubKey (compressed form only): format byte 2/3, X = bytes 1..32, must decompress (uninterpreted
	// predicate), Y = uninterpreted function of X and the parity bit.
	reg(btcecPkg+".ParsePubKey", func(m *Machine, a []Value) Value {
		bs := m.sliceBytes(a[0].(SliceVal))
		pkT := m.P.Pkgs[btcecPkg].Type("PublicKey").Type()
		fail := func(msg string) Value { return TupleVal{Ptr{}, m.newError("btcec.ParsePubKey: " + msg)} }
		if len(bs) == 0 {
			return fail("pubkey string is empty")
		}
		if len(bs) != 33 {
			if len(bs) == 65 {
				m.unsupported("btcec.ParsePubKey of an uncompressed key")
			}
			return fail(fmt.Sprintf("invalid pub key length %d", len(bs)))
		}
		fmtOK := smt.Eq(smt.Extract(bs[0], 7, 1), smt.BVConst(7, 1))
		if !m.Branch(fmtOK) {
			return fail("invalid magic in compressed pubkey string")
		}
		x := smt.Concat(bs[1:]...)
		ybit := smt.Extract(bs[0], 0, 0)
		if x.IsConst() && ybit.IsConst() {
			// a concrete point: decompress with the real curve equation y^2 = x^3 + 7 over the secp256k1 field
			y := secpDecompress(x.BigVal(), ybit.U == 1)
			if y == nil {
				return fail("point not on curve")
			}
			pk := m.zero(pkT).(*StructVal)
			pk.F[0] = IfaceVal{T: types.NewPointer(m.P.Pkgs[btcecPkg].Type("KoblitzCurve").Type()), V: m.s256()}
			pk.F[1] = m.newBig(m.coordToBig(x))
			pk.F[2] = m.newBig(m.coordToBig(smt.BVConstBig(256, y)))
			return TupleVal{Ptr{Obj: m.newObj(pk, pkT, "pubkey")}, IfaceVal{}}
		}
		valid := smt.Eq(smt.App("ec_decompressible", smt.BV(1), x), smt.BVConst(1, 1))
		if !m.Branch(valid) {
			return fail("point not on curve")
		}
		y := smt.App("ec_decompress_y", smt.BV(256), x, ybit)
		// the decompressed Y has the requested parity (contract of decompressPoint)
		m.assumeRaw(smt.Eq(smt.Extract(y, 0, 0), ybit))
		pk := m.zero(pkT).(*StructVal)
		pk.F[0] = IfaceVal{T: types.NewPointer(m.P.Pkgs[btcecPkg].Type("KoblitzCurve").Type()), V: m.s256()}
		pk.F[1] = m.newBig(m.coordToBig(x))
		pk.F[2] = m.newBig(m.coordToBig(y))
		return TupleVal{Ptr{Obj: m.newObj(pk, pkT, "pubkey")}, IfaceVal{}}
	})
	reg("(*math/big.Int).Bit", func(m *Machine, a []Value) Value {
		x := m.bigOf(a[0]).T
		i := int(concInt(m, a[1], "Bit index"))
		if m.IntMode() {
			return smt.IMod(smt.IDiv(m.bigAbs(x), smt.IntConst(pow2(i))), smt.IntConstI(2))
		}
		if i >= m.bigW() {
			return m.mkInt(0)
		}
		return smt.Zext(smt.Extract(x, i, i), 63)
	})
}
