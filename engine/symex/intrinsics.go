package symex

import (
	"fmt"
	"go/token"
	"go/types"
	"math/big"
	"strings"

	"verifeng/smt"
)

type intrinsic func(m *Machine, args []Value) Value

var intrinsics = map[string]intrinsic{}

const rtPkg = "massnet.org/mass-wallet/zzverifrt"

// prefixIntrinsic: whole families replaced by no-ops.
func prefixIntrinsic(name string) intrinsic {
	switch {
	case strings.HasPrefix(name, "github.com/massnetorg/mass-core/logging."),
		strings.HasPrefix(name, "(*github.com/massnetorg/mass-core/logging."),
		strings.HasPrefix(name, "(github.com/massnetorg/mass-core/logging."):
		return func(m *Machine, args []Value) Value { m.textSink("logging", args); return nil }
	case strings.HasPrefix(name, "(*sync.Mutex)."), strings.HasPrefix(name, "(*sync.RWMutex)."):
		if strings.HasSuffix(name, ".TryLock") || strings.HasSuffix(name, ".TryRLock") {
			return func(m *Machine, args []Value) Value { return smt.True }
		}
		if strings.HasSuffix(name, ".RLocker") {
			return nil
		}
		// Execution is sequential, so locks are no-ops - except inside rt.Blocked(f), where f stands for another
		// goroutine: there, taking a lock that the harness's own thread holds parks f (blocked.go).
		switch {
		case strings.HasSuffix(name, ".Lock"):
			return func(m *Machine, args []Value) Value { m.muLock(args[0], true); return nil }
		case strings.HasSuffix(name, ".Unlock"):
			return func(m *Machine, args []Value) Value { m.muUnlock(args[0]); return nil }
		case strings.HasSuffix(name, ".RLock"):
			return func(m *Machine, args []Value) Value { m.muLock(args[0], false); return nil }
		}
		return func(m *Machine, args []Value) Value { return nil }
	case strings.HasPrefix(name, "(*github.com/syndtr/goleveldb/leveldb.Batch)."):
		// recording side of a write batch; the wallet layer keeps its own puts/deletes maps
		return func(m *Machine, args []Value) Value { return nil }
	case strings.HasPrefix(name, "(*sync.WaitGroup)."):
		return func(m *Machine, args []Value) Value { return nil }
	}
	return nil
}

func (m *Machine) nondetScalar(kind string, nt numT) *smt.Term {
	idx := len(m.nondets)
	name := fmt.Sprintf("nd%d_%s", idx, kind)
	if m.Cfg.IsConc {
		if m.concIdx >= len(m.Cfg.Concrete) {
			m.end("assume", "concrete vector exhausted")
		}
		v := m.Cfg.Concrete[m.concIdx]
		m.concIdx++
		var t *smt.Term
		if kind == "bool" {
			t = smt.Bool(v != 0)
		} else {
			bi := big.NewInt(v)
			if !nt.signed && v < 0 {
				bi = new(big.Int).SetUint64(uint64(v))
			}
			t = m.numConst(nt, bi)
		}
		m.nondets = append(m.nondets, Nondet{Name: name, T: t, Kind: kind})
		return t
	}
	var t *smt.Term
	switch {
	case kind == "bool":
		t = smt.Var(name, smt.BoolSort)
	case m.IntMode():
		lo, hi := typeRange(nt)
		t = smt.IntVarBounded(name, lo, hi)
	default:
		t = smt.Var(name, smt.BV(nt.w))
	}
	m.nondets = append(m.nondets, Nondet{Name: name, T: t, Kind: kind})
	return t
}

func (m *Machine) freshBytes(n int) []*smt.Term {
	out := make([]*smt.Term, n)
	for i := range out {
		out[i] = m.nondetScalar("u8", numT{8, false})
	}
	return out
}

// internal (non-input) fresh symbol
func (m *Machine) skolemInt(prefix string, lo, hi int64) *smt.Term {
	m.skolem++
	return smt.IntVarBounded(fmt.Sprintf("sk%d_%s", m.skolem, prefix), big.NewInt(lo), big.NewInt(hi))
}

func (m *Machine) skolemBV(prefix string, w int) *smt.Term {
	m.skolem++
	return smt.Var(fmt.Sprintf("sk%d_%s_%d", m.skolem, prefix, w), smt.BV(w))
}

func concStr(m *Machine, v Value, what string) string {
	s, ok := v.(StrVal)
	if !ok {
		m.unsupported("%s: expected string, got %s", what, describe(v))
	}
	c, ok := s.Concrete()
	if !ok {
		m.unsupported("%s: symbolic string", what)
	}
	return c
}

func concInt(m *Machine, v Value, what string) int64 {
	t, ok := v.(*smt.Term)
	if !ok {
		m.unsupported("%s: expected int", what)
	}
	return m.Concretize(t, what)
}

func (m *Machine) byteEqConst(b *smt.Term, c byte) *smt.Term { return smt.Eq(b, m.mkByte(c)) }

func init() {
	reg := func(name string, f intrinsic) { intrinsics[name] = f }

	// ----- verifrt -----
	reg(rtPkg+".NondetU8", func(m *Machine, a []Value) Value { return m.nondetScalar("u8", numT{8, false}) })
	reg(rtPkg+".NondetU16", func(m *Machine, a []Value) Value { return m.nondetScalar("u16", numT{16, false}) })
	reg(rtPkg+".NondetU32", func(m *Machine, a []Value) Value { return m.nondetScalar("u32", numT{32, false}) })
	reg(rtPkg+".NondetU64", func(m *Machine, a []Value) Value { return m.nondetScalar("u64", numT{64, false}) })
	reg(rtPkg+".NondetI64", func(m *Machine, a []Value) Value { return m.nondetScalar("i64", numT{64, true}) })
	reg(rtPkg+".NondetI32", func(m *Machine, a []Value) Value { return m.nondetScalar("i32", numT{32, true}) })
	reg(rtPkg+".NondetInt", func(m *Machine, a []Value) Value { return m.nondetScalar("i64", numT{64, true}) })
	reg(rtPkg+".NondetBool", func(m *Machine, a []Value) Value { return m.nondetScalar("bool", numT{}) })
	reg(rtPkg+".NondetBytes", func(m *Machine, a []Value) Value {
		n := int(concInt(m, a[0], "NondetBytes n"))
		return m.bytesSlice(m.freshBytes(n))
	})
	reg(rtPkg+".NondetLen", func(m *Machine, a []Value) Value {
		lo, hi := concInt(m, a[0], "lo"), concInt(m, a[1], "hi")
		t := m.nondetScalar("i64", numT{64, true})
		if m.IntMode() {
			m.Assume(smt.And(smt.ILe(smt.IntConstI(lo), t), smt.ILe(t, smt.IntConstI(hi))))
		} else {
			m.Assume(smt.And(smt.BvSle(smt.BVConst(64, uint64(lo)), t), smt.BvSle(t, smt.BVConst(64, uint64(hi)))))
		}
		return m.mkInt(m.Concretize(t, "NondetLen"))
	})
	reg(rtPkg+".NondetRange", func(m *Machine, a []Value) Value {
		lo, hi := concInt(m, a[0], "lo"), concInt(m, a[1], "hi")
		if m.Cfg.IsConc || !m.IntMode() {
			t := m.nondetScalar("i64", numT{64, true})
			if m.IntMode() {
				m.Assume(smt.And(smt.ILe(smt.IntConstI(lo), t), smt.ILe(t, smt.IntConstI(hi))))
			} else {
				m.Assume(smt.And(smt.BvSle(smt.BVConst(64, uint64(lo)), t), smt.BvSle(t, smt.BVConst(64, uint64(hi)))))
			}
			return t
		}
		idx := len(m.nondets)
		name := fmt.Sprintf("nd%d_rng_%d_%d", idx, lo, hi)
		name = strings.ReplaceAll(name, "-", "m")
		t := smt.IntVarBounded(name, big.NewInt(lo), big.NewInt(hi))
		m.nondets = append(m.nondets, Nondet{Name: name, T: t, Kind: "i64"})
		return t
	})
	reg(rtPkg+".Assume", func(m *Machine, a []Value) Value {
		m.Assume(a[0].(*smt.Term))
		return nil
	})
	reg(rtPkg+".Assert", func(m *Machine, a []Value) Value {
		m.Oblige(a[0].(*smt.Term), concStr(m, a[1], "Assert label"), "assert")
		return nil
	})
	reg(rtPkg+".Reach", func(m *Machine, a []Value) Value {
		m.Reached[concStr(m, a[0], "Reach label")] = true
		return nil
	})
	reg(rtPkg+".Observe", func(m *Machine, a []Value) Value {
		label := concStr(m, a[0], "Observe label")
		sv := a[1].(SliceVal)
		parts := []string{label}
		for i := 0; i < sv.Len; i++ {
			parts = append(parts, m.observeString(m.sliceElem(sv, i)))
		}
		m.Observed = append(m.Observed, strings.Join(parts, " "))
		if m.Cfg.Witness != nil {
			rec := obsRec{label: label}
			for i := 0; i < sv.Len; i++ {
				rec.vals = append(rec.vals, m.sliceElem(sv, i))
			}
			m.observedV = append(m.observedV, rec)
		}
		return nil
	})
	reg(rtPkg+".CutActive", func(m *Machine, a []Value) Value {
		return smt.Bool(m.Cfg.Cuts[concStr(m, a[0], "CutActive")])
	})
	reg(rtPkg+".PadBigEndian", func(m *Machine, a []Value) Value {
		n := int(concInt(m, a[1], "PadBigEndian length"))
		if l, ok := a[0].(LazyBytes); ok {
			if n <= 0 {
				return m.forceLazy(l)
			}
			fits := smt.True
			if m.IntMode() || 8*n < m.bigW()-1 {
				fits = m.bigLt(l.T, m.bigConst(pow2(8*n)))
			}
			if m.Branch(fits) {
				bs := make([]*smt.Term, n)
				for i := 0; i < n; i++ {
					bs[i] = m.bigByteAt(l.T, n-1-i)
				}
				return m.bytesSlice(bs)
			}
			return m.forceLazy(l)
		}
		sv := a[0].(SliceVal)
		if sv.Len >= n {
			return sv
		}
		bs := make([]*smt.Term, 0, n)
		for i := 0; i < n-sv.Len; i++ {
			bs = append(bs, m.mkByte(0))
		}
		bs = append(bs, m.sliceBytes(sv)...)
		return m.bytesSlice(bs)
	})
	reg(rtPkg+".GoCalls", func(m *Machine, a []Value) Value { return m.mkInt(int64(len(m.GoCalls))) })
	reg(rtPkg+".Symbolic", func(m *Machine, a []Value) Value { return smt.Bool(!m.Cfg.IsConc) })

	// ----- internal/bytealg, strings, bytes -----
	indexByte := func(m *Machine, bs []*smt.Term, c *smt.Term) Value {
		for i, b := range bs {
			if m.Branch(smt.Eq(b, c)) {
				return m.mkInt(int64(i))
			}
		}
		return m.mkInt(-1)
	}
	reg("internal/bytealg.IndexByteString", func(m *Machine, a []Value) Value {
		if s := a[0].(StrVal); s.B == nil && a[1].(*smt.Term).IsConst() {
			return m.mkInt(int64(strings.IndexByte(s.S, byte(a[1].(*smt.Term).BigVal().Uint64()))))
		}
		return indexByte(m, m.strBytes(a[0].(StrVal)), a[1].(*smt.Term))
	})
	reg("strings.IndexByte", intrinsics["internal/bytealg.IndexByteString"])
	reg("internal/bytealg.IndexByte", func(m *Machine, a []Value) Value {
		return indexByte(m, m.sliceBytes(a[0].(SliceVal)), a[1].(*smt.Term))
	})
	reg("bytes.IndexByte", intrinsics["internal/bytealg.IndexByte"])
	indexSeq := func(m *Machine, s, sub []*smt.Term) Value {
		if len(sub) == 0 {
			return m.mkInt(0)
		}
		for i := 0; i+len(sub) <= len(s); i++ {
			conds := make([]*smt.Term, len(sub))
			for j := range sub {
				conds[j] = smt.Eq(s[i+j], sub[j])
			}
			if m.Branch(smt.And(conds...)) {
				return m.mkInt(int64(i))
			}
		}
		return m.mkInt(-1)
	}
	reg("strings.Index", func(m *Machine, a []Value) Value {
		if s, sub := a[0].(StrVal), a[1].(StrVal); s.B == nil && sub.B == nil {
			return m.mkInt(int64(strings.Index(s.S, sub.S)))
		}
		return indexSeq(m, m.strBytes(a[0].(StrVal)), m.strBytes(a[1].(StrVal)))
	})
	reg("internal/bytealg.IndexString", intrinsics["strings.Index"])
	reg("bytes.Index", func(m *Machine, a []Value) Value {
		return indexSeq(m, m.sliceBytes(a[0].(SliceVal)), m.sliceBytes(a[1].(SliceVal)))
	})
	reg("internal/bytealg.Index", intrinsics["bytes.Index"])
	countByte := func(m *Machine, bs []*smt.Term, c *smt.Term) Value {
		n := 0
		for _, b := range bs {
			if m.Branch(smt.Eq(b, c)) {
				n++
			}
		}
		return m.mkInt(int64(n))
	}
	reg("internal/bytealg.CountString", func(m *Machine, a []Value) Value {
		if s := a[0].(StrVal); s.B == nil && a[1].(*smt.Term).IsConst() {
			return m.mkInt(int64(strings.Count(s.S, string([]byte{byte(a[1].(*smt.Term).BigVal().Uint64())}))))
		}
		return countByte(m, m.strBytes(a[0].(StrVal)), a[1].(*smt.Term))
	})
	reg("internal/bytealg.Count", func(m *Machine, a []Value) Value {
		return countByte(m, m.sliceBytes(a[0].(SliceVal)), a[1].(*smt.Term))
	})
	reg("internal/bytealg.Equal", func(m *Machine, a []Value) Value {
		x, y := m.sliceBytes(a[0].(SliceVal)), m.sliceBytes(a[1].(SliceVal))
		if len(x) != len(y) {
			return smt.False
		}
		_, eq := m.bytesCompare(x, y)
		return eq
	})
	cmp3 := func(m *Machine, x, y []*smt.Term) Value {
		lt, eq := m.bytesCompare(x, y)
		return smt.Ite(lt, m.mkInt(-1), smt.Ite(eq, m.mkInt(0), m.mkInt(1)))
	}
	reg("internal/bytealg.Compare", func(m *Machine, a []Value) Value {
		return cmp3(m, m.sliceBytes(a[0].(SliceVal)), m.sliceBytes(a[1].(SliceVal)))
	})
	reg("bytes.Compare", intrinsics["internal/bytealg.Compare"])
	reg("strings.Compare", func(m *Machine, a []Value) Value {
		return cmp3(m, m.strBytes(a[0].(StrVal)), m.strBytes(a[1].(StrVal)))
	})
	reg("internal/bytealg.CompareString", intrinsics["strings.Compare"])
	reg("bytes.Equal", func(m *Machine, a []Value) Value {
		x, y := m.sliceBytes(a[0].(SliceVal)), m.sliceBytes(a[1].(SliceVal))
		if len(x) != len(y) {
			return smt.False
		}
		_, eq := m.bytesCompare(x, y)
		return eq
	})
	reg("internal/bytealg.MakeNoZero", func(m *Machine, a []Value) Value {
		n := int(concInt(m, a[0], "MakeNoZero"))
		return m.makeSlice(types.Typ[types.Uint8], n, n)
	})
	reg("strings.Repeat", func(m *Machine, a []Value) Value {
		s := a[0].(StrVal)
		n := concInt(m, a[1], "Repeat count")
		if n < 0 {
			m.panicNow("strings: negative Repeat count")
		}
		out := StrVal{}
		for i := int64(0); i < n; i++ {
			out = m.strConcat(out, s)
		}
		return out
	})
	reg("strings.Join", func(m *Machine, a []Value) Value {
		sv := a[0].(SliceVal)
		sep := a[1].(StrVal)
		anyTok := false
		for i := 0; i < sv.Len; i++ {
			if e := m.sliceElem(sv, i).(StrVal); e.Abs != nil && e.Abs.Tbl != nil {
				anyTok = true
			}
		}
		if anyTok {
			sepS, ok := sep.Concrete()
			if !ok || sepS == "" {
				m.unsupported("strings.Join of table tokens with a symbolic or empty separator")
			}
			parts := make([]StrVal, sv.Len)
			for i := range parts {
				e := m.sliceElem(sv, i).(StrVal)
				if e.Abs != nil && e.Abs.Tbl != nil {
					for _, w := range e.Abs.Tbl {
						if strings.Contains(w, sepS) {
							m.unsupported("strings.Join: a table entry contains the separator")
						}
					}
				} else if c, ok := e.Concrete(); !ok || c == "" || strings.Contains(c, sepS) {
					m.unsupported("strings.Join of table tokens with a part that is symbolic, empty or contains the separator")
				}
				parts[i] = e
			}
			return StrVal{Abs: &AbsStr{Ctor: "join:" + sepS, Parts: parts}}
		}
		out := StrVal{}
		for i := 0; i < sv.Len; i++ {
			if i > 0 {
				out = m.strConcat(out, sep)
			}
			out = m.strConcat(out, m.sliceElem(sv, i).(StrVal))
		}
		return out
	})
	reg("strings.Fields", func(m *Machine, a []Value) Value {
		s := a[0].(StrVal)
		if s.Abs != nil && s.Abs.Ctor == "join: " {
			// parts contain no white space? table entries were checked for the separator only: check the rest here
			for _, p := range s.Abs.Parts {
				ws := p.Abs != nil && p.Abs.Tbl != nil
				var list []string
				if ws {
					list = p.Abs.Tbl
				} else if c, ok := p.Concrete(); ok {
					list = []string{c}
				}
				for _, w := range list {
					if strings.ContainsAny(w, "\t\n\v\f\r \u0085\u00a0") {
						m.unsupported("strings.Fields of a join whose parts contain white space")
					}
				}
			}
			st := types.NewSlice(types.Typ[types.String])
			out := m.makeSlice(types.Typ[types.String], len(s.Abs.Parts), len(s.Abs.Parts))
			_ = st
			arr := m.backing(out)
			for i, p := range s.Abs.Parts {
				arr.E[out.Off+i] = p
			}
			return out
		}
		c, ok := s.Concrete()
		if !ok {
			if s.Abs == nil {
				return declined{} // symbolic bytes: the real strings.Fields runs
			}
			m.unsupported("strings.Fields of a symbolic string")
		}
		fs := strings.Fields(c)
		out := m.makeSlice(types.Typ[types.String], len(fs), len(fs))
		arr := m.backing(out)
		for i, f := range fs {
			arr.E[out.Off+i] = StrVal{S: f}
		}
		return out
	})
	caseMap := func(name string, f func(string) string) {
		reg(name, func(m *Machine, a []Value) Value {
			s := a[0].(StrVal)
			if s.Abs != nil && s.Abs.Tbl != nil {
				for _, w := range s.Abs.Tbl {
					if f(w) != w {
						m.unsupported("%s of a table token whose table is not closed under it", name)
					}
				}
				return s // every entry is a fixed point
			}
			if c, ok := s.Concrete(); ok {
				return StrVal{S: f(c)}
			}
			bs := m.strBytes(s)
			out := make([]*smt.Term, len(bs))
			for i, b := range bs {
				// ASCII only: a byte >= 0x80 would be part of a multi-byte rune
				if !m.Branch(m.byteLt(b, m.mkByte(0x80))) {
					m.unsupported("%s of non-ASCII symbolic text", name)
				}
				lo, hi, d := byte('A'), byte('Z'), byte(32)
				if name == "strings.ToUpper" {
					lo, hi = 'a', 'z'
				}
				in := smt.And(smt.Not(m.byteLt(b, m.mkByte(lo))), smt.Not(m.byteLt(m.mkByte(hi), b)))
				var shifted *smt.Term
				if name == "strings.ToUpper" {
					shifted = m.numBin(token.SUB, b, m.mkByte(d), numT{8, false})
				} else {
					shifted = m.numBin(token.ADD, b, m.mkByte(d), numT{8, false})
				}
				out[i] = smt.Ite(in, shifted, b)
			}
			return m.mkStr(out)
		})
	}
	caseMap("strings.ToLower", strings.ToLower)
	caseMap("strings.ToUpper", strings.ToUpper)
	reg("strings.TrimSpace", func(m *Machine, a []Value) Value {
		s := a[0].(StrVal)
		if s.Abs != nil && strings.HasPrefix(s.Abs.Ctor, "join:") {
			return s // parts are non-empty and free of white space at both ends (checked by Fields / Join)
		}
		if s.Abs != nil && s.Abs.Tbl != nil {
			return s
		}
		c, ok := s.Concrete()
		if !ok {
			if s.Abs == nil {
				return declined{} // symbolic bytes: the real strings.TrimSpace runs
			}
			m.unsupported("strings.TrimSpace of a symbolic string")
		}
		return StrVal{S: strings.TrimSpace(c)}
	})
	reg("(*strings.Builder).copyCheck", func(m *Machine, a []Value) Value { return nil })
	reg("(*strings.Builder).String", func(m *Machine, a []Value) Value {
		p := a[0].(Ptr)
		sv := (*m.slot(p)).(*StructVal)
		// field "buf" is the []byte field
		for _, f := range sv.F {
			if s, ok := f.(SliceVal); ok {
				return m.bytesToStr(s)
			}
		}
		return StrVal{}
	})
	reg("unsafe.String", func(m *Machine, a []Value) Value {
		m.unsupported("unsafe.String")
		return nil
	})
	reg("strings.Clone", func(m *Machine, a []Value) Value { return a[0] })
	reg("internal/stringslite.Clone", func(m *Machine, a []Value) Value { return a[0] })

	// ----- strconv formatting (decimal) -----
	fmtDec := func(m *Machine, t *smt.Term, nt numT, base int64) Value {
		if t.IsConst() {
			v := t.BigVal()
			if !m.IntMode() && nt.signed {
				v = t.SignedVal()
			}
			return StrVal{S: v.Text(int(base))}
		}
		if base != 10 || !m.IntMode() {
			m.unsupported("strconv formatting of a symbolic value (base %d, mode %s)", base, m.Cfg.Mode)
		}
		return m.bigText(t)
	}
	reg("strconv.Itoa", func(m *Machine, a []Value) Value { return fmtDec(m, a[0].(*smt.Term), numT{64, true}, 10) })
	reg("strconv.FormatInt", func(m *Machine, a []Value) Value {
		return fmtDec(m, a[0].(*smt.Term), numT{64, true}, concInt(m, a[1], "base"))
	})
	reg("strconv.FormatUint", func(m *Machine, a []Value) Value {
		return fmtDec(m, a[0].(*smt.Term), numT{64, false}, concInt(m, a[1], "base"))
	})

	// ----- errors / fmt -----
	reg("errors.New", func(m *Machine, a []Value) Value {
		m.textSink("errors.New", a)
		return declined{}
	})
	reg("fmt.Errorf", func(m *Machine, a []Value) Value {
		m.textSink("fmt.Errorf", a)
		f := "error"
		if s, ok := a[0].(StrVal); ok {
			if c, ok := s.Concrete(); ok {
				f = c
			}
		}
		return m.newError("fmt.Errorf: " + f)
	})
	reg("fmt.Sprintf", func(m *Machine, a []Value) Value { m.textSink("fmt.Sprintf", a); return m.sprintf(a) })
	reg("fmt.Sprint", func(m *Machine, a []Value) Value { m.textSink("fmt.Sprint", a); return Poison{"fmt.Sprint"} })
	reg("fmt.Sprintln", func(m *Machine, a []Value) Value { m.textSink("fmt.Sprintln", a); return Poison{"fmt.Sprintln"} })
	reg("fmt.Println", func(m *Machine, a []Value) Value { m.textSink("fmt.Println", a); return TupleVal{m.mkInt(0), IfaceVal{}} })
	reg("fmt.Printf", func(m *Machine, a []Value) Value { m.textSink("fmt.Printf", a); return TupleVal{m.mkInt(0), IfaceVal{}} })
	reg("fmt.Print", func(m *Machine, a []Value) Value { m.textSink("fmt.Print", a); return TupleVal{m.mkInt(0), IfaceVal{}} })
	reg("fmt.Fprintf", func(m *Machine, a []Value) Value { m.textSink("fmt.Fprintf", a); return TupleVal{m.mkInt(0), IfaceVal{}} })
	reg("fmt.Fprintln", func(m *Machine, a []Value) Value { m.textSink("fmt.Fprintln", a); return TupleVal{m.mkInt(0), IfaceVal{}} })
	reg("google.golang.org/grpc/status.New", func(m *Machine, a []Value) Value {
		return Ptr{Obj: m.newObj(Opaque{Kind: "grpc-status", Data: a[0]}, nil, "status")}
	})
	reg("(*google.golang.org/grpc/status.Status).Err", func(m *Machine, a []Value) Value {
		return m.newError("grpc status error")
	})
	reg("google.golang.org/grpc/status.Errorf", func(m *Machine, a []Value) Value { m.textSink("status.Errorf", a[1:]); return m.newError("grpc status error") })
	reg("google.golang.org/grpc/status.Error", func(m *Machine, a []Value) Value { m.textSink("status.Error", a[1:]); return m.newError("grpc status error") })

	// ----- runtime-ish -----
	reg("runtime/debug.FreeOSMemory", func(m *Machine, a []Value) Value { return nil })
	reg("runtime.GC", func(m *Machine, a []Value) Value { return nil })
	reg("runtime.KeepAlive", func(m *Machine, a []Value) Value { return nil })
	reg("(*sync.Once).Do", func(m *Machine, a []Value) Value {
		p := a[0].(Ptr)
		if m.onceDone == nil {
			m.onceDone = map[*Object]bool{}
		}
		if !m.onceDone[p.Obj] && !m.oncePath[p.Obj] {
			if m.inInit > 0 {
				m.onceDone[p.Obj] = true
			} else {
				m.oncePath[p.Obj] = true
			}
			m.call(a[1], nil, nil)
		}
		return nil
	})
	reg("time.Now", func(m *Machine, a []Value) Value {
		tt := m.P.Pkgs["time"].Type("Time").Type()
		return m.zero(tt)
	})
	reg("(time.Time).Unix", func(m *Machine, a []Value) Value { return m.envInt("time.Unix", numT{64, true}) })
	reg("(time.Time).UnixNano", func(m *Machine, a []Value) Value { return m.envInt("time.UnixNano", numT{64, true}) })
	reg("time.Since", func(m *Machine, a []Value) Value { return m.envInt("time.Since", numT{64, true}) })
	reg("time.Sleep", func(m *Machine, a []Value) Value { return nil })
	reg("(time.Time).Sub", func(m *Machine, a []Value) Value { return m.envInt("time.Sub", numT{64, true}) })

	// math/rand: seeding is a no-op, draws are environment values
	reg("math/rand.Seed", func(m *Machine, a []Value) Value { return nil })
	reg("(*math/rand.Rand).Seed", func(m *Machine, a []Value) Value { return nil })
	reg("(*math/rand.rngSource).Seed", func(m *Machine, a []Value) Value { return nil })
	reg("math/rand.Int63", func(m *Machine, a []Value) Value { return m.envInt("rand.Int63", numT{64, true}) })
	reg("math/rand.Int", func(m *Machine, a []Value) Value { return m.envInt("rand.Int", numT{64, true}) })
	reg("math/rand.Uint32", func(m *Machine, a []Value) Value { return m.envInt("rand.Uint32", numT{32, false}) })
	reg("math/rand.Uint64", func(m *Machine, a []Value) Value { return m.envInt("rand.Uint64", numT{64, false}) })

	// atomics
	for _, ty := range []string{"Int32", "Int64", "Uint32", "Uint64", "Uintptr"} {
		ty := ty
		nt := map[string]numT{"Int32": {32, true}, "Int64": {64, true}, "Uint32": {32, false}, "Uint64": {64, false}, "Uintptr": {64, false}}[ty]
		reg("sync/atomic.Load"+ty, func(m *Machine, a []Value) Value { return m.load(a[0]) })
		reg("sync/atomic.Store"+ty, func(m *Machine, a []Value) Value { m.store(a[0], a[1]); return nil })
		reg("sync/atomic.Add"+ty, func(m *Machine, a []Value) Value {
			v := m.numBin(token.ADD, m.load(a[0]).(*smt.Term), a[1].(*smt.Term), nt)
			m.store(a[0], v)
			return v
		})
		reg("sync/atomic.Swap"+ty, func(m *Machine, a []Value) Value {
			old := m.load(a[0])
			m.store(a[0], a[1])
			return old
		})
		reg("sync/atomic.CompareAndSwap"+ty, func(m *Machine, a []Value) Value {
			old := m.load(a[0]).(*smt.Term)
			if m.Branch(smt.Eq(old, a[1].(*smt.Term))) {
				m.store(a[0], a[2])
				return smt.True
			}
			return smt.False
		})
	}

	// sort.Slice: run the real pdqsort with an engine swapper
	reg("sort.Slice", func(m *Machine, a []Value) Value {
		iv := a[0].(IfaceVal)
		sv, ok := iv.V.(SliceVal)
		if !ok {
			m.unsupported("sort.Slice of %s", describe(iv.V))
		}
		less := a[1]
		n := sv.Len
		// insertion sort is what pdqsort does for n <= 12; for larger n fall back to the same (stable) scheme.
		swap := func(i, j int) {
			arr := m.backing(sv)
			m.noteWrite(sv.Obj, &arr.E[sv.Off+i])
			m.noteWrite(sv.Obj, &arr.E[sv.Off+j])
			arr.E[sv.Off+i], arr.E[sv.Off+j] = arr.E[sv.Off+j], arr.E[sv.Off+i]
		}
		if n > 12 {
			m.unsupported("sort.Slice with more than 12 elements")
		}
		for i := 1; i < n; i++ {
			for j := i; j > 0; j-- {
				r := m.call(less, []Value{m.mkInt(int64(j)), m.mkInt(int64(j - 1))}, nil).(*smt.Term)
				if !m.Branch(r) {
					break
				}
				swap(j, j-1)
			}
		}
		return nil
	})
	reg("sort.SliceStable", intrinsics["sort.Slice"])
}

func (m *Machine) envInt(what string, nt numT) *smt.Term {
	m.skolem++
	name := fmt.Sprintf("env%d_%s", m.skolem, strings.ReplaceAll(what, ".", "_"))
	if m.Cfg.IsConc {
		return m.numConst(nt, big.NewInt(0))
	}
	if m.IntMode() {
		lo, hi := typeRange(nt)
		return smt.IntVarBounded(name, lo, hi)
	}
	return smt.Var(name, smt.BV(nt.w))
}

func (m *Machine) newError(text string) Value {
	ep := m.P.Pkgs["errors"]
	if ep == nil {
		m.unsupported("errors package not loaded")
	}
	tn := ep.Type("errorString")
	st := &StructVal{F: []Value{StrVal{S: text}}}
	o := m.newObj(st, tn.Type(), "error")
	return IfaceVal{T: types.NewPointer(tn.Type()), V: Ptr{Obj: o}}
}

func (m *Machine) observeString(v Value) string {
	if iv, ok := v.(IfaceVal); ok {
		if iv.T == nil {
			return "<nil>"
		}
		v = iv.V
	}
	switch x := v.(type) {
	case *smt.Term:
		if x.IsConst() {
			if x.Sort.K == smt.KBool {
				if x.U == 1 {
					return "true"
				}
				return "false"
			}
			return x.BigVal().String()
		}
		return "?sym"
	case StrVal:
		if s, ok := x.Concrete(); ok {
			return fmt.Sprintf("%q", s)
		}
		return "?symstr"
	case SliceVal:
		out := "["
		for i := 0; i < x.Len; i++ {
			if i > 0 {
				out += " "
			}
			out += m.observeString(m.sliceElem(x, i))
		}
		return out + "]"
	}
	return describe(v)
}

// sprintfNoArgs: fmt.Sprintf(format) with symbolic format bytes and no operands (the `Sprintf(a+b)` slip): text
// without '%' is copied; "%%" gives "%"; a trailing '%' gives "%!(NOVERB)"; '%' followed by an ASCII letter gives
// "%!<verb>(MISSING)". Flags, widths, precisions, argument indexes and non-ASCII verbs end the path as unsupported.
func (m *Machine) sprintfNoArgs(f StrVal) Value {
	var out []*smt.Term
	lit := func(s string) {
		for i := 0; i < len(s); i++ {
			out = append(out, m.mkByte(s[i]))
		}
	}
	bs := f.B
	for i := 0; i < len(bs); i++ {
		if !m.Branch(smt.Eq(bs[i], m.mkByte('%'))) {
			out = append(out, bs[i])
			continue
		}
		if i+1 == len(bs) {
			lit("%!(NOVERB)")
			break
		}
		v := bs[i+1]
		i++
		if m.Branch(smt.Eq(v, m.mkByte('%'))) {
			lit("%")
			continue
		}
		isLetter := smt.Or(smt.And(smt.BvUle(m.mkByte('a'), v), smt.BvUle(v, m.mkByte('z'))), smt.And(smt.BvUle(m.mkByte('A'), v), smt.BvUle(v, m.mkByte('Z'))))
		if !m.Branch(isLetter) {
			m.unsupported("fmt.Sprintf: symbolic format with a flag, width or non-letter verb after '%%'")
		}
		lit("%!")
		out = append(out, v)
		lit("(MISSING)")
	}
	return StrVal{B: out}
}

// sprintf evaluates fmt.Sprintf when everything is concrete and the verbs are simple.
func (m *Machine) sprintf(a []Value) Value {
	f, ok := a[0].(StrVal)
	if !ok {
		return Poison{"fmt.Sprintf"}
	}
	format, ok := f.Concrete()
	if !ok {
		if sv0, isSl := a[1].(SliceVal); isSl && sv0.Len == 0 && f.Abs == nil && len(f.B) <= 64 {
			return m.sprintfNoArgs(f)
		}
		return Poison{"fmt.Sprintf symbolic format"}
	}
	sv := a[1].(SliceVal)
	goArgs := make([]interface{}, sv.Len)
	for i := 0; i < sv.Len; i++ {
		iv, ok := m.sliceElem(sv, i).(IfaceVal)
		if !ok || iv.T == nil {
			return Poison{"fmt.Sprintf arg"}
		}
		switch x := iv.V.(type) {
		case *smt.Term:
			if !x.IsConst() {
				return Poison{"fmt.Sprintf symbolic arg"}
			}
			if x.Sort.K == smt.KBool {
				goArgs[i] = x.U == 1
			} else if nt, ok := intInfo(iv.T); ok && nt.signed && !m.IntMode() {
				goArgs[i] = x.SignedVal().Int64()
			} else if x.Sort.K == smt.KInt {
				goArgs[i] = x.Big.Int64()
			} else {
				goArgs[i] = x.BigVal().Uint64()
			}
		case StrVal:
			s, ok := x.Concrete()
			if !ok {
				return Poison{"fmt.Sprintf symbolic string arg"}
			}
			goArgs[i] = s
		default:
			return Poison{"fmt.Sprintf arg type"}
		}
	}
	return StrVal{S: fmt.Sprintf(format, goArgs...)}
}

func (m *Machine) opaqueMethod(o Opaque, name string, args []Value) Value {
	m.unsupported("method %s on opaque %s", name, o.Kind)
	return nil
}
