package symex

import (
	"fmt"

	"verifeng/smt"
)

// rt.Blocked(f): f stands for a call made by *another* goroutine while the harness's own thread is where it is. The
// executor is sequential and locks are no-ops, with this one exception: write locks taken outside f are remembered,
// and when f reaches Lock (or RLock) on a mutex that is held it is parked there - what f did up to that point has
// happened, the rest of f has not (its deferred calls do not run: the goroutine is waiting, not returning).
// Blocked reports whether f was parked. The parked call is never resumed under the executor; natively (replay,
// translator validation) f runs in a goroutine and rt.Join waits for it once the lock has been released.

type blockedSignal struct{}

func muKey(v Value) string {
	p, ok := v.(Ptr)
	if !ok || p.Obj == nil {
		return ""
	}
	return fmt.Sprintf("%d/%v", p.Obj.ID, p.Path)
}

func (m *Machine) muLock(v Value, write bool) {
	k := muKey(v)
	if k == "" {
		return
	}
	if m.muHeld[k] && m.blockCatch > 0 {
		panic(blockedSignal{})
	}
	if write && m.blockCatch == 0 {
		m.muHeld[k] = true
	}
}

func (m *Machine) muUnlock(v Value) {
	if m.blockCatch == 0 {
		delete(m.muHeld, muKey(v))
	}
}

func init() {
	intrinsics[rtPkg+".Blocked"] = func(m *Machine, a []Value) Value {
		if m.Cfg.IsConc {
			return declined{}
		}
		saveFrame, saveDepth := m.curFrame, m.depth
		blocked := false
		func() {
			m.blockCatch++
			defer func() {
				m.blockCatch--
				if r := recover(); r != nil {
					if _, ok := r.(blockedSignal); ok {
						blocked = true
						m.curFrame, m.depth = saveFrame, saveDepth
						return
					}
					panic(r)
				}
			}()
			m.call(a[0], nil, nil)
		}()
		return smt.Bool(blocked)
	}
	intrinsics[rtPkg+".Join"] = func(m *Machine, a []Value) Value {
		if m.Cfg.IsConc {
			return declined{}
		}
		return nil
	}
}
