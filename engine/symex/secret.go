package symex

import (
	"go/types"
	"strings"

	"verifeng/smt"
)

// Secret-free text (C05): a harness marks symbolic inputs as secret with rt.Secret(...). From then on every
// text sink the real code reaches - fmt.Errorf, errors.New, status.Errorf/New, the fmt print family and the
// logging package - is an implicit obligation: the operands the sink would format do not depend on the secret.
// The obligation is a two-run (non-interference) query decided by the solver: with the secret variables renamed
// to fresh ones (s -> s'), pc[s'] => operand[s'] == operand[s]. A value derived through rt.OneWay (the model of
// private -> public key) is public by definition: the dependency analysis and the renaming stop there.
//
// What the sink "would format" follows fmt: an operand with an Error() or String() method is formatted through
// that method (run symbolically); any other operand by its contents, a top-level pointer to a composite being
// followed once. Nested operands are taken by their raw contents (an over-approximation of their String()).

const secretLabel = "no-secret-in-an-error-or-log-text"

const oneWayUF = "verif_oneway"

type secretState struct {
	vars  map[*smt.Term]bool
	prime map[*smt.Term]*smt.Term
	dep   map[*smt.Term]bool
	Sinks int // sink operands examined
	Flows int // obligations raised (operand syntactically depends on a secret)
}

func (m *Machine) resetSecrets() { m.sec = nil }

func (m *Machine) markSecret(v Value) {
	if m.Cfg.IsConc {
		return
	}
	if m.sec == nil {
		m.sec = &secretState{vars: map[*smt.Term]bool{}, prime: map[*smt.Term]*smt.Term{}, dep: map[*smt.Term]bool{}}
	}
	var leaves []*smt.Term
	m.rawLeaves(v, 0, map[*Object]bool{}, &leaves)
	seen := map[*smt.Term]bool{}
	var walk func(t *smt.Term)
	walk = func(t *smt.Term) {
		if seen[t] {
			return
		}
		seen[t] = true
		if t.Op == smt.OVar {
			if !m.sec.vars[t] {
				m.sec.vars[t] = true
				m.sec.prime[t] = smt.Var(t.Name+"_sec2", t.Sort)
			}
			return
		}
		for _, a := range t.Args {
			walk(a)
		}
	}
	for _, l := range leaves {
		walk(l)
	}
	m.sec.dep = map[*smt.Term]bool{}
}

// depSecret: t mentions a secret variable outside a one-way application.
func (m *Machine) depSecret(t *smt.Term) bool {
	if t.Op == smt.OConst {
		return false
	}
	if r, ok := m.sec.dep[t]; ok {
		return r
	}
	r := false
	switch {
	case t.Op == smt.OVar:
		r = m.sec.vars[t]
	case t.Op == smt.OApp && strings.HasPrefix(t.Name, oneWayUF):
		r = false
	default:
		for _, a := range t.Args {
			if m.depSecret(a) {
				r = true
				break
			}
		}
	}
	m.sec.dep[t] = r
	return r
}

// primed: t with the secret variables renamed, one-way applications left alone (what is public stays equal in
// the two runs).
func (m *Machine) primed(t *smt.Term, memo map[*smt.Term]*smt.Term) *smt.Term {
	if !m.depSecret(t) {
		return t
	}
	// Subst does not know about one-way applications: protect them by substituting them for themselves
	env := map[*smt.Term]*smt.Term{}
	for v, p := range m.sec.prime {
		env[v] = p
	}
	var protect func(x *smt.Term)
	seen := map[*smt.Term]bool{}
	protect = func(x *smt.Term) {
		if seen[x] {
			return
		}
		seen[x] = true
		if x.Op == smt.OApp && strings.HasPrefix(x.Name, oneWayUF) {
			memo[x] = x
			return
		}
		for _, a := range x.Args {
			protect(a)
		}
	}
	protect(t)
	return smt.Subst(t, env, memo)
}

// rawLeaves collects the scalar terms inside v. depth counts pointer hops (fmt follows a pointer to a composite
// only at the top level; markSecret follows everything).
func (m *Machine) rawLeaves(v Value, followPtr int, seen map[*Object]bool, out *[]*smt.Term) {
	switch x := v.(type) {
	case nil:
	case *smt.Term:
		*out = append(*out, x)
	case StrVal:
		if x.Abs != nil {
			*out = append(*out, x.Abs.Args...)
			for _, p := range x.Abs.Parts {
				m.rawLeaves(p, followPtr, seen, out)
			}
			return
		}
		*out = append(*out, x.B...)
	case LazyBytes:
		*out = append(*out, x.T)
	case BigInt:
		if x.T != nil {
			*out = append(*out, x.T)
		}
	case SliceVal:
		if x.Obj == nil {
			return
		}
		arr := m.backing(x)
		for i := 0; i < x.Len; i++ {
			m.rawLeaves(arr.E[x.Off+i], followPtr, seen, out)
		}
	case *ArrayVal:
		for _, e := range x.E {
			m.rawLeaves(e, followPtr, seen, out)
		}
	case ArrayVal:
		for _, e := range x.E {
			m.rawLeaves(e, followPtr, seen, out)
		}
	case *StructVal:
		for _, f := range x.F {
			m.rawLeaves(f, followPtr, seen, out)
		}
	case StructVal:
		for _, f := range x.F {
			m.rawLeaves(f, followPtr, seen, out)
		}
	case TupleVal:
		for _, e := range x {
			m.rawLeaves(e, followPtr, seen, out)
		}
	case IfaceVal:
		if x.T != nil {
			m.rawLeaves(x.V, followPtr, seen, out)
		}
	case MapVal:
		if x.M == nil {
			return
		}
		for i := range x.M.Keys {
			if x.M.Live[i] {
				m.rawLeaves(x.M.Keys[i], followPtr, seen, out)
				m.rawLeaves(x.M.Vals[i], followPtr, seen, out)
			}
		}
	case Ptr:
		if x.IsNil() || followPtr <= 0 || x.Sym != nil {
			return
		}
		if len(x.Path) == 0 {
			if seen[x.Obj] {
				return
			}
			seen[x.Obj] = true
		}
		m.rawLeaves(*m.slot(x), followPtr-1, seen, out)
	}
}

func hasMethod(m *Machine, T types.Type, name string) bool {
	sel := m.P.Prog.MethodSets.MethodSet(T).Lookup(nil, name)
	if sel == nil {
		return false
	}
	sig, ok := sel.Type().(*types.Signature)
	return ok && sig.Params().Len() == 0 && sig.Results().Len() == 1 && types.Identical(sig.Results().At(0).Type(), types.Typ[types.String])
}

// printedLeaves: the terms fmt would read to format operand v.
func (m *Machine) printedLeaves(v Value, out *[]*smt.Term) {
	iv, ok := v.(IfaceVal)
	if !ok {
		m.rawLeaves(v, 1, map[*Object]bool{}, out)
		return
	}
	if iv.T == nil {
		return
	}
	// is there anything secret behind it at all? (cheap, follows every pointer)
	var all []*smt.Term
	m.rawLeaves(iv.V, 1<<20, map[*Object]bool{}, &all)
	any := false
	for _, t := range all {
		if m.depSecret(t) {
			any = true
			break
		}
	}
	if !any {
		return
	}
	if _, isH := iv.V.(*HashAcc); isH {
		return
	}
	if _, isO := iv.V.(Opaque); isO {
		return
	}
	for _, meth := range []string{"Error", "String"} {
		if hasMethod(m, iv.T, meth) {
			if p, isP := iv.V.(Ptr); isP && p.IsNil() {
				return // fmt prints <nil>
			}
			sel := m.P.Prog.MethodSets.MethodSet(iv.T).Lookup(nil, meth)
			fn := m.P.Prog.MethodValue(sel)
			if fn == nil {
				break
			}
			if fn.Pkg != nil {
				m.ensureInit(fn.Pkg)
			}
			if fn.String() == "(*math/big.Int).String" {
				break // contents
			}
			r := m.call(FuncVal{Fn: fn}, []Value{iv.V}, nil)
			m.rawLeaves(r, 0, map[*Object]bool{}, out)
			return
		}
	}
	m.rawLeaves(iv.V, 1, map[*Object]bool{}, out)
}

// textSink: the operands of a text-producing call must not depend on a secret.
func (m *Machine) textSink(sink string, operands []Value) {
	if m.sec == nil || len(m.sec.vars) == 0 || m.Cfg.IsConc || m.inInit > 0 {
		return
	}
	for _, op := range operands {
		// a variadic ...interface{} arrives as one slice
		if sv, ok := op.(SliceVal); ok && sv.Obj != nil {
			arr := m.backing(sv)
			isIfaces := sv.Len > 0
			for i := 0; i < sv.Len; i++ {
				if _, ok := arr.E[sv.Off+i].(IfaceVal); !ok {
					isIfaces = false
				}
			}
			if isIfaces {
				for i := 0; i < sv.Len; i++ {
					m.sinkOperand(sink, arr.E[sv.Off+i])
				}
				continue
			}
		}
		m.sinkOperand(sink, op)
	}
}

func (m *Machine) sinkOperand(sink string, op Value) {
	m.sec.Sinks++
	m.SecretSinks++
	var leaves []*smt.Term
	m.printedLeaves(op, &leaves)
	var eqs []*smt.Term
	memo := map[*smt.Term]*smt.Term{}
	for _, t := range leaves {
		if m.depSecret(t) {
			eqs = append(eqs, smt.Eq(t, m.primed(t, memo)))
		}
	}
	if len(eqs) == 0 {
		return
	}
	m.sec.Flows++
	m.SecretFlows++
	var pcs []*smt.Term
	for _, p := range m.pc {
		if m.depSecret(p) {
			pcs = append(pcs, m.primed(p, memo))
		}
	}
	cond := smt.Or(smt.Not(smt.And(pcs...)), smt.And(eqs...))
	m.Oblige(cond, secretLabel, "assert")
}

func init() {
	reg := func(name string, f intrinsic) { intrinsics[name] = f }
	reg(rtPkg+".Secret", func(m *Machine, a []Value) Value {
		for _, v := range a {
			m.markSecret(v)
		}
		return nil
	})
	// OneWay: the model of a one-way function (private key -> public key): an uninterpreted function of the
	// input bytes whose result is public.
	reg(rtPkg+".OneWay", func(m *Machine, a []Value) Value {
		in := m.sliceBytes(a[0].(SliceVal))
		n := int(concInt(m, a[1], "OneWay length"))
		if _, ok := allConst(in); ok || m.Cfg.IsConc {
			return declined{}
		}
		return m.bytesSlice(m.ufBytes(oneWayUF, in, n))
	})
	reg(rtPkg+".TextHasSecret", func(m *Machine, a []Value) Value {
		if m.Cfg.IsConc {
			return declined{}
		}
		return smt.False // under the executor the sinks themselves are the obligations
	})
}
