package symex

import (
	"fmt"
	"os"
	"path/filepath"
	"strings"

	"golang.org/x/tools/go/packages"
	"golang.org/x/tools/go/ssa"
	"golang.org/x/tools/go/ssa/ssautil"
)

// OverlayFromDir maps every file under harnessRoot/<rel>/x.go to repoRoot/<rel>/x.go.
func OverlayFromDir(harnessRoot, repoRoot string) (map[string][]byte, error) {
	ov := map[string][]byte{}
	err := filepath.Walk(harnessRoot, func(p string, info os.FileInfo, err error) error {
		if err != nil {
			return err
		}
		if info.IsDir() || !strings.HasSuffix(p, ".go") {
			return nil
		}
		rel, _ := filepath.Rel(harnessRoot, p)
		b, err := os.ReadFile(p)
		if err != nil {
			return err
		}
		ov[filepath.Join(repoRoot, rel)] = b
		return nil
	})
	return ov, err
}

func Load(repoRoot string, patterns []string, overlay map[string][]byte, tags string) (*Program, error) {
	cfg := &packages.Config{
		Mode: packages.NeedName | packages.NeedFiles | packages.NeedCompiledGoFiles | packages.NeedImports |
			packages.NeedDeps | packages.NeedTypes | packages.NeedSyntax | packages.NeedTypesInfo | packages.NeedTypesSizes | packages.NeedModule,
		Dir:        repoRoot,
		Overlay:    overlay,
		BuildFlags: []string{"-tags=" + tags, "-mod=mod"},
		Env:        append(os.Environ(), "GOFLAGS=-mod=mod", "GOPROXY=off", "GOSUMDB=off", "GOTOOLCHAIN=local"),
	}
	initial, err := packages.Load(cfg, patterns...)
	if err != nil {
		return nil, err
	}
	var errs []string
	packages.Visit(initial, nil, func(p *packages.Package) {
		for _, e := range p.Errors {
			errs = append(errs, e.Error())
		}
	})
	if len(errs) > 0 {
		if len(errs) > 12 {
			errs = errs[:12]
		}
		return nil, fmt.Errorf("package load errors:\n%s", strings.Join(errs, "\n"))
	}
	prog, _ := ssautil.AllPackages(initial, ssa.InstantiateGenerics)
	prog.Build()
	P := &Program{Prog: prog, Pkgs: map[string]*ssa.Package{}, Fset: prog.Fset, RepoRoot: repoRoot}
	for _, p := range prog.AllPackages() {
		P.Pkgs[p.Pkg.Path()] = p
	}
	return P, nil
}

// FindFunc resolves "import/path.Func".
func (p *Program) FindFunc(full string) *ssa.Function {
	dot := lastDot(full)
	if dot < 0 {
		return nil
	}
	pkg := p.Pkgs[full[:dot]]
	if pkg == nil {
		return nil
	}
	return pkg.Func(full[dot+1:])
}
