package symex

import (
	"fmt"
	"os"
	"go/token"
	"go/types"
	"math/big"

	"golang.org/x/tools/go/ssa"
	"verifeng/smt"
)

var one = big.NewInt(1)

func pow2(k int) *big.Int { return new(big.Int).Lsh(one, uint(k)) }

func typeRange(nt numT) (*big.Int, *big.Int) {
	if nt.signed {
		return new(big.Int).Neg(pow2(nt.w - 1)), new(big.Int).Sub(pow2(nt.w-1), one)
	}
	return big.NewInt(0), new(big.Int).Sub(pow2(nt.w), one)
}

// wrapInt: reduce an Int-sorted term into the range of the machine type (mod 2^w semantics).
func wrapInt(t *smt.Term, nt numT) *smt.Term {
	lo, hi := typeRange(nt)
	if t.Lo != nil && t.Hi != nil && t.Lo.Cmp(lo) >= 0 && t.Hi.Cmp(hi) <= 0 {
		return t
	}
	period := pow2(nt.w)
	if t.Lo != nil && t.Hi != nil {
		// within one period either side: ite-based wrap
		lo2 := new(big.Int).Sub(lo, period)
		hi2 := new(big.Int).Add(hi, period)
		if t.Lo.Cmp(lo2) >= 0 && t.Hi.Cmp(hi2) <= 0 {
			r := t
			if t.Hi.Cmp(hi) > 0 {
				r = smt.Ite(smt.ILt(smt.IntConst(hi), t), smt.ISub(t, smt.IntConst(period)), r)
			}
			if t.Lo.Cmp(lo) < 0 {
				r = smt.Ite(smt.ILt(t, smt.IntConst(lo)), smt.IAdd(t, smt.IntConst(period)), r)
			}
			if r.Lo == nil || r.Hi == nil || r.Lo.Cmp(lo) < 0 || r.Hi.Cmp(hi) > 0 {
				r.Lo, r.Hi = maxB(orB(r.Lo, lo), lo), minB(orB(r.Hi, hi), hi)
			}
			return r
		}
	}
	var r *smt.Term
	if nt.signed {
		half := pow2(nt.w - 1)
		r = smt.ISub(smt.IMod(smt.IAdd(t, smt.IntConst(half)), smt.IntConst(period)), smt.IntConst(half))
	} else {
		r = smt.IMod(t, smt.IntConst(period))
	}
	return r
}

func orB(a, d *big.Int) *big.Int {
	if a == nil {
		return d
	}
	return a
}
func maxB(a, b *big.Int) *big.Int {
	if a.Cmp(b) > 0 {
		return a
	}
	return b
}
func minB(a, b *big.Int) *big.Int {
	if a.Cmp(b) < 0 {
		return a
	}
	return b
}

// tz: known trailing zero bits of an Int term.
func tz(t *smt.Term, depth int) int {
	if depth > 6 {
		return 0
	}
	switch t.Op {
	case smt.OConst:
		if t.Big.Sign() == 0 {
			return 1 << 20
		}
		return int(new(big.Int).Abs(t.Big).TrailingZeroBits())
	case smt.OIMul:
		return tz(t.Args[0], depth+1) + tz(t.Args[1], depth+1)
	case smt.OIAdd, smt.OISub:
		a, b := tz(t.Args[0], depth+1), tz(t.Args[1], depth+1)
		if a < b {
			return a
		}
		return b
	case smt.OIte:
		a, b := tz(t.Args[1], depth+1), tz(t.Args[2], depth+1)
		if a < b {
			return a
		}
		return b
	}
	return 0
}

func nonNeg(t *smt.Term) bool { return t.Lo != nil && t.Lo.Sign() >= 0 }

// numBin: integer binary operation on machine integers of type nt.
func (m *Machine) numBin(op token.Token, a, b *smt.Term, nt numT) *smt.Term {
	if !m.IntMode() {
		switch op {
		case token.ADD:
			return smt.BvAdd(a, b)
		case token.SUB:
			return smt.BvSub(a, b)
		case token.MUL:
			return smt.BvMul(a, b)
		case token.QUO:
			m.checkPanic(smt.Not(smt.Eq(b, smt.BVConst(nt.w, 0))), "integer divide by zero")
			if nt.signed {
				return smt.BvSdiv(a, b)
			}
			return smt.BvUdiv(a, b)
		case token.REM:
			m.checkPanic(smt.Not(smt.Eq(b, smt.BVConst(nt.w, 0))), "integer divide by zero")
			if nt.signed {
				return smt.BvSrem(a, b)
			}
			return smt.BvUrem(a, b)
		case token.AND:
			return smt.BvAnd(a, b)
		case token.OR:
			return smt.BvOr(a, b)
		case token.XOR:
			return smt.BvXor(a, b)
		case token.AND_NOT:
			return smt.BvAnd(a, smt.BvNot(b))
		}
		m.unsupported("bv binop %s", op)
	}
	// Int mode
	if (op == token.AND || op == token.OR || op == token.XOR || op == token.AND_NOT) && !(a.IsConst() || b.IsConst()) {
		if constLeafIte(a, 0) <= 64 && a.Op == smt.OIte {
			return smt.Ite(a.Args[0], m.numBin(op, a.Args[1], b, nt), m.numBin(op, a.Args[2], b, nt))
		}
		if constLeafIte(b, 0) <= 64 && b.Op == smt.OIte {
			return smt.Ite(b.Args[0], m.numBin(op, a, b.Args[1], nt), m.numBin(op, a, b.Args[2], nt))
		}
	}
	switch op {
	case token.ADD:
		return wrapInt(smt.IAdd(a, b), nt)
	case token.SUB:
		return wrapInt(smt.ISub(a, b), nt)
	case token.MUL:
		return wrapInt(smt.IMul(a, b), nt)
	case token.QUO, token.REM:
		m.checkPanic(smt.Not(smt.Eq(b, smt.IntConstI(0))), "integer divide by zero")
		var q *smt.Term
		if nonNeg(a) && nonNeg(b) {
			q = smt.IDiv(a, b)
		} else if b.IsConst() && b.Big.Sign() > 0 {
			q = smt.Ite(smt.ILe(smt.IntConstI(0), a), smt.IDiv(a, b), smt.INeg(smt.IDiv(smt.INeg(a), b)))
		} else {
			m.unsupported("int-mode division with possibly negative operands")
		}
		if op == token.QUO {
			return wrapInt(q, nt)
		}
		return smt.ISub(a, smt.IMul(q, b))
	case token.AND:
		if a.IsConst() {
			a, b = b, a
		}
		if b.IsConst() {
			return m.intAndConst(a, b.Big, nt)
		}
	case token.OR, token.XOR:
		if a.IsConst() {
			a, b = b, a
		}
		if b.IsConst() && nonNeg(a) && b.Big.Sign() >= 0 {
			// x|c = x + c - (x&c) ; x^c = x + c - 2(x&c)
			ac := m.intAndConst(a, b.Big, nt)
			if op == token.XOR {
				ac = smt.IMul(ac, smt.IntConstI(2))
			}
			return wrapInt(smt.ISub(smt.IAdd(a, b), ac), nt)
		}
		if nonNeg(a) && nonNeg(b) {
			if a.Hi != nil && a.Hi.Cmp(pow2(min(tz(b, 0), 4096))) < 0 {
				return smt.IAdd(a, b)
			}
			if b.Hi != nil && b.Hi.Cmp(pow2(min(tz(a, 0), 4096))) < 0 {
				return smt.IAdd(a, b)
			}
		}
	case token.AND_NOT:
		if b.IsConst() {
			lo, hi := typeRange(nt)
			_ = lo
			maskAll := new(big.Int).Sub(pow2(nt.w), one)
			bm := new(big.Int).And(b.Big, maskAll)
			if b.Big.Sign() < 0 {
				bm = new(big.Int).Mod(b.Big, pow2(nt.w))
			}
			_ = hi
			return m.intAndConst(a, new(big.Int).Xor(bm, maskAll), nt)
		}
	}
	m.unsupported("int-mode bit operation %s on symbolic operands", op)
	return nil
}

// intAndConst: a & mask in Int mode via run decomposition.
func (m *Machine) intAndConst(a *smt.Term, mask *big.Int, nt numT) *smt.Term {
	if a.IsConst() {
		av := a.Big
		r := new(big.Int).And(new(big.Int).Mod(av, pow2(nt.w)), new(big.Int).Mod(mask, pow2(nt.w)))
		return wrapInt(smt.IntConst(r), nt)
	}
	mv := new(big.Int).Mod(mask, pow2(nt.w))
	res := smt.IntConstI(0)
	pos := 0
	runs := 0
	for pos < nt.w {
		if mv.Bit(pos) == 0 {
			pos++
			continue
		}
		j := pos
		for j < nt.w && mv.Bit(j) == 1 {
			j++
		}
		// bits [pos, j)
		part := smt.IMod(smt.IDiv(a, smt.IntConst(pow2(pos))), smt.IntConst(pow2(j-pos)))
		res = smt.IAdd(res, smt.IMul(part, smt.IntConst(pow2(pos))))
		pos = j
		runs++
		if runs > 8 {
			m.unsupported("int-mode and with complex mask")
		}
	}
	return wrapInt(res, nt)
}

func (m *Machine) numShift(op token.Token, a, b *smt.Term, nt, bt numT) *smt.Term {
	if bt.signed {
		var neg *smt.Term
		if m.IntMode() {
			neg = smt.ILt(b, smt.IntConstI(0))
		} else {
			neg = smt.BvSlt(b, smt.BVConst(bt.w, 0))
		}
		m.checkPanic(smt.Not(neg), "negative shift amount")
	}
	if m.IntMode() {
		if !b.IsConst() && b.Lo != nil && b.Hi != nil && b.Lo.Sign() >= 0 && b.Hi.IsInt64() && b.Hi.Int64()-b.Lo.Int64() <= 64 {
			// bounded shift amount: ite chain over its values instead of forking
			lo, hi := b.Lo.Int64(), b.Hi.Int64()
			var acc *smt.Term
			for k := hi; k >= lo; k-- {
				r := m.numShift(op, a, smt.IntConstI(k), nt, numT{64, false})
				if acc == nil {
					acc = r
				} else {
					acc = smt.Ite(smt.Eq(b, smt.IntConstI(k)), r, acc)
				}
			}
			return acc
		}
		if !b.IsConst() {
			if os.Getenv("VERIF_DEBUG") != "" {
				fmt.Fprintln(os.Stderr, "symbolic shift amount at", m.stack(), b.String())
			}
			k := m.Concretize(b, "shift amount")
			b = smt.IntConstI(k)
		}
		k := int(b.Big.Int64())
		if b.Big.Cmp(big.NewInt(int64(nt.w))) >= 0 {
			if op == token.SHL || !nt.signed {
				return smt.IntConstI(0)
			}
			k = nt.w
		}
		if op == token.SHL {
			return wrapInt(smt.IMul(a, smt.IntConst(pow2(k))), nt)
		}
		return smt.IDiv(a, smt.IntConst(pow2(k))) // floor division = arithmetic shift
	}
	// bv: bring b to width of a
	var sh *smt.Term
	if bt.w == nt.w {
		sh = b
	} else if bt.w < nt.w {
		sh = smt.Zext(b, nt.w-bt.w)
	} else {
		// saturate
		big_ := smt.BvUle(smt.BVConst(bt.w, uint64(nt.w)), b)
		sh = smt.Ite(big_, smt.BVConst(nt.w, uint64(nt.w)), smt.Extract(b, nt.w-1, 0))
	}
	if op == token.SHL {
		return smt.BvShl(a, sh)
	}
	if nt.signed {
		return smt.BvAshr(a, sh)
	}
	return smt.BvLshr(a, sh)
}

func (m *Machine) numCmp(op token.Token, a, b *smt.Term, nt numT) *smt.Term {
	if m.IntMode() {
		switch op {
		case token.LSS:
			return smt.ILt(a, b)
		case token.LEQ:
			return smt.ILe(a, b)
		case token.GTR:
			return smt.ILt(b, a)
		case token.GEQ:
			return smt.ILe(b, a)
		}
	} else if nt.signed {
		switch op {
		case token.LSS:
			return smt.BvSlt(a, b)
		case token.LEQ:
			return smt.BvSle(a, b)
		case token.GTR:
			return smt.BvSlt(b, a)
		case token.GEQ:
			return smt.BvSle(b, a)
		}
	} else {
		switch op {
		case token.LSS:
			return smt.BvUlt(a, b)
		case token.LEQ:
			return smt.BvUle(a, b)
		case token.GTR:
			return smt.BvUlt(b, a)
		case token.GEQ:
			return smt.BvUle(b, a)
		}
	}
	m.unsupported("cmp %s", op)
	return nil
}

func (m *Machine) binop(op token.Token, a, b Value, ta, tb types.Type) Value {
	if p, ok := a.(Poison); ok {
		if op == token.EQL || op == token.NEQ {
			m.unsupported("comparison of poison: %s", p.Why)
		}
		return p
	}
	if p, ok := b.(Poison); ok {
		if op == token.EQL || op == token.NEQ {
			m.unsupported("comparison of poison: %s", p.Why)
		}
		return p
	}
	switch op {
	case token.EQL:
		return m.eqValue(a, b)
	case token.NEQ:
		return smt.Not(m.eqValue(a, b))
	}
	// strings
	if sa, ok := a.(StrVal); ok {
		sb := b.(StrVal)
		switch op {
		case token.ADD:
			return m.strConcat(sa, sb)
		case token.LSS, token.LEQ, token.GTR, token.GEQ:
			return m.strCompare(op, sa, sb)
		}
		m.unsupported("string op %s", op)
	}
	if _, ok := a.(Opaque); ok {
		return Poison{"float arithmetic"}
	}
	if _, ok := b.(Opaque); ok {
		return Poison{"float arithmetic"}
	}
	at, ok := a.(*smt.Term)
	if !ok {
		m.unsupported("binop %s on %s", op, describe(a))
	}
	bt := b.(*smt.Term)
	if at.Sort.K == smt.KBool {
		switch op {
		case token.AND, token.LAND:
			return smt.And(at, bt)
		case token.OR, token.LOR:
			return smt.Or(at, bt)
		case token.XOR:
			return smt.Not(smt.Eq(at, bt))
		}
		m.unsupported("bool op %s", op)
	}
	nt, ok := intInfo(ta)
	if !ok {
		m.unsupported("binop %s on type %s", op, ta)
	}
	switch op {
	case token.SHL, token.SHR:
		nb, _ := intInfo(tb)
		return m.numShift(op, at, bt, nt, nb)
	case token.LSS, token.LEQ, token.GTR, token.GEQ:
		return m.numCmp(op, at, bt, nt)
	}
	return m.numBin(op, at, bt, nt)
}

func (m *Machine) unop(fr *frame, x *ssa.UnOp) Value {
	v := m.get(fr, x.X)
	switch x.Op {
	case token.MUL:
		return m.load(v)
	case token.NOT:
		if p, ok := v.(Poison); ok {
			return p
		}
		return smt.Not(v.(*smt.Term))
	case token.SUB:
		if p, ok := v.(Poison); ok {
			return p
		}
		t, ok := v.(*smt.Term)
		if !ok {
			return Poison{"float neg"}
		}
		nt, _ := intInfo(x.X.Type())
		if m.IntMode() {
			return wrapInt(smt.INeg(t), nt)
		}
		return smt.BvNeg(t)
	case token.XOR:
		t := v.(*smt.Term)
		nt, _ := intInfo(x.X.Type())
		if m.IntMode() {
			// ^x = -x-1 (signed) ; 2^w-1-x (unsigned)
			if nt.signed {
				return smt.ISub(smt.INeg(t), smt.IntConstI(1))
			}
			return smt.ISub(smt.IntConst(new(big.Int).Sub(pow2(nt.w), one)), t)
		}
		return smt.BvNot(t)
	case token.ARROW:
		return m.chanRecv(v, x.CommaOk)
	}
	m.unsupported("unop %s", x.Op)
	return nil
}

func (m *Machine) convert(v Value, from, to types.Type) Value {
	if p, ok := v.(Poison); ok {
		return p
	}
	fu, tu := from.Underlying(), to.Underlying()
	// integer -> integer
	if fnt, ok := intInfo(fu); ok {
		if tnt, ok2 := intInfo(tu); ok2 {
			return m.convInt(v.(*smt.Term), fnt, tnt)
		}
		if tb, ok2 := tu.(*types.Basic); ok2 {
			if tb.Info()&types.IsString != 0 {
				t := v.(*smt.Term)
				if !t.IsConst() {
					m.unsupported("string(rune) of symbolic value")
				}
				return StrVal{S: string(rune(t.SignedVal().Int64()))}
			}
			if tb.Info()&types.IsFloat != 0 {
				t := v.(*smt.Term)
				if t.IsConst() {
					f, _ := new(big.Float).SetInt(t.SignedVal()).Float64()
					return Opaque{Kind: "float", Data: f}
				}
				return Poison{"int->float"}
			}
			if tb.Kind() == types.UnsafePointer {
				return Poison{"uintptr->unsafe.Pointer"}
			}
		}
	}
	if fb, ok := fu.(*types.Basic); ok && fb.Info()&types.IsFloat != 0 {
		if o, ok := v.(Opaque); ok && o.Kind == "float" {
			if tnt, ok2 := intInfo(tu); ok2 {
				return m.numConst(tnt, big.NewInt(int64(o.Data.(float64))))
			}
			return v
		}
		return Poison{"float conversion"}
	}
	// string <-> []byte / []rune
	if fb, ok := fu.(*types.Basic); ok && fb.Info()&types.IsString != 0 {
		if ts, ok2 := tu.(*types.Slice); ok2 {
			s := v.(StrVal)
			eb, _ := ts.Elem().Underlying().(*types.Basic)
			if eb != nil && eb.Kind() == types.Uint8 {
				sl := m.makeSlice(ts.Elem(), s.Len(), s.Len())
				arr := m.backing(sl)
				for i := 0; i < s.Len(); i++ {
					arr.E[i] = m.strByte(s, i)
				}
				return sl
			}
			if eb != nil && eb.Kind() == types.Int32 {
				cs, okc := s.Concrete()
				if !okc {
					m.unsupported("[]rune of symbolic string")
				}
				rs := []rune(cs)
				sl := m.makeSlice(ts.Elem(), len(rs), len(rs))
				arr := m.backing(sl)
				for i, r := range rs {
					arr.E[i] = m.numConst(numT{32, true}, big.NewInt(int64(r)))
				}
				return sl
			}
		}
		if _, ok2 := tu.(*types.Basic); ok2 {
			return v
		}
	}
	if fs, ok := fu.(*types.Slice); ok {
		if tb, ok2 := tu.(*types.Basic); ok2 && tb.Info()&types.IsString != 0 {
			sv := v.(SliceVal)
			eb, _ := fs.Elem().Underlying().(*types.Basic)
			if eb != nil && eb.Kind() == types.Uint8 {
				return m.bytesToStr(sv)
			}
			if eb != nil && eb.Kind() == types.Int32 {
				var rs []rune
				for i := 0; i < sv.Len; i++ {
					t := m.sliceElem(sv, i).(*smt.Term)
					if !t.IsConst() {
						m.unsupported("string([]rune) symbolic")
					}
					rs = append(rs, rune(t.SignedVal().Int64()))
				}
				return StrVal{S: string(rs)}
			}
		}
	}
	// pointer conversions (unsafe.Pointer <-> *T): keep the pointer
	if _, ok := v.(Ptr); ok {
		return v
	}
	if types.Identical(fu, tu) {
		return v
	}
	m.unsupported("convert %s -> %s", from, to)
	return nil
}

func (m *Machine) convInt(t *smt.Term, f, to numT) *smt.Term {
	if m.IntMode() {
		return wrapInt(t, to)
	}
	if to.w == f.w {
		return t
	}
	if to.w < f.w {
		return smt.Extract(t, to.w-1, 0)
	}
	if f.signed {
		return smt.Sext(t, to.w-f.w)
	}
	return smt.Zext(t, to.w-f.w)
}

func min(a, b int) int {
	if a < b {
		return a
	}
	return b
}

// ---------- equality and merging ----------

func (m *Machine) eqValue(a, b Value) *smt.Term {
	switch x := a.(type) {
	case *smt.Term:
		y, ok := b.(*smt.Term)
		if !ok {
			m.unsupported("eq term vs %s", describe(b))
		}
		return smt.Eq(x, y)
	case StrVal:
		y := b.(StrVal)
		return m.strEq(x, y)
	case Ptr:
		y, ok := b.(Ptr)
		if !ok {
			m.unsupported("eq ptr vs %s", describe(b))
		}
		if x.Obj != y.Obj {
			return smt.False
		}
		if x.Obj == nil {
			return smt.True
		}
		x, y = m.concPtr(x), m.concPtr(y)
		if len(x.Path) != len(y.Path) {
			return smt.False
		}
		for i := range x.Path {
			if x.Path[i] != y.Path[i] {
				return smt.False
			}
		}
		return smt.True
	case IfaceVal:
		y, ok := b.(IfaceVal)
		if !ok {
			m.unsupported("eq iface vs %s", describe(b))
		}
		if x.T == nil || y.T == nil {
			return smt.Bool(x.T == nil && y.T == nil)
		}
		if !types.Identical(x.T, y.T) {
			return smt.False
		}
		return m.eqValue(x.V, y.V)
	case *StructVal:
		y := b.(*StructVal)
		r := smt.True
		for i := range x.F {
			r = smt.And(r, m.eqValue(x.F[i], y.F[i]))
		}
		return r
	case *ArrayVal:
		y := b.(*ArrayVal)
		r := smt.True
		for i := range x.E {
			r = smt.And(r, m.eqValue(x.E[i], y.E[i]))
		}
		return r
	case SliceVal:
		y := b.(SliceVal)
		if x.Obj == nil || y.Obj == nil {
			return smt.Bool(x.Obj == nil && y.Obj == nil)
		}
		m.unsupported("slice comparison")
	case MapVal:
		y := b.(MapVal)
		return smt.Bool(x.M == y.M)
	case FuncVal:
		y := b.(FuncVal)
		xn := x.Fn == nil && x.Intr == nil && x.IName == ""
		yn := y.Fn == nil && y.Intr == nil && y.IName == ""
		if xn || yn {
			return smt.Bool(xn && yn)
		}
		m.unsupported("func comparison")
	case ChanVal:
		y := b.(ChanVal)
		return smt.Bool(x.C == y.C)
	case *BigInt:
		m.unsupported("big.Int value comparison")
	case *HashAcc:
		y, _ := b.(*HashAcc)
		return smt.Bool(x == y)
	case Opaque:
		if y, ok := b.(Opaque); ok && x.Kind == "float" && y.Kind == "float" {
			return smt.Bool(x.Data.(float64) == y.Data.(float64))
		}
	}
	m.unsupported("equality on %s", describe(a))
	return nil
}

// iteValue merges two values under a condition where possible.
func (m *Machine) iteValue(c *smt.Term, a, b Value) (Value, bool) {
	if c.IsConst() {
		if c.U == 1 {
			return a, true
		}
		return b, true
	}
	switch x := a.(type) {
	case *smt.Term:
		y, ok := b.(*smt.Term)
		if !ok || x.Sort != y.Sort {
			return nil, false
		}
		return smt.Ite(c, x, y), true
	case StrVal:
		y, ok := b.(StrVal)
		if !ok || x.Len() != y.Len() {
			return nil, false
		}
		if x.B == nil && y.B == nil && x.S == y.S {
			return x, true
		}
		out := make([]*smt.Term, x.Len())
		for i := range out {
			out[i] = smt.Ite(c, m.strByte(x, i), m.strByte(y, i))
		}
		return StrVal{B: out}, true
	case *StructVal:
		y, ok := b.(*StructVal)
		if !ok || len(x.F) != len(y.F) {
			return nil, false
		}
		n := &StructVal{F: make([]Value, len(x.F))}
		for i := range x.F {
			v, ok := m.iteValue(c, x.F[i], y.F[i])
			if !ok {
				// a field that cannot be merged is poisoned: it only matters if it is used later
				v = Poison{"field that differs between the merged alternatives of a symbolic selection"}
			}
			n.F[i] = v
		}
		return n, true
	case *ArrayVal:
		y, ok := b.(*ArrayVal)
		if !ok || len(x.E) != len(y.E) {
			return nil, false
		}
		n := &ArrayVal{E: make([]Value, len(x.E))}
		for i := range x.E {
			v, ok := m.iteValue(c, x.E[i], y.E[i])
			if !ok {
				return nil, false
			}
			n.E[i] = v
		}
		return n, true
	case Ptr:
		y, ok := b.(Ptr)
		if ok && x.Obj == y.Obj && x.Sym == nil && y.Sym == nil && pathEq(x.Path, y.Path) {
			return x, true
		}
	case SliceVal:
		y, ok := b.(SliceVal)
		if ok && x.Obj == y.Obj && x.Off == y.Off && x.Len == y.Len && x.Cap == y.Cap && pathEq(x.Path, y.Path) {
			return x, true
		}
	case IfaceVal:
		y, ok := b.(IfaceVal)
		if ok && x.T != nil && y.T != nil && types.Identical(x.T, y.T) {
			v, ok := m.iteValue(c, x.V, y.V)
			if ok {
				return IfaceVal{T: x.T, V: v}, true
			}
		}
		if ok && x.T == nil && y.T == nil {
			return x, true
		}
	case TupleVal:
		y, ok := b.(TupleVal)
		if !ok || len(x) != len(y) {
			return nil, false
		}
		n := make(TupleVal, len(x))
		for i := range x {
			v, ok := m.iteValue(c, x[i], y[i])
			if !ok {
				return nil, false
			}
			n[i] = v
		}
		return n, true
	case MapVal:
		y, ok := b.(MapVal)
		if ok && x.M == y.M {
			return x, true
		}
	case Poison:
		return x, true
	case FuncVal:
		y, ok := b.(FuncVal)
		if ok && x.Fn == y.Fn && x.IName == y.IName && len(x.Bind) == 0 && len(y.Bind) == 0 && x.Intr == nil && y.Intr == nil {
			return x, true
		}
	}
	if _, isP := b.(Poison); isP {
		return b, true
	}
	return nil, false
}

func pathEq(a, b []int) bool {
	if len(a) != len(b) {
		return false
	}
	for i := range a {
		if a[i] != b[i] {
			return false
		}
	}
	return true
}

// constLeafIte counts the leaves of an ite tree whose leaves are all constants (1<<30 when it is not one).
func constLeafIte(t *smt.Term, depth int) int {
	if t.IsConst() {
		return 1
	}
	if t.Op != smt.OIte || depth > 70 {
		return 1 << 30
	}
	a, b := constLeafIte(t.Args[1], depth+1), constLeafIte(t.Args[2], depth+1)
	if a+b > 1<<29 {
		return 1 << 30
	}
	return a + b
}

func (m *Machine) stack() string {
	out := ""
	for f := m.curFrame; f != nil; f = f.caller {
		out += f.fn.String() + "@" + m.posStr(f.pos) + " <- "
	}
	return out
}
