// Package symex: a symbolic executor for go/ssa (concrete heap shape, symbolic scalar leaves).
package symex

import (
	"fmt"
	"go/types"
	"strings"

	"golang.org/x/tools/go/ssa"
	"verifeng/smt"
)

type Value interface{}

// Scalars are *smt.Term (Bool, BV or Int sort).

// StrVal: immutable string. B == nil means the concrete string S.
type StrVal struct {
	S   string
	B   []*smt.Term
	Abs *AbsStr // abstract text produced by an injective encoder that is not executed (base58, bech32)
}

// AbsStr: Ctor(Args...) with Args the encoder's input bytes; supports equality and the matching decoder.
type AbsStr struct {
	Ctor string
	Args []*smt.Term
	// table token ("tbl#<object>"): the string is Tbl[Args[0]], entries pairwise distinct, non-empty, without spaces
	Tbl []string
	// join ("join:<sep>"): Parts joined by the separator; no part is empty or contains the separator
	Parts []StrVal
	// bech32 only: the text is Hrp + "1" + one character per 5-bit group + 6 checksum characters, and the
	// data characters never contain '1'
	Hrp string
}

// LazyBytes: the minimal big-endian bytes of a non-negative big value whose length has not been decided yet
// (Config.LazyBigBytes). It flows through calls, stores and returns; any other use forces it into a slice by
// forking on the length.
type LazyBytes struct{ T *smt.Term }

// AbsLen: length of an abstract string when its encoder fixes it (-1 otherwise).
func (a *AbsStr) AbsLen() int {
	if strings.HasPrefix(a.Ctor, "bech32:") {
		return len(a.Hrp) + 1 + len(a.Args) + 6
	}
	if a.Ctor == "hex" {
		return 2 * len(a.Args)
	}
	return -1
}

func (s StrVal) Len() int {
	if s.Abs != nil {
		if n := s.Abs.AbsLen(); n >= 0 {
			return n
		}
		panic(pathEnd{"unsupported", "length/content of an abstract " + s.Abs.Ctor + " string is not modelled"})
	}
	if s.B != nil {
		return len(s.B)
	}
	return len(s.S)
}

func (s StrVal) Concrete() (string, bool) {
	if s.Abs != nil {
		return "", false
	}
	if s.B == nil {
		return s.S, true
	}
	buf := make([]byte, len(s.B))
	for i, b := range s.B {
		if !b.IsConst() {
			return "", false
		}
		buf[i] = byte(b.BigVal().Uint64())
	}
	return string(buf), true
}

type Object struct {
	ID   int
	Init bool // created during package initialisation (shared across paths; writes are undo-logged)
	Val  Value
	Typ  types.Type
	Name string
}

// Ptr points at Obj.Val (Path empty) or at a nested element/field. Sym, when set, is a symbolic index
// into the array found at Path.
type Ptr struct {
	Obj  *Object
	Path []int
	Sym  *smt.Term
}

func (p Ptr) IsNil() bool { return p.Obj == nil }

type SliceVal struct {
	Obj           *Object // nil = nil slice
	Path          []int   // location of the backing *ArrayVal inside Obj
	Off, Len, Cap int
}

type ArrayVal struct{ E []Value }
type StructVal struct{ F []Value }

type IfaceVal struct {
	T types.Type // nil = nil interface
	V Value
}

type FuncVal struct {
	Fn    *ssa.Function
	Bind  []Value
	Intr  func(m *Machine, args []Value) Value // intrinsic closure
	IName string
}

type MapVal struct{ M *MapObj } // M == nil: nil map

type MapObj struct {
	ID   int
	Init bool
	Keys []Value
	Vals []Value
	Live []bool
	idx  map[string]int // concrete keys
	KT   types.Type
	VT   types.Type
}

type TupleVal []Value

// BigInt is the payload of a math/big.Int object.
type BigInt struct {
	T    *smt.Term
	Init bool
}

// Poison marks a value the engine could not compute; using it is an Unsupported event.
type Poison struct{ Why string }

// ChanObj: sequential bounded queue.
type ChanObj struct {
	ID     int
	Cap    int
	Q      []Value
	Closed bool
	ET     types.Type
}
type ChanVal struct{ C *ChanObj }

// HashAcc: accumulator object behind hash.Hash values.
type HashAcc struct {
	Kind string
	Key  []*smt.Term
	Buf  []*smt.Term
}

// Opaque: an intrinsic, engine-level object (time.Time etc.).
type Opaque struct {
	Kind string
	Data interface{}
}

func describe(v Value) string {
	switch x := v.(type) {
	case nil:
		return "<nil>"
	case *smt.Term:
		return x.String()
	case StrVal:
		if s, ok := x.Concrete(); ok {
			return fmt.Sprintf("%q", s)
		}
		return fmt.Sprintf("str[%d]", x.Len())
	case Ptr:
		if x.Obj == nil {
			return "nilptr"
		}
		return fmt.Sprintf("&obj%d%v", x.Obj.ID, x.Path)
	case SliceVal:
		if x.Obj == nil {
			return "nilslice"
		}
		return fmt.Sprintf("slice(obj%d%v,%d,%d,%d)", x.Obj.ID, x.Path, x.Off, x.Len, x.Cap)
	case *ArrayVal:
		var parts []string
		for i, e := range x.E {
			if i > 8 {
				parts = append(parts, "…")
				break
			}
			parts = append(parts, describe(e))
		}
		return "[" + strings.Join(parts, " ") + "]"
	case *StructVal:
		var parts []string
		for _, e := range x.F {
			parts = append(parts, describe(e))
		}
		return "{" + strings.Join(parts, " ") + "}"
	case IfaceVal:
		if x.T == nil {
			return "nil-iface"
		}
		return "iface(" + x.T.String() + ":" + describe(x.V) + ")"
	case FuncVal:
		if x.Fn != nil {
			return "func " + x.Fn.String()
		}
		return "func intrinsic " + x.IName
	case Poison:
		return "poison(" + x.Why + ")"
	case *BigInt:
		return "big(" + x.T.String() + ")"
	}
	return fmt.Sprintf("%T", v)
}
