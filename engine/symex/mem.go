package symex

import (
	"fmt"
	"strconv"
	"strings"
	"go/token"
	"go/types"
	"math/big"
	"unicode/utf8"

	"golang.org/x/tools/go/ssa"
	"verifeng/smt"
)

// slot returns the address of the Value at p (p.Sym must be nil).
func (m *Machine) slot(p Ptr) *Value {
	cur := &p.Obj.Val
	for _, i := range p.Path {
		switch c := (*cur).(type) {
		case *ArrayVal:
			if i < 0 || i >= len(c.E) {
				m.unsupported("engine: path index %d out of %d", i, len(c.E))
			}
			cur = &c.E[i]
		case *StructVal:
			cur = &c.F[i]
		default:
			m.unsupported("engine: path into %s", describe(*cur))
		}
	}
	return cur
}

// concPtr removes a symbolic index by forking.
func (m *Machine) concPtr(p Ptr) Ptr {
	if p.Sym == nil {
		return p
	}
	i := int(m.Concretize(p.Sym, "pointer index"))
	return Ptr{Obj: p.Obj, Path: append(append(make([]int, 0, len(p.Path)+1), p.Path...), i)}
}

func (m *Machine) load(pv Value) Value {
	p, ok := pv.(Ptr)
	if !ok {
		if po, isP := pv.(Poison); isP {
			m.unsupported("load through poison: %s", po.Why)
		}
		m.unsupported("load of %s", describe(pv))
	}
	if p.IsNil() {
		m.panicNow("nil pointer dereference")
	}
	if p.Sym != nil {
		arr, ok := (*m.slot(Ptr{Obj: p.Obj, Path: p.Path})).(*ArrayVal)
		if !ok {
			m.unsupported("symbolic index into non-array")
		}
		if tok, ok := m.tableToken(p.Obj, arr, p.Sym); ok {
			return tok
		}
		if len(arr.E) <= 4096 && len(arr.E) > 0 {
			// balanced selection tree over the index (depth log n; equal subtrees collapse)
			if v, ok := m.muxLoad(arr.E, 0, len(arr.E), p.Sym); ok {
				return m.copyVal(v)
			}
		}
		p = m.concPtr(p)
	}
	return m.copyVal(*m.slot(p))
}

// tableToken: a symbolic index into a table of at least 16 pairwise distinct, non-empty constant strings yields an
// abstract token (the table entry at that index) instead of a selection tree over strings of different lengths.
func (m *Machine) tableToken(obj *Object, arr *ArrayVal, idx *smt.Term) (Value, bool) {
	if len(arr.E) < 16 {
		return nil, false
	}
	if m.tblCache == nil {
		m.tblCache = map[*ArrayVal][]string{}
	}
	tbl, seen := m.tblCache[arr]
	if !seen {
		tbl = make([]string, len(arr.E))
		dist := map[string]bool{}
		for i, e := range arr.E {
			sv, ok := e.(StrVal)
			if !ok {
				tbl = nil
				break
			}
			c, ok := sv.Concrete()
			if !ok || c == "" || dist[c] {
				tbl = nil
				break
			}
			dist[c] = true
			tbl[i] = c
		}
		m.tblCache[arr] = tbl
	}
	if tbl == nil {
		return nil, false
	}
	if idx.Sort.K != smt.KInt && idx.Sort.W < 64 {
		idx = smt.Zext(idx, 64-idx.Sort.W) // in bounds, hence non-negative: one width for every token of the table
	}
	return StrVal{Abs: &AbsStr{Ctor: fmt.Sprintf("tbl#%p", arr), Args: []*smt.Term{idx}, Tbl: tbl}}, true
}

// muxLoad selects elems[idx] for idx in [lo,hi) with a balanced tree of idx < mid tests.
func (m *Machine) muxLoad(elems []Value, lo, hi int, idx *smt.Term) (Value, bool) {
	if hi-lo == 1 {
		return elems[lo], true
	}
	mid := (lo + hi) / 2
	l, ok := m.muxLoad(elems, lo, mid, idx)
	if !ok {
		return nil, false
	}
	r, ok := m.muxLoad(elems, mid, hi, idx)
	if !ok {
		return nil, false
	}
	var c *smt.Term
	if idx.Sort.K == smt.KInt {
		c = smt.ILt(idx, smt.IntConstI(int64(mid)))
	} else {
		c = smt.BvUlt(idx, smt.BVConst(idx.Sort.W, uint64(mid)))
	}
	return m.iteValue(c, l, r)
}

func (m *Machine) idxConst(like *smt.Term, i int) *smt.Term {
	if like.Sort.K == smt.KInt {
		return smt.IntConstI(int64(i))
	}
	return smt.BVConst(like.Sort.W, uint64(i))
}

func (m *Machine) store(pv Value, v Value) {
	p, ok := pv.(Ptr)
	if !ok {
		m.unsupported("store to %s", describe(pv))
	}
	if p.IsNil() {
		m.panicNow("nil pointer dereference (store)")
	}
	if p.Sym != nil {
		arr, ok := (*m.slot(Ptr{Obj: p.Obj, Path: p.Path})).(*ArrayVal)
		if ok && len(arr.E) <= 512 {
			merged := make([]Value, len(arr.E))
			okAll := true
			for i := range arr.E {
				c := smt.Eq(p.Sym, m.idxConst(p.Sym, i))
				nv, ok := m.iteValue(c, v, arr.E[i])
				if !ok {
					okAll = false
					break
				}
				merged[i] = nv
			}
			if okAll {
				for i := range arr.E {
					m.noteWrite(p.Obj, &arr.E[i])
				}
				copy(arr.E, merged)
				return
			}
		}
		p = m.concPtr(p)
	}
	sl := m.slot(p)
	m.noteWrite(p.Obj, sl)
	*sl = m.copyVal(v)
}

func (m *Machine) makeSlice(elem types.Type, ln, cp int) SliceVal {
	arr := &ArrayVal{E: make([]Value, cp)}
	if cp > 0 {
		z := m.zero(elem)
		_, scalar := z.(*smt.Term)
		for i := range arr.E {
			if scalar {
				arr.E[i] = z
			} else if i == 0 {
				arr.E[i] = z
			} else {
				arr.E[i] = m.copyVal(z)
			}
		}
	}
	o := m.newObj(arr, types.NewArray(elem, int64(cp)), "makeslice")
	return SliceVal{Obj: o, Off: 0, Len: ln, Cap: cp}
}

func (m *Machine) backing(s SliceVal) *ArrayVal {
	if s.Obj == nil {
		return &ArrayVal{}
	}
	a, ok := (*m.slot(Ptr{Obj: s.Obj, Path: s.Path})).(*ArrayVal)
	if !ok {
		m.unsupported("engine: slice backing is %s", describe(*m.slot(Ptr{Obj: s.Obj, Path: s.Path})))
	}
	return a
}

func (m *Machine) sliceElem(s SliceVal, i int) Value { return m.backing(s).E[s.Off+i] }

func (m *Machine) lenTerm(n int) *smt.Term { return m.mkInt(int64(n)) }

// inBounds: 0 <= idx < n as a term, idx of Go type t.
func (m *Machine) inBounds(idx *smt.Term, t types.Type, n int) *smt.Term {
	nt, _ := intInfo(t)
	if m.IntMode() {
		return smt.And(smt.ILe(smt.IntConstI(0), idx), smt.ILt(idx, smt.IntConstI(int64(n))))
	}
	// n may not be representable in the index type (a uint8 index into a 256-entry table)
	if nt.signed {
		lower := smt.BvSle(smt.BVConst(nt.w, 0), idx)
		if nt.w < 64 && int64(n) > (int64(1)<<uint(nt.w-1))-1 {
			return lower
		}
		return smt.And(lower, smt.BvSlt(idx, smt.BVConst(nt.w, uint64(n))))
	}
	if nt.w < 64 && uint64(n) > (uint64(1)<<uint(nt.w))-1 {
		return smt.True
	}
	return smt.BvUlt(idx, smt.BVConst(nt.w, uint64(n)))
}

func (m *Machine) indexAddr(base Value, idxv Value, it types.Type) Value {
	idx, ok := idxv.(*smt.Term)
	if !ok {
		m.unsupported("index is %s", describe(idxv))
	}
	switch b := base.(type) {
	case SliceVal:
		m.checkPanic(m.inBounds(idx, it, b.Len), fmt.Sprintf("index out of range [len %d]", b.Len))
		if idx.IsConst() {
			i := int(idx.BigVal().Int64())
			return Ptr{Obj: b.Obj, Path: append(append(make([]int, 0, len(b.Path)+1), b.Path...), b.Off+i)}
		}
		off := idx
		if b.Off != 0 {
			nt, _ := intInfo(it)
			off = m.numBin(token.ADD, idx, m.numConst(nt, big.NewInt(int64(b.Off))), nt)
		}
		return Ptr{Obj: b.Obj, Path: b.Path, Sym: off}
	case Ptr:
		if b.IsNil() {
			m.panicNow("nil pointer dereference (index)")
		}
		b = m.concPtr(b)
		arr, ok := (*m.slot(b)).(*ArrayVal)
		if !ok {
			m.unsupported("indexaddr into %s", describe(*m.slot(b)))
		}
		m.checkPanic(m.inBounds(idx, it, len(arr.E)), fmt.Sprintf("index out of range [len %d]", len(arr.E)))
		if idx.IsConst() {
			i := int(idx.BigVal().Int64())
			return Ptr{Obj: b.Obj, Path: append(append(make([]int, 0, len(b.Path)+1), b.Path...), i)}
		}
		return Ptr{Obj: b.Obj, Path: b.Path, Sym: idx}
	case Poison:
		m.unsupported("index of poison: %s", b.Why)
	}
	m.unsupported("indexaddr on %s", describe(base))
	return nil
}

func (m *Machine) indexValue(base Value, idxv Value, it types.Type) Value {
	idx := idxv.(*smt.Term)
	if sv, isStr := base.(StrVal); isStr {
		m.checkPanic(m.inBounds(idx, it, sv.Len()), fmt.Sprintf("string index out of range [len %d]", sv.Len()))
		if idx.IsConst() {
			return m.strByte(sv, int(idx.BigVal().Int64()))
		}
		sa := &ArrayVal{E: make([]Value, sv.Len())}
		for i := range sa.E {
			sa.E[i] = m.strByte(sv, i)
		}
		return m.load(Ptr{Obj: m.newObj(sa, nil, "strtmp"), Sym: idx})
	}
	arr, ok := base.(*ArrayVal)
	if !ok {
		m.unsupported("index of %s", describe(base))
	}
	m.checkPanic(m.inBounds(idx, it, len(arr.E)), fmt.Sprintf("index out of range [len %d]", len(arr.E)))
	if idx.IsConst() {
		return m.copyVal(arr.E[int(idx.BigVal().Int64())])
	}
	tmp := m.newObj(arr, nil, "tmp")
	return m.load(Ptr{Obj: tmp, Sym: idx})
}

func (m *Machine) optInt(fr *frame, v ssa.Value, def int, what string) int {
	if v == nil {
		return def
	}
	t := m.get(fr, v).(*smt.Term)
	return int(m.Concretize(t, what))
}

func (m *Machine) sliceOp(fr *frame, x *ssa.Slice) Value {
	base := m.get(fr, x.X)
	switch b := base.(type) {
	case StrVal:
		n := b.Len()
		lo := m.optIntChecked(fr, x.Low, 0, n, "slice low")
		hi := m.optIntChecked(fr, x.High, n, n, "slice high")
		if lo > hi {
			m.panicNow("slice bounds out of range [%d:%d]", lo, hi)
		}
		if b.Abs != nil {
			// only the concrete prefix (human readable part and separator) of abstract bech32 text can be cut out
			pre := b.Abs.Hrp + "1"
			if strings.HasPrefix(b.Abs.Ctor, "bech32:") && hi <= len(pre) {
				return StrVal{S: pre[lo:hi]}
			}
			if lo == 0 && hi == n {
				return b
			}
			m.unsupported("substring of an abstract %s string", b.Abs.Ctor)
		}
		if b.B == nil {
			return StrVal{S: b.S[lo:hi]}
		}
		if lo == hi {
			return StrVal{}
		}
		return StrVal{B: b.B[lo:hi]}
	case SliceVal:
		lo := m.optIntChecked(fr, x.Low, 0, b.Cap, "slice low")
		hi := m.optIntChecked(fr, x.High, b.Len, b.Cap, "slice high")
		mx := m.optIntChecked(fr, x.Max, b.Cap, b.Cap, "slice max")
		if lo > hi || hi > mx {
			m.panicNow("slice bounds out of range [%d:%d:%d]", lo, hi, mx)
		}
		if b.Obj == nil {
			return SliceVal{}
		}
		return SliceVal{Obj: b.Obj, Path: b.Path, Off: b.Off + lo, Len: hi - lo, Cap: mx - lo}
	case Ptr:
		if b.IsNil() {
			m.panicNow("nil pointer dereference (slice of array)")
		}
		b = m.concPtr(b)
		arr, ok := (*m.slot(b)).(*ArrayVal)
		if !ok {
			m.unsupported("slice of pointer to %s", describe(*m.slot(b)))
		}
		n := len(arr.E)
		lo := m.optIntChecked(fr, x.Low, 0, n, "slice low")
		hi := m.optIntChecked(fr, x.High, n, n, "slice high")
		mx := m.optIntChecked(fr, x.Max, n, n, "slice max")
		if lo > hi || hi > mx {
			m.panicNow("slice bounds out of range [%d:%d:%d]", lo, hi, mx)
		}
		return SliceVal{Obj: b.Obj, Path: b.Path, Off: lo, Len: hi - lo, Cap: mx - lo}
	case Poison:
		m.unsupported("slice of poison: %s", b.Why)
	}
	m.unsupported("slice of %s", describe(base))
	return nil
}

// optIntChecked evaluates a slice bound; the bound must lie in [0,limit] else it is a panic.
func (m *Machine) optIntChecked(fr *frame, v ssa.Value, def, limit int, what string) int {
	if v == nil {
		return def
	}
	t := m.get(fr, v).(*smt.Term)
	if !t.IsConst() {
		m.checkPanic(m.inBounds(t, v.Type(), limit+1), what+" out of range")
	}
	i := int(m.Concretize(t, what))
	if i < 0 || i > limit {
		m.panicNow("%s out of range [%d] with capacity %d", what, i, limit)
	}
	return i
}

// ---------- strings ----------

// absBytes renders an abstract bech32 string as bytes: prefix and separator concrete, one character per 5-bit
// group through the real charset table, the six checksum characters as an uninterpreted function of the data.
func (m *Machine) absBytes(s StrVal) []*smt.Term {
	a := s.Abs
	if a == nil || !strings.HasPrefix(a.Ctor, "bech32:") || m.IntMode() {
		m.unsupported("bytes of an abstract %s string", a.Ctor)
	}
	const charset = "qpzry9x8gf2tvdw0s3jn54khce6mua7l"
	out := []*smt.Term{}
	for i := 0; i < len(a.Hrp); i++ {
		out = append(out, m.mkByte(a.Hrp[i]))
	}
	out = append(out, m.mkByte('1'))
	tbl := make([]Value, 32)
	for i := range tbl {
		tbl[i] = m.mkByte(charset[i])
	}
	for _, g := range a.Args {
		if g.IsConst() {
			out = append(out, m.mkByte(charset[g.BigVal().Uint64()&31]))
			continue
		}
		v, _ := m.muxLoad(tbl, 0, 32, smt.Extract(g, 4, 0))
		out = append(out, v.(*smt.Term))
	}
	chk := smt.App("bech32_checksum_"+a.Hrp+"_"+strconv.Itoa(len(a.Args)), smt.BV(48), smt.Concat(a.Args...))
	for i := 0; i < 6; i++ {
		out = append(out, smt.Extract(chk, 47-8*i, 40-8*i))
	}
	return out
}

func (m *Machine) strByte(s StrVal, i int) *smt.Term {
	if s.Abs != nil {
		return m.absBytes(s)[i]
	}
	if s.B != nil {
		return s.B[i]
	}
	return m.mkByte(s.S[i])
}

func (m *Machine) strBytes(s StrVal) []*smt.Term {
	if s.Abs != nil {
		return m.absBytes(s)
	}
	if s.B != nil {
		return s.B
	}
	out := make([]*smt.Term, len(s.S))
	for i := range out {
		out[i] = m.mkByte(s.S[i])
	}
	return out
}

func (m *Machine) mkStr(bs []*smt.Term) StrVal {
	allc := true
	for _, b := range bs {
		if !b.IsConst() {
			allc = false
			break
		}
	}
	if allc {
		buf := make([]byte, len(bs))
		for i, b := range bs {
			buf[i] = byte(b.BigVal().Uint64())
		}
		return StrVal{S: string(buf)}
	}
	return StrVal{B: append([]*smt.Term(nil), bs...)}
}

func (m *Machine) strConcat(a, b StrVal) StrVal {
	if a.B == nil && b.B == nil {
		return StrVal{S: a.S + b.S}
	}
	if a.Len() == 0 {
		return b
	}
	if b.Len() == 0 {
		return a
	}
	return StrVal{B: append(append([]*smt.Term(nil), m.strBytes(a)...), m.strBytes(b)...)}
}

func (m *Machine) strEq(a, b StrVal) *smt.Term {
	if a.Abs != nil && b.Abs != nil && a.Abs.Parts != nil && b.Abs.Parts != nil {
		// joins with the same separator: equal iff the same parts (no part is empty or contains the separator)
		if a.Abs.Ctor != b.Abs.Ctor || len(a.Abs.Parts) != len(b.Abs.Parts) {
			return smt.False
		}
		cs := make([]*smt.Term, len(a.Abs.Parts))
		for i := range cs {
			cs[i] = m.strEq(a.Abs.Parts[i], b.Abs.Parts[i])
		}
		return smt.And(cs...)
	}
	if (a.Abs != nil && a.Abs.Parts != nil) != (b.Abs != nil && b.Abs.Parts != nil) {
		// join against a constant string: the constant splits into as many non-empty parts, equal one by one
		j, other := a, b
		if b.Abs != nil && b.Abs.Parts != nil {
			j, other = b, a
		}
		if c, ok := other.Concrete(); ok && strings.HasPrefix(j.Abs.Ctor, "join:") && len(j.Abs.Ctor) > 5 {
			ws := strings.Split(c, j.Abs.Ctor[5:])
			if len(ws) != len(j.Abs.Parts) {
				return smt.False
			}
			cs := make([]*smt.Term, len(ws))
			for i, w := range ws {
				if w == "" {
					return smt.False
				}
				cs[i] = m.strEq(j.Abs.Parts[i], StrVal{S: w})
			}
			return smt.And(cs...)
		}
	}
	if (a.Abs != nil && a.Abs.Tbl != nil) != (b.Abs != nil && b.Abs.Tbl != nil) {
		// table token against a constant string: the index of that string in the table, if it is there
		tok, other := a, b
		if b.Abs != nil && b.Abs.Tbl != nil {
			tok, other = b, a
		}
		if c, ok := other.Concrete(); ok {
			for i, w := range tok.Abs.Tbl {
				if w == c {
					return smt.Eq(tok.Abs.Args[0], m.idxConst(tok.Abs.Args[0], i))
				}
			}
			return smt.False
		}
	}
	if a.Abs != nil && b.Abs != nil && a.Abs.Tbl != nil && b.Abs.Tbl != nil && a.Abs.Ctor != b.Abs.Ctor {
		m.unsupported("comparison of tokens of two different tables")
	}
	if a.Abs != nil || b.Abs != nil {
		if a.Abs == nil || b.Abs == nil {
			if a.Len() != b.Len() {
				return smt.False // the encoders' output length is a function of the input length
			}
			m.unsupported("comparison of an abstract encoded string with a plain string")
		}
		if a.Abs.Ctor != b.Abs.Ctor || len(a.Abs.Args) != len(b.Abs.Args) {
			return smt.False // encoders are injective and length-preserving in their input
		}
		cs := make([]*smt.Term, len(a.Abs.Args))
		for i := range cs {
			cs[i] = smt.Eq(a.Abs.Args[i], b.Abs.Args[i])
		}
		return smt.And(cs...)
	}
	if a.Len() != b.Len() {
		return smt.False
	}
	if a.B == nil && b.B == nil {
		return smt.Bool(a.S == b.S)
	}
	r := make([]*smt.Term, 0, a.Len())
	for i := 0; i < a.Len(); i++ {
		e := smt.Eq(m.strByte(a, i), m.strByte(b, i))
		if e.IsConst() && e.U == 0 {
			return smt.False
		}
		r = append(r, e)
	}
	return smt.And(r...)
}

func (m *Machine) byteLt(a, b *smt.Term) *smt.Term {
	if m.IntMode() {
		return smt.ILt(a, b)
	}
	return smt.BvUlt(a, b)
}

// bytesCompare returns (lt, eq) terms for lexicographic comparison.
func (m *Machine) bytesCompare(a, b []*smt.Term) (*smt.Term, *smt.Term) {
	n := len(a)
	if len(b) < n {
		n = len(b)
	}
	lt := smt.Bool(len(a) < len(b))
	eq := smt.Bool(len(a) == len(b))
	for i := n - 1; i >= 0; i-- {
		e := smt.Eq(a[i], b[i])
		l := m.byteLt(a[i], b[i])
		lt = smt.Or(l, smt.And(e, lt))
		eq = smt.And(e, eq)
	}
	return lt, eq
}

func (m *Machine) strCompare(op token.Token, a, b StrVal) *smt.Term {
	lt, eq := m.bytesCompare(m.strBytes(a), m.strBytes(b))
	switch op {
	case token.LSS:
		return lt
	case token.LEQ:
		return smt.Or(lt, eq)
	case token.GTR:
		return smt.Not(smt.Or(lt, eq))
	case token.GEQ:
		return smt.Not(lt)
	}
	return nil
}

func (m *Machine) bytesToStr(sv SliceVal) StrVal {
	bs := make([]*smt.Term, sv.Len)
	for i := range bs {
		t, ok := m.sliceElem(sv, i).(*smt.Term)
		if !ok {
			m.unsupported("string of non-byte slice element %s", describe(m.sliceElem(sv, i)))
		}
		bs[i] = t
	}
	return m.mkStr(bs)
}

func (m *Machine) sliceBytes(sv SliceVal) []*smt.Term {
	bs := make([]*smt.Term, sv.Len)
	for i := range bs {
		t, ok := m.sliceElem(sv, i).(*smt.Term)
		if !ok {
			m.unsupported("byte slice element is %s", describe(m.sliceElem(sv, i)))
		}
		bs[i] = t
	}
	return bs
}

func (m *Machine) bytesSlice(bs []*smt.Term) SliceVal {
	arr := &ArrayVal{E: make([]Value, len(bs))}
	for i, b := range bs {
		arr.E[i] = b
	}
	o := m.newObj(arr, nil, "bytes")
	return SliceVal{Obj: o, Len: len(bs), Cap: len(bs)}
}

// ---------- maps ----------

func (m *Machine) keyString(k Value) (string, bool) {
	switch x := k.(type) {
	case *smt.Term:
		if x.IsConst() {
			return "t" + x.Sort.String() + x.BigVal().String(), true
		}
	case StrVal:
		if s, ok := x.Concrete(); ok {
			return "s" + s, true
		}
	case *ArrayVal:
		out := "a"
		for _, e := range x.E {
			s, ok := m.keyString(e)
			if !ok {
				return "", false
			}
			out += s + ","
		}
		return out, true
	case *StructVal:
		out := "r"
		for _, e := range x.F {
			s, ok := m.keyString(e)
			if !ok {
				return "", false
			}
			out += s + ","
		}
		return out, true
	case Ptr:
		if x.Obj == nil {
			return "pnil", true
		}
		if x.Sym == nil {
			return fmt.Sprintf("p%d%v", x.Obj.ID, x.Path), true
		}
	case IfaceVal:
		if x.T == nil {
			return "inil", true
		}
		s, ok := m.keyString(x.V)
		return "i" + x.T.String() + ":" + s, ok
	}
	return "", false
}

func (mo *MapObj) allConcrete() bool { return len(mo.idx) == mo.liveCount() }
func (mo *MapObj) liveCount() int {
	n := 0
	for _, l := range mo.Live {
		if l {
			n++
		}
	}
	return n
}

// mapFind returns for each live entry the condition "key equals entry key" (concrete fast path gives a
// single index).
func (m *Machine) mapFind(mo *MapObj, k Value) (int, []*smt.Term) {
	if ks, ok := m.keyString(k); ok && mo.allConcrete() {
		if i, ok := mo.idx[ks]; ok {
			return i, nil
		}
		return -1, nil
	}
	conds := make([]*smt.Term, len(mo.Keys))
	for i := range mo.Keys {
		if !mo.Live[i] {
			conds[i] = smt.False
			continue
		}
		conds[i] = m.eqValue(mo.Keys[i], k)
	}
	// if some condition is constant true, fast path
	for i, c := range conds {
		if c.IsConst() && c.U == 1 {
			return i, nil
		}
	}
	all := true
	for _, c := range conds {
		if !(c.IsConst() && c.U == 0) {
			all = false
		}
	}
	if all {
		return -1, nil
	}
	return -2, conds
}

func (m *Machine) lookup(x *ssa.Lookup, base, key Value) Value {
	if s, ok := base.(StrVal); ok {
		idx := key.(*smt.Term)
		m.checkPanic(m.inBounds(idx, x.Index.Type(), s.Len()), fmt.Sprintf("string index out of range [len %d]", s.Len()))
		if idx.IsConst() {
			return m.strByte(s, int(idx.BigVal().Int64()))
		}
		arr := &ArrayVal{E: make([]Value, s.Len())}
		for i := range arr.E {
			arr.E[i] = m.strByte(s, i)
		}
		return m.load(Ptr{Obj: m.newObj(arr, nil, "strtmp"), Sym: idx})
	}
	mv, ok := base.(MapVal)
	if !ok {
		m.unsupported("lookup in %s", describe(base))
	}
	vt := x.X.Type().Underlying().(*types.Map).Elem()
	var val Value
	var found *smt.Term
	if ks, isStr := key.(StrVal); isStr && mv.M != nil && ks.Abs != nil && ks.Abs.Tbl != nil {
		// a table token as key: supported when the map is the inverse of the table (entry i -> i), checked concretely
		if !m.mapInvertsTable(mv.M, ks.Abs.Tbl) {
			m.unsupported("map look-up by a table token in a map that is not the table's inverse")
		}
		nt, ok := intInfo(vt)
		if !ok {
			m.unsupported("map look-up by a table token: value type %s", vt)
		}
		idx := ks.Abs.Args[0]
		val = m.convert(idx, types.Typ[types.Int], vt)
		_ = nt
		if x.CommaOk {
			return TupleVal{val, smt.True}
		}
		return val
	}
	if mv.M == nil {
		val, found = m.zero(vt), smt.False
	} else {
		i, conds := m.mapFind(mv.M, key)
		switch {
		case i >= 0:
			val, found = m.copyVal(mv.M.Vals[i]), smt.True
		case i == -1:
			val, found = m.zero(vt), smt.False
		default:
			// symbolic: try merging, else fork on which entry matches
			var acc Value = m.zero(vt)
			f := smt.False
			merged := true
			for j := len(conds) - 1; j >= 0; j-- {
				if conds[j].IsConst() && conds[j].U == 0 {
					continue
				}
				v, ok := m.iteValue(conds[j], mv.M.Vals[j], acc)
				if !ok {
					merged = false
					break
				}
				acc = v
				f = smt.Or(f, conds[j])
			}
			if merged {
				val, found = m.copyVal(acc), f
			} else {
				hit := false
				for j := range conds {
					if conds[j].IsConst() && conds[j].U == 0 {
						continue
					}
					if m.Branch(conds[j]) {
						val, found = m.copyVal(mv.M.Vals[j]), smt.True
						hit = true
						break
					}
				}
				if !hit {
					val, found = m.zero(vt), smt.False
				}
			}
		}
	}
	if x.CommaOk {
		return TupleVal{val, found}
	}
	return val
}

// mapInvertsTable: the map has exactly the table's entries as keys and maps entry i to i.
func (m *Machine) mapInvertsTable(mo *MapObj, tbl []string) bool {
	if m.invCache == nil {
		m.invCache = map[*MapObj]map[string]bool{}
	}
	key := fmt.Sprintf("%p/%d", &tbl[0], len(tbl))
	if r, ok := m.invCache[mo][key]; ok {
		return r
	}
	res := len(mo.Keys) == len(tbl)
	for i := 0; res && i < len(tbl); i++ {
		j, _ := m.mapFind(mo, StrVal{S: tbl[i]})
		if j < 0 {
			res = false
			break
		}
		t, ok := mo.Vals[j].(*smt.Term)
		if !ok || !t.IsConst() || t.BigVal().Int64() != int64(i) {
			res = false
		}
	}
	if m.invCache[mo] == nil {
		m.invCache[mo] = map[string]bool{}
	}
	m.invCache[mo][key] = res
	return res
}

func (m *Machine) mapUpdate(mapv, key, val Value) {
	mv, ok := mapv.(MapVal)
	if !ok {
		m.unsupported("map update on %s", describe(mapv))
	}
	if mv.M == nil {
		m.panicNow("assignment to entry in nil map")
	}
	mo := mv.M
	i, conds := m.mapFind(mo, key)
	if i == -2 {
		// fork on the matching entry
		i = -1
		for j := range conds {
			if conds[j].IsConst() && conds[j].U == 0 {
				continue
			}
			if m.Branch(conds[j]) {
				i = j
				break
			}
		}
	}
	m.noteMapWrite(mo)
	if i >= 0 {
		mo.Vals[i] = m.copyVal(val)
		return
	}
	mo.Keys = append(mo.Keys, m.copyVal(key))
	mo.Vals = append(mo.Vals, m.copyVal(val))
	mo.Live = append(mo.Live, true)
	if ks, ok := m.keyString(key); ok {
		mo.idx[ks] = len(mo.Keys) - 1
	}
}

func (m *Machine) mapDelete(mapv, key Value) {
	mv := mapv.(MapVal)
	if mv.M == nil {
		return
	}
	mo := mv.M
	i, conds := m.mapFind(mo, key)
	if i == -2 {
		i = -1
		for j := range conds {
			if conds[j].IsConst() && conds[j].U == 0 {
				continue
			}
			if m.Branch(conds[j]) {
				i = j
				break
			}
		}
	}
	if i >= 0 {
		m.noteMapWrite(mo)
		mo.Live[i] = false
		if ks, ok := m.keyString(mo.Keys[i]); ok {
			delete(mo.idx, ks)
		}
	}
}

// ---------- range ----------

type rangeIter struct {
	kind string // "map", "string"
	mo   *MapObj
	keys []Value
	vals []Value
	s    StrVal
	i    int
}

func (m *Machine) rangeInit(v Value, t types.Type) Value {
	switch x := v.(type) {
	case MapVal:
		it := &rangeIter{kind: "map", mo: x.M}
		if x.M != nil {
			for i := range x.M.Keys {
				if x.M.Live[i] {
					it.keys = append(it.keys, x.M.Keys[i])
					it.vals = append(it.vals, x.M.Vals[i])
				}
			}
		}
		return it
	case StrVal:
		return &rangeIter{kind: "string", s: x}
	}
	m.unsupported("range over %s", describe(v))
	return nil
}

func (m *Machine) rangeNext(itv Value, x *ssa.Next) Value {
	it := itv.(*rangeIter)
	tt := x.Type().(*types.Tuple)
	if it.kind == "map" {
		for it.i < len(it.keys) {
			i := it.i
			it.i++
			// skip entries deleted during iteration
			stillLive := false
			for j := range it.mo.Keys {
				if it.mo.Live[j] && &it.mo.Keys[j] != nil {
					if ks1, ok1 := m.keyString(it.mo.Keys[j]); ok1 {
						if ks2, ok2 := m.keyString(it.keys[i]); ok2 && ks1 == ks2 {
							stillLive = true
							it.vals[i] = it.mo.Vals[j]
							break
						}
					} else if e := m.eqValue(it.mo.Keys[j], it.keys[i]); e.IsConst() && e.U == 1 {
						stillLive = true
						it.vals[i] = it.mo.Vals[j]
						break
					}
				}
			}
			if !stillLive {
				continue
			}
			return TupleVal{smt.True, m.copyVal(it.keys[i]), m.copyVal(it.vals[i])}
		}
		return TupleVal{smt.False, m.zero(tt.At(1).Type()), m.zero(tt.At(2).Type())}
	}
	// string: decode runes
	s := it.s
	if it.i >= s.Len() {
		return TupleVal{smt.False, m.mkInt(0), m.numConst(numT{32, true}, big.NewInt(0))}
	}
	pos := it.i
	b0 := m.strByte(s, pos)
	if b0.IsConst() {
		// decode concretely as far as bytes are concrete
		buf := []byte{}
		for j := pos; j < s.Len() && j < pos+4; j++ {
			bj := m.strByte(s, j)
			if !bj.IsConst() {
				break
			}
			buf = append(buf, byte(bj.BigVal().Uint64()))
		}
		if buf[0] < utf8.RuneSelf || utf8.FullRune(buf) {
			r, sz := utf8.DecodeRune(buf)
			it.i += sz
			return TupleVal{smt.True, m.mkInt(int64(pos)), m.numConst(numT{32, true}, big.NewInt(int64(r)))}
		}
		m.unsupported("range over string: symbolic continuation bytes")
	}
	var ascii *smt.Term
	if m.IntMode() {
		ascii = smt.ILt(b0, smt.IntConstI(0x80))
	} else {
		ascii = smt.BvUlt(b0, smt.BVConst(8, 0x80))
	}
	if !m.Branch(ascii) {
		m.end("outside", "non-ASCII symbolic byte in range-over-string")
	}
	it.i++
	return TupleVal{smt.True, m.mkInt(int64(pos)), m.convInt(b0, numT{8, false}, numT{32, true})}
}

// ---------- builtins ----------

func (m *Machine) builtin(fr *frame, name string, args []Value, cc *ssa.CallCommon) Value {
	switch name {
	case "len":
		switch x := args[0].(type) {
		case StrVal:
			return m.lenTerm(x.Len())
		case SliceVal:
			return m.lenTerm(x.Len)
		case MapVal:
			if x.M == nil {
				return m.lenTerm(0)
			}
			return m.lenTerm(x.M.liveCount())
		case ChanVal:
			if x.C == nil {
				return m.lenTerm(0)
			}
			return m.lenTerm(len(x.C.Q))
		case *ArrayVal:
			return m.lenTerm(len(x.E))
		case Ptr:
			at := cc.Args[0].Type().Underlying().(*types.Pointer).Elem().Underlying().(*types.Array)
			return m.lenTerm(int(at.Len()))
		case Poison:
			m.unsupported("len of poison: %s", x.Why)
		}
	case "cap":
		switch x := args[0].(type) {
		case SliceVal:
			return m.lenTerm(x.Cap)
		case ChanVal:
			if x.C == nil {
				return m.lenTerm(0)
			}
			return m.lenTerm(x.C.Cap)
		case *ArrayVal:
			return m.lenTerm(len(x.E))
		}
	case "append":
		return m.appendOp(args[0], args[1], cc.Args[0].Type())
	case "copy":
		dst := args[0].(SliceVal)
		var src []Value
		switch s := args[1].(type) {
		case SliceVal:
			for i := 0; i < s.Len; i++ {
				src = append(src, m.sliceElem(s, i))
			}
		case StrVal:
			for i := 0; i < s.Len(); i++ {
				src = append(src, m.strByte(s, i))
			}
		default:
			m.unsupported("copy from %s", describe(args[1]))
		}
		n := len(src)
		if dst.Len < n {
			n = dst.Len
		}
		if n > 0 {
			arr := m.backing(dst)
			tmp := make([]Value, n)
			for i := 0; i < n; i++ {
				tmp[i] = m.copyVal(src[i])
				m.noteWrite(dst.Obj, &arr.E[dst.Off+i])
			}
			copy(arr.E[dst.Off:dst.Off+n], tmp)
		}
		return m.lenTerm(n)
	case "delete":
		m.mapDelete(args[0], args[1])
		return nil
	case "panic":
		m.panicNow("explicit panic: %s", m.panicText(args[0]))
	case "recover":
		return IfaceVal{}
	case "print", "println":
		return nil
	case "close":
		c := args[0].(ChanVal)
		if c.C == nil {
			m.panicNow("close of nil channel")
		}
		if c.C.Closed {
			m.panicNow("close of closed channel")
		}
		c.C.Closed = true
		return nil
	case "min", "max":
		nt, _ := intInfo(cc.Args[0].Type())
		acc := args[0].(*smt.Term)
		for _, a := range args[1:] {
			t := a.(*smt.Term)
			var c *smt.Term
			if name == "min" {
				c = m.numCmp(token.LSS, t, acc, nt)
			} else {
				c = m.numCmp(token.GTR, t, acc, nt)
			}
			acc = smt.Ite(c, t, acc)
		}
		return acc
	case "clear":
		switch x := args[0].(type) {
		case MapVal:
			if x.M != nil {
				m.noteMapWrite(x.M)
				for i := range x.M.Live {
					x.M.Live[i] = false
				}
				x.M.idx = map[string]int{}
			}
			return nil
		}
	case "ssa:wrapnilchk":
		p, ok := args[0].(Ptr)
		if ok && p.IsNil() {
			m.panicNow("nil pointer dereference (method value)")
		}
		return args[0]
	}
	m.unsupported("builtin %s on %s", name, describe(args[0]))
	return nil
}

func (m *Machine) appendOp(sv, more Value, st types.Type) Value {
	s := sv.(SliceVal)
	var add []Value
	switch x := more.(type) {
	case SliceVal:
		for i := 0; i < x.Len; i++ {
			add = append(add, m.copyVal(m.sliceElem(x, i)))
		}
	case StrVal:
		for i := 0; i < x.Len(); i++ {
			add = append(add, m.strByte(x, i))
		}
	default:
		m.unsupported("append of %s", describe(more))
	}
	if len(add) == 0 {
		return s
	}
	n := s.Len + len(add)
	if s.Obj != nil && n <= s.Cap {
		arr := m.backing(s)
		for i := range add {
			m.noteWrite(s.Obj, &arr.E[s.Off+s.Len+i])
		}
		copy(arr.E[s.Off+s.Len:], add)
		return SliceVal{Obj: s.Obj, Path: s.Path, Off: s.Off, Len: n, Cap: s.Cap}
	}
	// grow (capacity policy: double, like the runtime for small slices; exact capacity is not observable
	// in the targeted code)
	cp := s.Cap * 2
	if cp < n {
		cp = n
	}
	et := st.Underlying().(*types.Slice).Elem()
	ns := m.makeSlice(et, n, cp)
	arr := m.backing(ns)
	for i := 0; i < s.Len; i++ {
		arr.E[i] = m.copyVal(m.sliceElem(s, i))
	}
	copy(arr.E[s.Len:], add)
	return ns
}

// ---------- channels (sequential semantics) ----------

func (m *Machine) chanSend(cv, v Value) {
	c := cv.(ChanVal)
	if c.C == nil {
		m.end("blocked", "send on nil channel")
	}
	if c.C.Closed {
		m.panicNow("send on closed channel")
	}
	if len(c.C.Q) >= c.C.Cap {
		m.end("blocked", "send would block at %s", m.where())
	}
	c.C.Q = append(c.C.Q, m.copyVal(v))
}

func (m *Machine) chanRecv(cv Value, commaOk bool) Value {
	c := cv.(ChanVal)
	if c.C == nil {
		m.end("blocked", "receive on nil channel")
	}
	if len(c.C.Q) > 0 {
		v := c.C.Q[0]
		c.C.Q = c.C.Q[1:]
		if commaOk {
			return TupleVal{v, smt.True}
		}
		return v
	}
	if c.C.Closed {
		z := m.zero(c.C.ET)
		if commaOk {
			return TupleVal{z, smt.False}
		}
		return z
	}
	m.end("blocked", "receive would block at %s", m.where())
	return nil
}

func (m *Machine) selectOp(fr *frame, x *ssa.Select) Value {
	// result tuple: (index int, recvOk bool, r_0 T_0, ... r_n-1 T_n-1) for receive states
	tt := x.Type().(*types.Tuple)
	res := make(TupleVal, tt.Len())
	for i := range res {
		res[i] = m.zero(tt.At(i).Type())
	}
	// Go picks uniformly among the ready cases: every ready case is explored (a scheduling choice).
	var ready []int
	for i, st := range x.States {
		c := m.get(fr, st.Chan).(ChanVal)
		if st.Dir == types.SendOnly {
			if c.C != nil && !c.C.Closed && len(c.C.Q) < c.C.Cap {
				ready = append(ready, i)
			}
		} else if c.C != nil && (len(c.C.Q) > 0 || c.C.Closed) {
			ready = append(ready, i)
		}
	}
	chosen := -1
	if len(ready) > 0 {
		chosen = ready[m.ChooseAmong(len(ready))]
	}
	recvIdx := 2
	for i, st := range x.States {
		c := m.get(fr, st.Chan).(ChanVal)
		if st.Dir == types.SendOnly {
			if i == chosen {
				c.C.Q = append(c.C.Q, m.copyVal(m.get(fr, st.Send)))
			}
		} else {
			if i == chosen {
				if len(c.C.Q) > 0 {
					res[recvIdx] = c.C.Q[0]
					c.C.Q = c.C.Q[1:]
					res[1] = smt.True
				} else {
					res[1] = smt.False
				}
			}
			recvIdx++
		}
	}
	if chosen < 0 {
		if x.Blocking {
			m.end("blocked", "select would block at %s", m.where())
		}
		res[0] = m.mkInt(-1)
		return res
	}
	res[0] = m.mkInt(int64(chosen))
	return res
}
