package symex

import (
	"fmt"
	"go/token"
	"go/types"
	"strings"

	"golang.org/x/tools/go/ssa"
	"verifeng/smt"
)

const maxDepth = 400

// call invokes a function value with arguments.
func (m *Machine) call(fv Value, args []Value, site *ssa.CallCommon) Value {
	f, ok := fv.(FuncVal)
	if !ok {
		if p, isP := fv.(Poison); isP {
			m.unsupported("call of poison function value: %s", p.Why)
		}
		m.unsupported("call of non-function %T", fv)
	}
	if f.Intr != nil {
		return f.Intr(m, m.forceLazyArgs("", append(append([]Value(nil), f.Bind...), args...)))
	}
	if f.Fn == nil {
		m.panicNow("nil function call")
	}
	fn := f.Fn
	if fn.Synthetic == "package initializer" && fn != m.initTop {
		return nil // other packages are initialised lazily, on first use of one of their globals
	}
	name := fn.String()
	if to, ok := m.Cfg.Redirect[name]; ok {
		if tf := m.lookupFunc(to); tf != nil {
			fn = tf
			name = to
		} else {
			m.unsupported("redirect target %s not found", to)
		}
	}
	if in, ok := intrinsics[name]; ok {
		if v := in(m, m.forceLazyArgs(name, args)); !isDeclined(v) {
			return v
		}
	}
	if fn.Synthetic == "" || len(fn.Blocks) > 0 {
		// generic instantiations share the origin's name for intrinsics
		if o := fn.Origin(); o != nil {
			if in, ok := intrinsics[o.String()]; ok {
				return in(m, m.forceLazyArgs(o.String(), args))
			}
		}
	}
	if len(fn.Blocks) == 0 {
		if in := prefixIntrinsic(name); in != nil {
			return in(m, m.forceLazyArgs(name, args))
		}
		m.unsupported("call of function without body: %s", name)
	}
	if in := prefixIntrinsic(name); in != nil {
		return in(m, m.forceLazyArgs(name, args))
	}
	if m.depth > maxDepth {
		m.unsupported("call depth exceeded at %s", name)
	}
	m.funcsSeen[fn] = true
	fr := &frame{fn: fn, locals: make(map[ssa.Value]Value, 16), caller: m.curFrame}
	for i, p := range fn.Params {
		if i < len(args) {
			fr.locals[p] = args[i]
		} else {
			fr.locals[p] = m.zero(p.Type())
		}
	}
	for i, fvv := range fn.FreeVars {
		if i < len(f.Bind) {
			fr.locals[fvv] = f.Bind[i]
		}
	}
	save := m.curFrame
	m.curFrame = fr
	m.depth++
	ret := m.run(fr)
	m.depth--
	m.curFrame = save
	return ret
}

func (m *Machine) lookupFunc(full string) *ssa.Function {
	// full is like "pkg/path.Func" or "(*pkg/path.T).Method" or "(pkg/path.T).Method"
	if full == "" {
		return nil
	}
	if full[0] == '(' {
		// method
		close := -1
		for i := range full {
			if full[i] == ')' {
				close = i
				break
			}
		}
		recv := full[1:close]
		meth := full[close+2:]
		ptr := false
		if recv[0] == '*' {
			ptr = true
			recv = recv[1:]
		}
		dot := lastDot(recv)
		pkg := m.P.Pkgs[recv[:dot]]
		if pkg == nil {
			return nil
		}
		tn := pkg.Type(recv[dot+1:])
		if tn == nil {
			return nil
		}
		var T types.Type = tn.Type()
		if ptr {
			T = types.NewPointer(T)
		}
		sel := m.P.Prog.MethodSets.MethodSet(T).Lookup(pkg.Pkg, meth)
		if sel == nil {
			return nil
		}
		return m.P.Prog.MethodValue(sel)
	}
	dot := lastDot(full)
	pkg := m.P.Pkgs[full[:dot]]
	if pkg == nil {
		return nil
	}
	return pkg.Func(full[dot+1:])
}

func lastDot(s string) int {
	for i := len(s) - 1; i >= 0; i-- {
		if s[i] == '.' {
			return i
		}
		if s[i] == '/' {
			break
		}
	}
	return -1
}

func (m *Machine) panicNow(format string, a ...interface{}) {
	msg := fmt.Sprintf(format, a...)
	if m.inInit > 0 {
		m.unsupported("panic during package initialisation: %s", msg)
	}
	if m.Cfg.IsConc {
		m.Violations = append(m.Violations, Violation{Label: msg, Kind: "panic", Pos: m.where()})
		m.end("violated", "panic: %s", msg)
	}
	// the current path is feasible by construction (modulo unknown); confirm and fetch a model
	m.Obligations++
	v := Violation{Label: msg, Kind: "panic", Pos: m.where(), PCSize: len(m.pc), Trace: append([]int64(nil), m.trace...), UsesUF: m.usedUF}
	m.defineNondets()
	r := m.Sol.Check()
	if r == smt.Unsat {
		m.Discharged++
		m.end("assume", "infeasible path reached panic")
	}
	if r == smt.Sat {
		v.Model, v.Nondets = m.modelStrings()
	} else {
		m.Unknowns = append(m.Unknowns, "panic feasibility at "+m.where())
	}
	m.Violations = append(m.Violations, v)
	m.end("violated", "panic: %s", msg)
}

// check that cond holds, else it is a run-time panic of the program under test.
func (m *Machine) checkPanic(cond *smt.Term, what string) {
	if cond.IsConst() && cond.U == 1 {
		return
	}
	if cond.IsConst() {
		m.panicNow("%s", what)
	}
	m.Oblige(cond, what, "panic")
}

func (m *Machine) run(fr *frame) Value {
	var prev *ssa.BasicBlock
	blk := fr.fn.Blocks[0]
	for {
		// phis first (simultaneous)
		nphi := 0
		if prev != nil {
			var phiVals []Value
			idx := -1
			for i, p := range blk.Preds {
				if p == prev {
					idx = i
					break
				}
			}
			for _, ins := range blk.Instrs {
				phi, ok := ins.(*ssa.Phi)
				if !ok {
					break
				}
				phiVals = append(phiVals, m.get(fr, phi.Edges[idx]))
				nphi++
			}
			for i := 0; i < nphi; i++ {
				fr.locals[blk.Instrs[i].(*ssa.Phi)] = phiVals[i]
			}
		}
		var next *ssa.BasicBlock
		for _, ins := range blk.Instrs[nphi:] {
			m.steps++
			if m.softLimit > 0 && m.steps > m.softLimit {
				m.unsupported("step budget of an initialiser call exhausted")
			}
			if m.steps > m.Cfg.MaxSteps {
				m.end("steps", "step budget exhausted at %s (depth %d)", m.where(), m.depth)
			}
			if p := ins.Pos(); p != token.NoPos {
				fr.pos = p
			}
			switch x := ins.(type) {
			case *ssa.Jump:
				next = blk.Succs[0]
			case *ssa.If:
				c := m.get(fr, x.Cond)
				ct, ok := c.(*smt.Term)
				if !ok {
					m.unsupported("branch on %s", describe(c))
				}
				if m.Branch(ct) {
					next = blk.Succs[0]
				} else {
					next = blk.Succs[1]
				}
			case *ssa.Return:
				m.runDefers(fr)
				switch len(x.Results) {
				case 0:
					return nil
				case 1:
					return m.get(fr, x.Results[0])
				}
				tv := make(TupleVal, len(x.Results))
				for i, r := range x.Results {
					tv[i] = m.get(fr, r)
				}
				return tv
			case *ssa.Panic:
				v := m.get(fr, x.X)
				m.panicNow("explicit panic: %s", m.panicText(v))
			case *ssa.RunDefers:
				m.runDefers(fr)
			default:
				m.exec(fr, ins)
			}
			if next != nil {
				break
			}
		}
		if next == nil {
			m.unsupported("fell off block %d of %s", blk.Index, fr.fn)
		}
		prev, blk = blk, next
	}
}

func (m *Machine) panicText(v Value) string {
	if iv, ok := v.(IfaceVal); ok {
		if s, ok := iv.V.(StrVal); ok {
			if c, ok := s.Concrete(); ok {
				return c
			}
			return "<symbolic string>"
		}
		if iv.T != nil {
			return "value of type " + iv.T.String()
		}
	}
	return describe(v)
}

func (m *Machine) runDefers(fr *frame) {
	for len(fr.defers) > 0 {
		d := fr.defers[len(fr.defers)-1]
		fr.defers = fr.defers[:len(fr.defers)-1]
		m.doCall(fr, d.call, d.fn, d.args)
	}
}

// exec runs one non-control instruction.
// lazyAware: intrinsics that take a LazyBytes argument as it is.
var lazyAware = map[string]bool{
	"(*math/big.Int).SetBytes":                          true,
	"massnet.org/mass-wallet/zzverifrt.PadBigEndian":    true,
}

// forceLazyOperands: an instruction other than a call, store, phi or return that uses a LazyBytes value gets
// the materialised slice (the SSA value keeps it from then on).
func (m *Machine) forceLazyOperands(fr *frame, ins ssa.Instruction) {
	switch ins.(type) {
	case *ssa.Call, *ssa.Defer, *ssa.Go, *ssa.Store, *ssa.MakeInterface, *ssa.ChangeType, *ssa.ChangeInterface, *ssa.MakeClosure, *ssa.DebugRef:
		return
	}
	var buf [8]*ssa.Value
	for _, r := range ins.Operands(buf[:0]) {
		if r == nil || *r == nil {
			continue
		}
		if l, ok := fr.locals[*r].(LazyBytes); ok {
			fr.locals[*r] = m.forceLazy(l)
		}
	}
}

func (m *Machine) forceLazyArgs(name string, args []Value) []Value {
	if lazyAware[name] {
		return args
	}
	for i, a := range args {
		if l, ok := a.(LazyBytes); ok {
			args[i] = m.forceLazy(l)
		}
	}
	return args
}

func (m *Machine) exec(fr *frame, ins ssa.Instruction) {
	if m.Cfg.LazyBigBytes {
		m.forceLazyOperands(fr, ins)
	}
	switch x := ins.(type) {
	case *ssa.DebugRef:
	case *ssa.Alloc:
		et := x.Type().(*types.Pointer).Elem()
		fr.locals[x] = Ptr{Obj: m.newObj(m.zero(et), et, x.Comment)}
	case *ssa.BinOp:
		fr.locals[x] = m.binop(x.Op, m.get(fr, x.X), m.get(fr, x.Y), x.X.Type(), x.Y.Type())
	case *ssa.UnOp:
		fr.locals[x] = m.unop(fr, x)
	case *ssa.Call:
		fn, args := m.prepareCall(fr, &x.Call)
		var res Value
		if m.inInit > 0 && (fr.fn.Synthetic == "package initializer" || strings.HasPrefix(fr.fn.Name(), "init#")) {
			res = m.callSoft(fr, &x.Call, fn, args)
		} else {
			res = m.doCall(fr, &x.Call, fn, args)
		}
		fr.locals[x] = res
	case *ssa.Defer:
		fn, args := m.prepareCall(fr, &x.Call)
		fr.defers = append(fr.defers, deferred{fn: fn, args: args, call: &x.Call})
	case *ssa.Go:
		fn, _ := m.prepareCall(fr, &x.Call)
		m.GoCalls = append(m.GoCalls, describe(fn))
	case *ssa.Store:
		m.store(m.get(fr, x.Addr), m.get(fr, x.Val))
	case *ssa.ChangeType:
		fr.locals[x] = m.get(fr, x.X)
	case *ssa.Convert:
		fr.locals[x] = m.convert(m.get(fr, x.X), x.X.Type(), x.Type())
	case *ssa.MultiConvert:
		fr.locals[x] = m.convert(m.get(fr, x.X), x.X.Type(), x.Type())
	case *ssa.ChangeInterface:
		fr.locals[x] = m.get(fr, x.X)
	case *ssa.MakeInterface:
		v := m.get(fr, x.X)
		if iv, ok := v.(IfaceVal); ok && types.IsInterface(x.X.Type()) {
			fr.locals[x] = iv
		} else {
			fr.locals[x] = IfaceVal{T: x.X.Type(), V: v}
		}
	case *ssa.TypeAssert:
		fr.locals[x] = m.typeAssert(x, m.get(fr, x.X))
	case *ssa.Extract:
		tv, ok := m.get(fr, x.Tuple).(TupleVal)
		if !ok {
			if p, isP := m.get(fr, x.Tuple).(Poison); isP {
				fr.locals[x] = p
				return
			}
			m.unsupported("extract from %s", describe(m.get(fr, x.Tuple)))
		}
		fr.locals[x] = tv[x.Index]
	case *ssa.Field:
		sv, ok := m.get(fr, x.X).(*StructVal)
		if !ok {
			m.unsupported("field of %s", describe(m.get(fr, x.X)))
		}
		fr.locals[x] = m.copyVal(sv.F[x.Field])
	case *ssa.FieldAddr:
		p, ok := m.get(fr, x.X).(Ptr)
		if !ok {
			m.unsupported("fieldaddr of %s", describe(m.get(fr, x.X)))
		}
		if p.IsNil() {
			m.panicNow("nil pointer dereference (field %s)", fieldName(x))
		}
		p = m.concPtr(p)
		np := Ptr{Obj: p.Obj, Path: append(append(make([]int, 0, len(p.Path)+1), p.Path...), x.Field)}
		fr.locals[x] = np
	case *ssa.Index:
		fr.locals[x] = m.indexValue(m.get(fr, x.X), m.get(fr, x.Index), x.Index.Type())
	case *ssa.IndexAddr:
		fr.locals[x] = m.indexAddr(m.get(fr, x.X), m.get(fr, x.Index), x.Index.Type())
	case *ssa.Lookup:
		fr.locals[x] = m.lookup(x, m.get(fr, x.X), m.get(fr, x.Index))
	case *ssa.MapUpdate:
		m.mapUpdate(m.get(fr, x.Map), m.get(fr, x.Key), m.get(fr, x.Value))
	case *ssa.MakeMap:
		mt := x.Type().Underlying().(*types.Map)
		m.nextObj++
		fr.locals[x] = MapVal{M: &MapObj{ID: m.nextObj, Init: m.inInit > 0, idx: map[string]int{}, KT: mt.Key(), VT: mt.Elem()}}
	case *ssa.MakeSlice:
		st := x.Type().Underlying().(*types.Slice)
		ln := int(m.Concretize(m.get(fr, x.Len).(*smt.Term), "make len"))
		cp := int(m.Concretize(m.get(fr, x.Cap).(*smt.Term), "make cap"))
		if ln < 0 || cp < ln {
			m.panicNow("makeslice: len out of range")
		}
		if cp > 1<<22 {
			m.unsupported("make of %d elements", cp)
		}
		fr.locals[x] = m.makeSlice(st.Elem(), ln, cp)
	case *ssa.MakeClosure:
		binds := make([]Value, len(x.Bindings))
		for i, b := range x.Bindings {
			binds[i] = m.get(fr, b)
		}
		fr.locals[x] = FuncVal{Fn: x.Fn.(*ssa.Function), Bind: binds}
	case *ssa.MakeChan:
		sz := int(m.Concretize(m.get(fr, x.Size).(*smt.Term), "chan size"))
		m.nextObj++
		fr.locals[x] = ChanVal{C: &ChanObj{ID: m.nextObj, Cap: sz, ET: x.Type().Underlying().(*types.Chan).Elem()}}
	case *ssa.Slice:
		fr.locals[x] = m.sliceOp(fr, x)
	case *ssa.SliceToArrayPointer:
		sv := m.get(fr, x.X).(SliceVal)
		at := x.Type().(*types.Pointer).Elem().Underlying().(*types.Array)
		if int64(sv.Len) < at.Len() {
			m.panicNow("slice to array pointer: length too short")
		}
		if sv.Obj == nil {
			fr.locals[x] = Ptr{}
		} else {
			// view: only supported when the slice covers a whole backing array from offset 0 of equal length
			arr := m.backing(sv)
			if sv.Off == 0 && int64(len(arr.E)) == at.Len() {
				fr.locals[x] = Ptr{Obj: sv.Obj, Path: sv.Path}
			} else {
				m.unsupported("slice-to-array-pointer of a partial slice")
			}
		}
	case *ssa.Range:
		fr.locals[x] = m.rangeInit(m.get(fr, x.X), x.X.Type())
	case *ssa.Next:
		fr.locals[x] = m.rangeNext(m.get(fr, x.Iter), x)
	case *ssa.Send:
		m.chanSend(m.get(fr, x.Chan), m.get(fr, x.X))
	case *ssa.Select:
		fr.locals[x] = m.selectOp(fr, x)
	default:
		m.unsupported("instruction %T (%s)", ins, ins)
	}
}

func fieldName(x *ssa.FieldAddr) string {
	st := x.X.Type().Underlying().(*types.Pointer).Elem().Underlying().(*types.Struct)
	return st.Field(x.Field).Name()
}

func (m *Machine) callSoft(fr *frame, cc *ssa.CallCommon, fn Value, args []Value) (res Value) {
	saveFrame, saveDepth, saveLimit, startSteps := m.curFrame, m.depth, m.softLimit, m.steps
	m.softLimit = m.steps + 3_000_000
	defer func() {
		m.softLimit = saveLimit
		if m.steps > startSteps { // initialisation does not count against the path budget
			m.steps = startSteps
		}
		if r := recover(); r != nil {
			if pe, ok := r.(pathEnd); ok && pe.Kind == "unsupported" {
				m.curFrame, m.depth = saveFrame, saveDepth
				res = Poison{"init call failed: " + pe.Msg}
				m.InitNotes = append(m.InitNotes, pe.Msg)
				return
			}
			if _, ok := r.(pathEnd); !ok {
				m.curFrame, m.depth = saveFrame, saveDepth
				res = Poison{fmt.Sprintf("init call failed: engine panic: %v", r)}
				return
			}
			panic(r)
		}
	}()
	return m.doCall(fr, cc, fn, args)
}

// prepareCall evaluates callee and arguments.
func (m *Machine) prepareCall(fr *frame, cc *ssa.CallCommon) (Value, []Value) {
	args := make([]Value, 0, len(cc.Args)+1)
	if cc.IsInvoke() {
		recv := m.get(fr, cc.Value)
		args = append(args, recv)
		for _, a := range cc.Args {
			args = append(args, m.get(fr, a))
		}
		return nil, args
	}
	fn := m.get(fr, cc.Value)
	for _, a := range cc.Args {
		args = append(args, m.get(fr, a))
	}
	return fn, args
}

func (m *Machine) doCall(fr *frame, cc *ssa.CallCommon, fn Value, args []Value) Value {
	if cc.IsInvoke() {
		return m.invoke(cc, args[0], args[1:])
	}
	if f, ok := fn.(FuncVal); ok && f.Fn == nil && f.Intr == nil && len(f.IName) > 8 && f.IName[:8] == "builtin:" {
		return m.builtin(fr, f.IName[8:], m.forceLazyArgs("", args), cc)
	}
	if f, ok := fn.(FuncVal); ok && f.Fn != nil {
		// callee init
		if f.Fn.Pkg != nil {
			m.ensureInit(f.Fn.Pkg)
		}
	}
	return m.call(fn, args, cc)
}

func (m *Machine) invoke(cc *ssa.CallCommon, recv Value, args []Value) Value {
	iv, ok := recv.(IfaceVal)
	if !ok {
		if p, isP := recv.(Poison); isP {
			m.unsupported("method %s on poison: %s", cc.Method.Name(), p.Why)
		}
		m.unsupported("invoke on %s", describe(recv))
	}
	if iv.T == nil {
		m.panicNow("nil interface method call %s", cc.Method.Name())
	}
	if h, ok := iv.V.(*HashAcc); ok {
		return m.hashMethod(h, cc.Method.Name(), m.forceLazyArgs("", args))
	}
	if o, ok := iv.V.(Opaque); ok {
		return m.opaqueMethod(o, cc.Method.Name(), m.forceLazyArgs("", args))
	}
	if p, ok := iv.V.(Ptr); ok && !p.IsNil() && len(p.Path) == 0 {
		if o, ok2 := p.Obj.Val.(Opaque); ok2 {
			return m.opaqueMethod(o, cc.Method.Name(), m.forceLazyArgs("", args))
		}
	}
	sel := m.P.Prog.MethodSets.MethodSet(iv.T).Lookup(cc.Method.Pkg(), cc.Method.Name())
	if sel == nil {
		m.unsupported("method %s not found on %s", cc.Method.Name(), iv.T)
	}
	fn := m.P.Prog.MethodValue(sel)
	if fn == nil {
		m.unsupported("no method value for %s.%s", iv.T, cc.Method.Name())
	}
	if fn.Pkg != nil {
		m.ensureInit(fn.Pkg)
	}
	return m.call(FuncVal{Fn: fn}, append([]Value{iv.V}, args...), cc)
}

func (m *Machine) typeAssert(x *ssa.TypeAssert, v Value) Value {
	iv, ok := v.(IfaceVal)
	if !ok {
		m.unsupported("type assert on %s", describe(v))
	}
	var okb bool
	var res Value
	if types.IsInterface(x.AssertedType) {
		if iv.T != nil {
			okb = types.Implements(iv.T, x.AssertedType.Underlying().(*types.Interface))
			if _, isH := iv.V.(*HashAcc); isH {
				okb = true
			}
		}
		res = iv
		if !okb {
			res = IfaceVal{}
		}
	} else {
		okb = iv.T != nil && types.Identical(iv.T, x.AssertedType)
		if okb {
			res = iv.V
		} else {
			res = m.zero(x.AssertedType)
		}
	}
	if x.CommaOk {
		return TupleVal{res, smt.Bool(okb)}
	}
	if !okb {
		m.panicNow("interface conversion: %v is not %s", iv.T, x.AssertedType)
	}
	return res
}
