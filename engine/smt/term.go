// Package smt: hash-consed SMT-LIB2 terms with aggressive constant folding.
// Concrete execution in the symbolic executor is constant folding here.
package smt

import (
	"fmt"
	"math/big"
	"strconv"
	"strings"
	"sync"
)

type Kind uint8

const (
	KBool Kind = iota
	KBV
	KInt
)

type Sort struct {
	K Kind
	W int
}

var BoolSort = Sort{KBool, 0}
var IntSort = Sort{KInt, 0}

func BV(w int) Sort { return Sort{KBV, w} }

func (s Sort) String() string {
	switch s.K {
	case KBool:
		return "Bool"
	case KInt:
		return "Int"
	}
	return "(_ BitVec " + strconv.Itoa(s.W) + ")"
}

type Op uint8

const (
	OConst Op = iota
	OVar
	ONot
	OAnd
	OOr
	OIte
	OEq
	OBvAdd
	OBvSub
	OBvMul
	OBvUdiv
	OBvUrem
	OBvSdiv
	OBvSrem
	OBvAnd
	OBvOr
	OBvXor
	OBvShl
	OBvLshr
	OBvAshr
	OBvNot
	OBvNeg
	OConcat
	OExtract
	OZext
	OSext
	OBvUlt
	OBvUle
	OBvSlt
	OBvSle
	OIAdd
	OISub
	OIMul
	OIDiv
	OIMod
	OILe
	OILt
	OINeg
	OApp // uninterpreted function application (Name)
	OBv2Int
	OInt2Bv
)

var opNames = map[Op]string{
	ONot: "not", OAnd: "and", OOr: "or", OIte: "ite", OEq: "=",
	OBvAdd: "bvadd", OBvSub: "bvsub", OBvMul: "bvmul", OBvUdiv: "bvudiv", OBvUrem: "bvurem",
	OBvSdiv: "bvsdiv", OBvSrem: "bvsrem", OBvAnd: "bvand", OBvOr: "bvor", OBvXor: "bvxor",
	OBvShl: "bvshl", OBvLshr: "bvlshr", OBvAshr: "bvashr", OBvNot: "bvnot", OBvNeg: "bvneg",
	OConcat: "concat", OBvUlt: "bvult", OBvUle: "bvule", OBvSlt: "bvslt", OBvSle: "bvsle",
	OIAdd: "+", OISub: "-", OIMul: "*", OIDiv: "div", OIMod: "mod", OILe: "<=", OILt: "<", OINeg: "-",
	OBv2Int: "bv2int",
}

type Term struct {
	ID   int64
	Op   Op
	Args []*Term
	Sort Sort
	U    uint64   // const BV (w<=64) value, or bool 0/1
	Big  *big.Int // const BV (w>64) or Int const
	Name string   // var / UF name
	P1   int      // extract hi, ext amount
	P2   int      // extract lo
	// Int metadata: known bounds (nil = unknown)
	Lo, Hi *big.Int
}

func (t *Term) IsConst() bool { return t.Op == OConst }

var (
	mu      sync.Mutex
	table   = map[string]*Term{}
	nextID  int64
	True    = &Term{Op: OConst, Sort: BoolSort, U: 1, ID: -1}
	False   = &Term{Op: OConst, Sort: BoolSort, U: 0, ID: -2}
	UFDecls = map[string]string{} // name -> declaration text
	ufOrder []string
)

// NumTerms returns the number of hash-consed terms created so far.
func NumTerms() int64 { mu.Lock(); defer mu.Unlock(); return nextID }

func mk(op Op, sort Sort, name string, p1, p2 int, args ...*Term) *Term {
	return mkB(op, sort, name, p1, p2, nil, nil, args...)
}

// mkB: as mk, with the Int bounds of a *new* term set before the term is published in the table (terms are shared by
// all exploration workers: nothing may be written to one after mk returns).
func mkB(op Op, sort Sort, name string, p1, p2 int, lo, hi *big.Int, args ...*Term) *Term {
	var sb strings.Builder
	sb.WriteByte(byte(op) + 33)
	sb.WriteString(name)
	sb.WriteByte('|')
	sb.WriteString(strconv.Itoa(p1))
	sb.WriteByte('|')
	sb.WriteString(strconv.Itoa(p2))
	sb.WriteByte('|')
	sb.WriteString(strconv.Itoa(int(sort.K)*100000 + sort.W))
	for _, a := range args {
		sb.WriteByte(',')
		if a.Op == OConst {
			sb.WriteString(a.constKey())
		} else {
			sb.WriteString(strconv.FormatInt(a.ID, 36))
		}
	}
	k := sb.String()
	mu.Lock()
	defer mu.Unlock()
	if t, ok := table[k]; ok {
		return t
	}
	nextID++
	as := make([]*Term, len(args))
	copy(as, args)
	t := &Term{ID: nextID, Op: op, Args: as, Sort: sort, Name: name, P1: p1, P2: p2, Lo: lo, Hi: hi}
	table[k] = t
	return t
}

func (t *Term) constKey() string {
	switch t.Sort.K {
	case KBool:
		if t.U == 1 {
			return "T"
		}
		return "F"
	case KInt:
		return "i" + t.Big.String()
	}
	if t.Sort.W <= 64 {
		return "c" + strconv.Itoa(t.Sort.W) + "_" + strconv.FormatUint(t.U, 16)
	}
	return "c" + strconv.Itoa(t.Sort.W) + "_" + t.Big.Text(16)
}

func Bool(b bool) *Term {
	if b {
		return True
	}
	return False
}

func mask(w int) uint64 {
	if w >= 64 {
		return ^uint64(0)
	}
	return (uint64(1) << uint(w)) - 1
}

var bigMasks = map[int]*big.Int{}
var bmMu sync.Mutex

func bigMask(w int) *big.Int {
	bmMu.Lock()
	defer bmMu.Unlock()
	if m, ok := bigMasks[w]; ok {
		return m
	}
	m := new(big.Int).Lsh(big.NewInt(1), uint(w))
	m.Sub(m, big.NewInt(1))
	bigMasks[w] = m
	return m
}

func BVConst(w int, v uint64) *Term {
	if w <= 64 {
		return &Term{Op: OConst, Sort: BV(w), U: v & mask(w)}
	}
	return &Term{Op: OConst, Sort: BV(w), Big: new(big.Int).SetUint64(v)}
}

func BVConstBig(w int, v *big.Int) *Term {
	x := new(big.Int).And(v, bigMask(w)) // And on negative uses two's complement semantics in math/big
	if v.Sign() < 0 {
		x = new(big.Int).Mod(v, new(big.Int).Add(bigMask(w), big.NewInt(1)))
	}
	if w <= 64 {
		return &Term{Op: OConst, Sort: BV(w), U: x.Uint64()}
	}
	return &Term{Op: OConst, Sort: BV(w), Big: x}
}

func IntConst(v *big.Int) *Term {
	x := new(big.Int).Set(v)
	return &Term{Op: OConst, Sort: IntSort, Big: x, Lo: x, Hi: x}
}
func IntConstI(v int64) *Term { return IntConst(big.NewInt(v)) }

// BigVal returns the unsigned value of a constant BV, or the value of an Int constant.
func (t *Term) BigVal() *big.Int {
	if t.Sort.K == KBV && t.Sort.W <= 64 {
		return new(big.Int).SetUint64(t.U)
	}
	if t.Sort.K == KBool {
		return new(big.Int).SetUint64(t.U)
	}
	return t.Big
}

// SignedVal returns the two's complement signed value of a BV constant.
func (t *Term) SignedVal() *big.Int {
	v := t.BigVal()
	if t.Sort.K != KBV {
		return v
	}
	if v.Bit(t.Sort.W-1) == 1 {
		return new(big.Int).Sub(v, new(big.Int).Lsh(big.NewInt(1), uint(t.Sort.W)))
	}
	return v
}

func Var(name string, s Sort) *Term {
	t := mk(OVar, s, name, 0, 0)
	return t
}

// IntVarBounded: an integer variable with known bounds. Terms are hash-consed process-wide and the bounds are part of
// the term (folding uses them, the solver pipe asserts them at declaration), so they are part of the variable's
// identity: the name carries them. (Before, the term was keyed by the bare name and the bounds were overwritten on
// every call - two workers creating the Skolem variable "sk3_q" of two different paths with different bounds changed
// each other's bounds: a data race that, rarely, produced a counterexample the real build did not reproduce.)
func IntVarBounded(name string, lo, hi *big.Int) *Term {
	b := func(x *big.Int) string {
		if x == nil {
			return "u"
		}
		return strings.ReplaceAll(x.String(), "-", "m")
	}
	return mkB(OVar, IntSort, name+"_b"+b(lo)+"_"+b(hi), 0, 0, lo, hi)
}

// ---------- boolean ----------

func Not(a *Term) *Term {
	if a.IsConst() {
		return Bool(a.U == 0)
	}
	if a.Op == ONot {
		return a.Args[0]
	}
	return mk(ONot, BoolSort, "", 0, 0, a)
}

func And(xs ...*Term) *Term {
	var out []*Term
	for _, x := range xs {
		if x.IsConst() {
			if x.U == 0 {
				return False
			}
			continue
		}
		dup := false
		for _, o := range out {
			if o == x {
				dup = true
			}
			if (o.Op == ONot && o.Args[0] == x) || (x.Op == ONot && x.Args[0] == o) {
				return False
			}
		}
		if !dup {
			out = append(out, x)
		}
	}
	if len(out) == 0 {
		return True
	}
	if len(out) == 1 {
		return out[0]
	}
	return mk(OAnd, BoolSort, "", 0, 0, out...)
}

func Or(xs ...*Term) *Term {
	var out []*Term
	for _, x := range xs {
		if x.IsConst() {
			if x.U == 1 {
				return True
			}
			continue
		}
		dup := false
		for _, o := range out {
			if o == x {
				dup = true
			}
			if (o.Op == ONot && o.Args[0] == x) || (x.Op == ONot && x.Args[0] == o) {
				return True
			}
		}
		if !dup {
			out = append(out, x)
		}
	}
	if len(out) == 0 {
		return False
	}
	if len(out) == 1 {
		return out[0]
	}
	return mk(OOr, BoolSort, "", 0, 0, out...)
}

func Implies(a, b *Term) *Term { return Or(Not(a), b) }

func constEq(a, b *Term) bool {
	if a.Sort != b.Sort {
		panic(fmt.Sprintf("smt: sort mismatch %v vs %v", a.Sort, b.Sort))
	}
	if a.Big != nil || b.Big != nil {
		return a.BigVal().Cmp(b.BigVal()) == 0
	}
	return a.U == b.U
}

func Ite(c, a, b *Term) *Term {
	if a.Sort != b.Sort {
		panic(fmt.Sprintf("smt: ite sort mismatch %v vs %v", a.Sort, b.Sort))
	}
	if c.IsConst() {
		if c.U == 1 {
			return a
		}
		return b
	}
	if a == b {
		return a
	}
	if a.IsConst() && b.IsConst() && constEq(a, b) {
		return a
	}
	if a.Sort.K == KBool {
		if a.IsConst() && b.IsConst() {
			if a.U == 1 {
				return c
			}
			return Not(c)
		}
		if a.IsConst() {
			if a.U == 1 {
				return Or(c, b)
			}
			return And(Not(c), b)
		}
		if b.IsConst() {
			if b.U == 1 {
				return Or(Not(c), a)
			}
			return And(c, a)
		}
	}
	// ite(c, x, ite(c, y, z)) = ite(c,x,z)
	if b.Op == OIte && b.Args[0] == c {
		b = b.Args[2]
	}
	if a.Op == OIte && a.Args[0] == c {
		a = a.Args[1]
	}
	var lo, hi *big.Int
	if a.Sort.K == KInt {
		if a.Lo != nil && b.Lo != nil {
			lo = minBig(a.Lo, b.Lo)
		}
		if a.Hi != nil && b.Hi != nil {
			hi = maxBig(a.Hi, b.Hi)
		}
	}
	return mkB(OIte, a.Sort, "", 0, 0, lo, hi, c, a, b)
}

func minBig(a, b *big.Int) *big.Int {
	if a.Cmp(b) < 0 {
		return a
	}
	return b
}
func maxBig(a, b *big.Int) *big.Int {
	if a.Cmp(b) > 0 {
		return a
	}
	return b
}

func Eq(a, b *Term) *Term {
	if a.Sort != b.Sort {
		panic(fmt.Sprintf("smt: eq sort mismatch %v vs %v", a.Sort, b.Sort))
	}
	if a == b {
		return True
	}
	if a.IsConst() && b.IsConst() {
		return Bool(constEq(a, b))
	}
	if a.Sort.K == KBool {
		if a.IsConst() {
			if a.U == 1 {
				return b
			}
			return Not(b)
		}
		if b.IsConst() {
			if b.U == 1 {
				return a
			}
			return Not(a)
		}
	}
	if a.Sort.K == KInt {
		// disjoint ranges
		if a.Hi != nil && b.Lo != nil && a.Hi.Cmp(b.Lo) < 0 {
			return False
		}
		if b.Hi != nil && a.Lo != nil && b.Hi.Cmp(a.Lo) < 0 {
			return False
		}
	}
	// eq(ite(c,k1,k2), k) with constants
	if b.IsConst() && a.Op == OIte && a.Args[1].IsConst() && a.Args[2].IsConst() {
		return Ite(a.Args[0], Eq(a.Args[1], b), Eq(a.Args[2], b))
	}
	if a.IsConst() && b.Op == OIte && b.Args[1].IsConst() && b.Args[2].IsConst() {
		return Ite(b.Args[0], Eq(b.Args[1], a), Eq(b.Args[2], a))
	}
	// zero-extended value vs constant
	if a.Sort.K == KBV && b.IsConst() && a.Op == OConcat && a.Args[0].IsConst() {
		hiw := a.Args[0].Sort.W
		bc := b.BigVal()
		hi := new(big.Int).Rsh(bc, uint(a.Sort.W-hiw))
		if hi.Cmp(a.Args[0].BigVal()) != 0 {
			return False
		}
		rest := a.Args[1:]
		lw := a.Sort.W - hiw
		return Eq(Concat(rest...), BVConstBig(lw, new(big.Int).And(bc, bigMask(lw))))
	}
	if a.ID > b.ID && !a.IsConst() && !b.IsConst() {
		a, b = b, a
	}
	if a.IsConst() {
		a, b = b, a
	}
	return mk(OEq, BoolSort, "", 0, 0, a, b)
}

// ---------- bit-vectors ----------

func bvBin(op Op, a, b *Term) *Term {
	if a.Sort != b.Sort || a.Sort.K != KBV {
		panic(fmt.Sprintf("smt: bv op %v sort mismatch %v vs %v", opNames[op], a.Sort, b.Sort))
	}
	w := a.Sort.W
	if a.IsConst() && b.IsConst() {
		if w <= 64 {
			x, y := a.U, b.U
			var r uint64
			switch op {
			case OBvAdd:
				r = x + y
			case OBvSub:
				r = x - y
			case OBvMul:
				r = x * y
			case OBvAnd:
				r = x & y
			case OBvOr:
				r = x | y
			case OBvXor:
				r = x ^ y
			case OBvUdiv:
				if y == 0 {
					r = mask(w)
				} else {
					r = x / y
				}
			case OBvUrem:
				if y == 0 {
					r = x
				} else {
					r = x % y
				}
			case OBvShl:
				if y >= uint64(w) {
					r = 0
				} else {
					r = x << y
				}
			case OBvLshr:
				if y >= uint64(w) {
					r = 0
				} else {
					r = x >> y
				}
			default:
				return bvBinBig(op, a, b)
			}
			return BVConst(w, r)
		}
		return bvBinBig(op, a, b)
	}
	// identities
	isZero := func(t *Term) bool { return t.IsConst() && t.BigVal().Sign() == 0 }
	isOnes := func(t *Term) bool { return t.IsConst() && t.BigVal().Cmp(bigMask(w)) == 0 }
	switch op {
	case OBvAdd:
		if isZero(a) {
			return b
		}
		if isZero(b) {
			return a
		}
	case OBvSub:
		if isZero(b) {
			return a
		}
		if a == b {
			return BVConst(w, 0)
		}
	case OBvMul:
		if isZero(a) || isZero(b) {
			return BVConst(w, 0)
		}
		if a.IsConst() && a.BigVal().Cmp(big.NewInt(1)) == 0 {
			return b
		}
		if b.IsConst() && b.BigVal().Cmp(big.NewInt(1)) == 0 {
			return a
		}
	case OBvAnd:
		if isZero(a) || isZero(b) {
			return BVConst(w, 0)
		}
		if isOnes(a) {
			return b
		}
		if isOnes(b) {
			return a
		}
		if a == b {
			return a
		}
		// and with constant mask: per-segment
		if a.IsConst() {
			a, b = b, a
		}
		if b.IsConst() {
			if r := andMask(a, b); r != nil {
				return r
			}
		}
	case OBvOr:
		if isZero(a) {
			return b
		}
		if isZero(b) {
			return a
		}
		if a == b {
			return a
		}
		if isOnes(a) || isOnes(b) {
			return BVConstBig(w, bigMask(w))
		}
		if r := orSegments(a, b); r != nil {
			return r
		}
	case OBvXor:
		if isZero(a) {
			return b
		}
		if isZero(b) {
			return a
		}
		if a == b {
			return BVConst(w, 0)
		}
	case OBvShl:
		if b.IsConst() {
			k := b.BigVal()
			if k.Cmp(big.NewInt(int64(w))) >= 0 {
				return BVConst(w, 0)
			}
			ki := int(k.Int64())
			if ki == 0 {
				return a
			}
			return Concat(Extract(a, w-ki-1, 0), BVConst(ki, 0))
		}
		if isZero(a) {
			return a
		}
	case OBvLshr:
		if b.IsConst() {
			k := b.BigVal()
			if k.Cmp(big.NewInt(int64(w))) >= 0 {
				return BVConst(w, 0)
			}
			ki := int(k.Int64())
			if ki == 0 {
				return a
			}
			return Concat(BVConst(ki, 0), Extract(a, w-1, ki))
		}
		if isZero(a) {
			return a
		}
	case OBvAshr:
		if b.IsConst() {
			k := b.BigVal()
			ki := w - 1
			if k.Cmp(big.NewInt(int64(w))) < 0 {
				ki = int(k.Int64())
			}
			if ki == 0 {
				return a
			}
			return Sext(Extract(a, w-1, ki), ki)
		}
	case OBvUdiv:
		if b.IsConst() && b.BigVal().Cmp(big.NewInt(1)) == 0 {
			return a
		}
	}
	if (op == OBvAdd || op == OBvMul || op == OBvAnd || op == OBvOr || op == OBvXor) && (a.IsConst() || (!b.IsConst() && a.ID > b.ID)) {
		a, b = b, a
	}
	return mk(op, a.Sort, "", 0, 0, a, b)
}

func bvBinBig(op Op, a, b *Term) *Term {
	w := a.Sort.W
	x, y := a.BigVal(), b.BigVal()
	r := new(big.Int)
	switch op {
	case OBvAdd:
		r.Add(x, y)
	case OBvSub:
		r.Sub(x, y)
	case OBvMul:
		r.Mul(x, y)
	case OBvAnd:
		r.And(x, y)
	case OBvOr:
		r.Or(x, y)
	case OBvXor:
		r.Xor(x, y)
	case OBvUdiv:
		if y.Sign() == 0 {
			r.Set(bigMask(w))
		} else {
			r.Quo(x, y)
		}
	case OBvUrem:
		if y.Sign() == 0 {
			r.Set(x)
		} else {
			r.Rem(x, y)
		}
	case OBvSdiv:
		sx, sy := a.SignedVal(), b.SignedVal()
		if sy.Sign() == 0 {
			if sx.Sign() < 0 {
				r.SetInt64(1)
			} else {
				r.Set(bigMask(w))
			}
		} else {
			r.Quo(sx, sy)
		}
	case OBvSrem:
		sx, sy := a.SignedVal(), b.SignedVal()
		if sy.Sign() == 0 {
			r.Set(sx)
		} else {
			r.Rem(sx, sy)
		}
	case OBvShl:
		if y.Cmp(big.NewInt(int64(w))) >= 0 {
			r.SetInt64(0)
		} else {
			r.Lsh(x, uint(y.Uint64()))
		}
	case OBvLshr:
		if y.Cmp(big.NewInt(int64(w))) >= 0 {
			r.SetInt64(0)
		} else {
			r.Rsh(x, uint(y.Uint64()))
		}
	case OBvAshr:
		sx := a.SignedVal()
		k := uint(w - 1)
		if y.Cmp(big.NewInt(int64(w))) < 0 {
			k = uint(y.Uint64())
		}
		r.Rsh(sx, k)
	default:
		panic("bvBinBig op")
	}
	return BVConstBig(w, r)
}

func BvAdd(a, b *Term) *Term  { return bvBin(OBvAdd, a, b) }
func BvSub(a, b *Term) *Term  { return bvBin(OBvSub, a, b) }
func BvMul(a, b *Term) *Term  { return bvBin(OBvMul, a, b) }
func BvUdiv(a, b *Term) *Term { return bvBin(OBvUdiv, a, b) }
func BvUrem(a, b *Term) *Term { return bvBin(OBvUrem, a, b) }
func BvSdiv(a, b *Term) *Term {
	if a.IsConst() && b.IsConst() {
		return bvBinBig(OBvSdiv, a, b)
	}
	return mk(OBvSdiv, a.Sort, "", 0, 0, a, b)
}
func BvSrem(a, b *Term) *Term {
	if a.IsConst() && b.IsConst() {
		return bvBinBig(OBvSrem, a, b)
	}
	return mk(OBvSrem, a.Sort, "", 0, 0, a, b)
}
func BvAnd(a, b *Term) *Term  { return bvBin(OBvAnd, a, b) }
func BvOr(a, b *Term) *Term   { return bvBin(OBvOr, a, b) }
func BvXor(a, b *Term) *Term  { return bvBin(OBvXor, a, b) }
func BvShl(a, b *Term) *Term  { return bvBin(OBvShl, a, b) }
func BvLshr(a, b *Term) *Term { return bvBin(OBvLshr, a, b) }
func BvAshr(a, b *Term) *Term {
	if a.IsConst() && b.IsConst() {
		return bvBinBig(OBvAshr, a, b)
	}
	return bvBin(OBvAshr, a, b)
}

func BvNot(a *Term) *Term {
	if a.IsConst() {
		return BVConstBig(a.Sort.W, new(big.Int).Xor(a.BigVal(), bigMask(a.Sort.W)))
	}
	if a.Op == OBvNot {
		return a.Args[0]
	}
	return mk(OBvNot, a.Sort, "", 0, 0, a)
}

func BvNeg(a *Term) *Term {
	if a.IsConst() {
		return BVConstBig(a.Sort.W, new(big.Int).Neg(a.BigVal()))
	}
	return mk(OBvNeg, a.Sort, "", 0, 0, a)
}

// segments: flatten a BV term into concat pieces (most significant first).
func segments(t *Term) []*Term {
	if t.Op == OConcat {
		return t.Args
	}
	return []*Term{t}
}

// splitAt splits segment list so that boundaries (bit positions from the LSB) in cuts exist.
func alignSegs(segs []*Term, total int, cuts map[int]bool) []*Term {
	var out []*Term
	pos := total
	for _, s := range segs {
		w := s.Sort.W
		lo := pos - w
		// cuts strictly inside (lo,pos)
		cur := pos
		for c := pos - 1; c > lo; c-- {
			if cuts[c] {
				out = append(out, Extract(s, cur-lo-1, c-lo))
				cur = c
			}
		}
		out = append(out, Extract(s, cur-lo-1, 0))
		pos = lo
	}
	return out
}

func boundaries(segs []*Term, total int, cuts map[int]bool) {
	pos := total
	for _, s := range segs {
		pos -= s.Sort.W
		cuts[pos] = true
	}
}

func isZeroConst(t *Term) bool { return t.IsConst() && t.BigVal().Sign() == 0 }

// orSegments: if a and b have complementary zero segments, return the concat.
func orSegments(a, b *Term) *Term {
	sa, sb := segments(a), segments(b)
	if len(sa) == 1 && len(sb) == 1 {
		return nil
	}
	hasZero := false
	for _, s := range sa {
		if isZeroConst(s) {
			hasZero = true
		}
	}
	for _, s := range sb {
		if isZeroConst(s) {
			hasZero = true
		}
	}
	if !hasZero {
		return nil
	}
	w := a.Sort.W
	cuts := map[int]bool{}
	boundaries(sa, w, cuts)
	boundaries(sb, w, cuts)
	if len(cuts) > 64 {
		return nil
	}
	xa, xb := alignSegs(sa, w, cuts), alignSegs(sb, w, cuts)
	if len(xa) != len(xb) {
		return nil
	}
	out := make([]*Term, len(xa))
	for i := range xa {
		switch {
		case isZeroConst(xa[i]):
			out[i] = xb[i]
		case isZeroConst(xb[i]):
			out[i] = xa[i]
		case xa[i].IsConst() && xb[i].IsConst():
			out[i] = BvOr(xa[i], xb[i])
		case xa[i] == xb[i]:
			out[i] = xa[i]
		default:
			return nil
		}
	}
	return Concat(out...)
}

// andMask: a & constMask where mask is a contiguous run of ones, or a is a concat.
func andMask(a, m *Term) *Term {
	w := a.Sort.W
	mv := m.BigVal()
	// contiguous low mask 2^k-1
	k := mv.BitLen()
	if new(big.Int).Add(mv, big.NewInt(1)).Cmp(new(big.Int).Lsh(big.NewInt(1), uint(k))) == 0 {
		if k == w {
			return a
		}
		return Concat(BVConst(w-k, 0), Extract(a, k-1, 0))
	}
	// general: run-decompose if few runs
	var parts []*Term
	pos := w
	runs := 0
	for pos > 0 {
		bit := mv.Bit(pos - 1)
		j := pos - 1
		for j > 0 && mv.Bit(j-1) == bit {
			j--
		}
		if bit == 1 {
			parts = append(parts, Extract(a, pos-1, j))
		} else {
			parts = append(parts, BVConst(pos-j, 0))
		}
		pos = j
		runs++
		if runs > 6 {
			return nil
		}
	}
	return Concat(parts...)
}

func Concat(xs ...*Term) *Term {
	var flat []*Term
	for _, x := range xs {
		if x.Sort.K != KBV {
			panic("concat of non-bv")
		}
		if x.Op == OConcat {
			flat = append(flat, x.Args...)
		} else {
			flat = append(flat, x)
		}
	}
	// merge adjacent constants and adjacent extracts of the same term
	var out []*Term
	for _, x := range flat {
		if len(out) > 0 {
			p := out[len(out)-1]
			if p.IsConst() && x.IsConst() {
				v := new(big.Int).Lsh(p.BigVal(), uint(x.Sort.W))
				v.Or(v, x.BigVal())
				out[len(out)-1] = BVConstBig(p.Sort.W+x.Sort.W, v)
				continue
			}
			if p.Op == OExtract && x.Op == OExtract && p.Args[0] == x.Args[0] && p.P2 == x.P1+1 {
				out[len(out)-1] = Extract(p.Args[0], p.P1, x.P2)
				continue
			}
		}
		out = append(out, x)
	}
	if len(out) == 1 {
		return out[0]
	}
	w := 0
	for _, x := range out {
		w += x.Sort.W
	}
	return mk(OConcat, BV(w), "", 0, 0, out...)
}

func Extract(a *Term, hi, lo int) *Term {
	if a.Sort.K != KBV || hi < lo || hi >= a.Sort.W || lo < 0 {
		panic(fmt.Sprintf("smt: bad extract [%d:%d] of %v", hi, lo, a.Sort))
	}
	w := hi - lo + 1
	if w == a.Sort.W {
		return a
	}
	if a.IsConst() {
		v := new(big.Int).Rsh(a.BigVal(), uint(lo))
		return BVConstBig(w, v)
	}
	switch a.Op {
	case OExtract:
		return Extract(a.Args[0], a.P2+hi, a.P2+lo)
	case OConcat:
		pos := a.Sort.W
		var parts []*Term
		for _, s := range a.Args {
			sw := s.Sort.W
			slo := pos - sw
			shi := pos - 1
			// overlap of [lo,hi] with [slo,shi]
			l, h := lo, hi
			if l < slo {
				l = slo
			}
			if h > shi {
				h = shi
			}
			if l <= h {
				parts = append(parts, Extract(s, h-slo, l-slo))
			}
			pos = slo
		}
		return Concat(parts...)
	case OZext:
		iw := a.Args[0].Sort.W
		if hi < iw {
			return Extract(a.Args[0], hi, lo)
		}
		if lo >= iw {
			return BVConst(w, 0)
		}
		return Concat(BVConst(hi-iw+1, 0), Extract(a.Args[0], iw-1, lo))
	case OSext:
		iw := a.Args[0].Sort.W
		if hi < iw {
			return Extract(a.Args[0], hi, lo)
		}
	case OIte:
		if a.Args[1].IsConst() || a.Args[2].IsConst() {
			return Ite(a.Args[0], Extract(a.Args[1], hi, lo), Extract(a.Args[2], hi, lo))
		}
	case OBvAnd, OBvOr, OBvXor:
		return bvBin(a.Op, Extract(a.Args[0], hi, lo), Extract(a.Args[1], hi, lo))
	case OBvAdd, OBvSub, OBvMul:
		if lo == 0 {
			return bvBin(a.Op, Extract(a.Args[0], hi, 0), Extract(a.Args[1], hi, 0))
		}
	}
	return mk(OExtract, BV(w), "", hi, lo, a)
}

func Zext(a *Term, k int) *Term {
	if k == 0 {
		return a
	}
	return Concat(BVConst(k, 0), a)
}

func Sext(a *Term, k int) *Term {
	if k == 0 {
		return a
	}
	if a.IsConst() {
		return BVConstBig(a.Sort.W+k, a.SignedVal())
	}
	return mk(OSext, BV(a.Sort.W+k), "", k, 0, a)
}

func bvCmp(op Op, a, b *Term) *Term {
	if a.Sort != b.Sort || a.Sort.K != KBV {
		panic(fmt.Sprintf("smt: cmp sort mismatch %v vs %v", a.Sort, b.Sort))
	}
	if a.IsConst() && b.IsConst() {
		var c int
		if op == OBvUlt || op == OBvUle {
			c = a.BigVal().Cmp(b.BigVal())
		} else {
			c = a.SignedVal().Cmp(b.SignedVal())
		}
		if op == OBvUlt || op == OBvSlt {
			return Bool(c < 0)
		}
		return Bool(c <= 0)
	}
	if a == b {
		return Bool(op == OBvUle || op == OBvSle)
	}
	w := a.Sort.W
	if op == OBvUlt && isZeroConst(b) {
		return False
	}
	if op == OBvUle && isZeroConst(a) {
		return True
	}
	// compare through ite with constant arms
	if b.IsConst() && a.Op == OIte && a.Args[1].IsConst() && a.Args[2].IsConst() {
		return Ite(a.Args[0], bvCmp(op, a.Args[1], b), bvCmp(op, a.Args[2], b))
	}
	if a.IsConst() && b.Op == OIte && b.Args[1].IsConst() && b.Args[2].IsConst() {
		return Ite(b.Args[0], bvCmp(op, a, b.Args[1]), bvCmp(op, a, b.Args[2]))
	}
	// zero-extended operand against constant (unsigned, or signed with clear top bit)
	if a.Op == OConcat && isZeroConst(a.Args[0]) && b.IsConst() {
		hz := a.Args[0].Sort.W
		lw := w - hz
		bv := b.BigVal()
		signedNeg := (op == OBvSlt || op == OBvSle) && bv.Bit(w-1) == 1
		if signedNeg {
			return False // a >= 0 > b
		}
		if bv.BitLen() > lw {
			return True
		}
		rest := Concat(a.Args[1:]...)
		uop := op
		if op == OBvSlt {
			uop = OBvUlt
		}
		if op == OBvSle {
			uop = OBvUle
		}
		return bvCmp(uop, rest, BVConstBig(lw, bv))
	}
	if b.Op == OConcat && isZeroConst(b.Args[0]) && a.IsConst() {
		hz := b.Args[0].Sort.W
		lw := w - hz
		av := a.BigVal()
		signedNeg := (op == OBvSlt || op == OBvSle) && av.Bit(w-1) == 1
		if signedNeg {
			return True
		}
		if av.BitLen() > lw {
			return False
		}
		rest := Concat(b.Args[1:]...)
		uop := op
		if op == OBvSlt {
			uop = OBvUlt
		}
		if op == OBvSle {
			uop = OBvUle
		}
		return bvCmp(uop, BVConstBig(lw, av), rest)
	}
	return mk(op, BoolSort, "", 0, 0, a, b)
}

func BvUlt(a, b *Term) *Term { return bvCmp(OBvUlt, a, b) }
func BvUle(a, b *Term) *Term { return bvCmp(OBvUle, a, b) }
func BvSlt(a, b *Term) *Term { return bvCmp(OBvSlt, a, b) }
func BvSle(a, b *Term) *Term { return bvCmp(OBvSle, a, b) }

// ---------- integers ----------

func addB(a, b *big.Int) *big.Int {
	if a == nil || b == nil {
		return nil
	}
	return new(big.Int).Add(a, b)
}
func subB(a, b *big.Int) *big.Int {
	if a == nil || b == nil {
		return nil
	}
	return new(big.Int).Sub(a, b)
}

func IAdd(a, b *Term) *Term {
	if a.IsConst() && b.IsConst() {
		return IntConst(new(big.Int).Add(a.Big, b.Big))
	}
	if a.IsConst() && a.Big.Sign() == 0 {
		return b
	}
	if b.IsConst() && b.Big.Sign() == 0 {
		return a
	}
	if a.IsConst() || (!b.IsConst() && a.ID > b.ID) {
		a, b = b, a
	}
	// (x + c1) + c2
	if b.IsConst() && a.Op == OIAdd && a.Args[1].IsConst() {
		return IAdd(a.Args[0], IntConst(new(big.Int).Add(a.Args[1].Big, b.Big)))
	}
	return mkB(OIAdd, IntSort, "", 0, 0, addB(a.Lo, b.Lo), addB(a.Hi, b.Hi), a, b)
}

func ISub(a, b *Term) *Term {
	if b.IsConst() {
		return IAdd(a, IntConst(new(big.Int).Neg(b.Big)))
	}
	if a == b {
		return IntConstI(0)
	}
	return mkB(OISub, IntSort, "", 0, 0, subB(a.Lo, b.Hi), subB(a.Hi, b.Lo), a, b)
}

func INeg(a *Term) *Term { return ISub(IntConstI(0), a) }

func IMul(a, b *Term) *Term {
	if a.IsConst() && b.IsConst() {
		return IntConst(new(big.Int).Mul(a.Big, b.Big))
	}
	if a.IsConst() {
		a, b = b, a
	}
	if b.IsConst() {
		if b.Big.Sign() == 0 {
			return IntConstI(0)
		}
		if b.Big.Cmp(big.NewInt(1)) == 0 {
			return a
		}
	}
	var lo, hi *big.Int
	if a.Lo != nil && a.Hi != nil && b.Lo != nil && b.Hi != nil {
		c := []*big.Int{new(big.Int).Mul(a.Lo, b.Lo), new(big.Int).Mul(a.Lo, b.Hi), new(big.Int).Mul(a.Hi, b.Lo), new(big.Int).Mul(a.Hi, b.Hi)}
		lo, hi = c[0], c[0]
		for _, x := range c[1:] {
			lo, hi = minBig(lo, x), maxBig(hi, x)
		}
	}
	return mkB(OIMul, IntSort, "", 0, 0, lo, hi, a, b)
}

// IDiv / IMod: SMT-LIB euclidean semantics (divisor must be a nonzero constant for folding of bounds).
func IDiv(a, b *Term) *Term {
	if a.IsConst() && b.IsConst() && b.Big.Sign() != 0 {
		q, m := new(big.Int).DivMod(a.Big, b.Big, new(big.Int))
		_ = m
		return IntConst(q)
	}
	if b.IsConst() && b.Big.Sign() > 0 && a.Lo != nil && a.Hi != nil {
		ql := new(big.Int).Div(a.Lo, b.Big)
		qh := new(big.Int).Div(a.Hi, b.Big)
		if ql.Cmp(qh) == 0 {
			return IntConst(ql)
		}
		return mkB(OIDiv, IntSort, "", 0, 0, ql, qh, a, b)
	}
	return mk(OIDiv, IntSort, "", 0, 0, a, b)
}

func IMod(a, b *Term) *Term {
	if a.IsConst() && b.IsConst() && b.Big.Sign() != 0 {
		return IntConst(new(big.Int).Mod(a.Big, b.Big))
	}
	if b.IsConst() && b.Big.Sign() > 0 {
		if a.Lo != nil && a.Hi != nil && a.Lo.Sign() >= 0 && a.Hi.Cmp(b.Big) < 0 {
			return a
		}
		return mkB(OIMod, IntSort, "", 0, 0, big.NewInt(0), new(big.Int).Sub(b.Big, big.NewInt(1)), a, b)
	}
	return mk(OIMod, IntSort, "", 0, 0, a, b)
}

func ILe(a, b *Term) *Term {
	if a.IsConst() && b.IsConst() {
		return Bool(a.Big.Cmp(b.Big) <= 0)
	}
	if a == b {
		return True
	}
	if a.Hi != nil && b.Lo != nil && a.Hi.Cmp(b.Lo) <= 0 {
		return True
	}
	if a.Lo != nil && b.Hi != nil && a.Lo.Cmp(b.Hi) > 0 {
		return False
	}
	return mk(OILe, BoolSort, "", 0, 0, a, b)
}

func ILt(a, b *Term) *Term {
	if a.IsConst() && b.IsConst() {
		return Bool(a.Big.Cmp(b.Big) < 0)
	}
	if a == b {
		return False
	}
	if a.Hi != nil && b.Lo != nil && a.Hi.Cmp(b.Lo) < 0 {
		return True
	}
	if a.Lo != nil && b.Hi != nil && a.Lo.Cmp(b.Hi) >= 0 {
		return False
	}
	return mk(OILt, BoolSort, "", 0, 0, a, b)
}

// App: uninterpreted function application. The declaration is registered globally.
func App(name string, ret Sort, args ...*Term) *Term {
	mu.Lock()
	if _, ok := UFDecls[name]; !ok {
		var sb strings.Builder
		sb.WriteString("(declare-fun " + name + " (")
		for i, a := range args {
			if i > 0 {
				sb.WriteByte(' ')
			}
			sb.WriteString(a.Sort.String())
		}
		sb.WriteString(") " + ret.String() + ")")
		UFDecls[name] = sb.String()
		ufOrder = append(ufOrder, name)
	}
	mu.Unlock()
	return mk(OApp, ret, name, 0, 0, args...)
}

func UFOrder() []string {
	mu.Lock()
	defer mu.Unlock()
	return append([]string(nil), ufOrder...)
}

func Bv2Int(a *Term) *Term {
	if a.IsConst() {
		return IntConst(a.BigVal())
	}
	return mkB(OBv2Int, IntSort, "", 0, 0, big.NewInt(0), bigMask(a.Sort.W), a)
}

func Int2Bv(a *Term, w int) *Term {
	if a.IsConst() {
		return BVConstBig(w, a.Big)
	}
	if a.Op == OBv2Int && a.Args[0].Sort.W == w {
		return a.Args[0]
	}
	return mk(OInt2Bv, BV(w), "", w, 0, a)
}

// ---------- printing ----------

func constString(t *Term) string {
	switch t.Sort.K {
	case KBool:
		if t.U == 1 {
			return "true"
		}
		return "false"
	case KInt:
		if t.Big.Sign() < 0 {
			return "(- " + new(big.Int).Neg(t.Big).String() + ")"
		}
		return t.Big.String()
	}
	w := t.Sort.W
	if w%4 == 0 {
		s := t.BigVal().Text(16)
		return "#x" + strings.Repeat("0", w/4-len(s)) + s
	}
	s := t.BigVal().Text(2)
	return "#b" + strings.Repeat("0", w-len(s)) + s
}

// Ref is how a term is referred to inside other terms once defined.
func (t *Term) Ref() string {
	switch t.Op {
	case OConst:
		return constString(t)
	case OVar:
		return t.Name
	}
	return "t" + strconv.FormatInt(t.ID, 10)
}

// Def returns the body of the term (referring to children by Ref).
func (t *Term) Def() string {
	var sb strings.Builder
	switch t.Op {
	case OExtract:
		fmt.Fprintf(&sb, "((_ extract %d %d) %s)", t.P1, t.P2, t.Args[0].Ref())
		return sb.String()
	case OSext:
		fmt.Fprintf(&sb, "((_ sign_extend %d) %s)", t.P1, t.Args[0].Ref())
		return sb.String()
	case OZext:
		fmt.Fprintf(&sb, "((_ zero_extend %d) %s)", t.P1, t.Args[0].Ref())
		return sb.String()
	case OInt2Bv:
		fmt.Fprintf(&sb, "((_ int2bv %d) %s)", t.P1, t.Args[0].Ref())
		return sb.String()
	case OApp:
		if len(t.Args) == 0 {
			return t.Name
		}
		sb.WriteString("(" + t.Name)
	default:
		sb.WriteString("(" + opNames[t.Op])
	}
	for _, a := range t.Args {
		sb.WriteByte(' ')
		sb.WriteString(a.Ref())
	}
	sb.WriteByte(')')
	return sb.String()
}

// Size returns the DAG size of the term.
func (t *Term) Size() int {
	seen := map[*Term]bool{}
	var rec func(*Term)
	rec = func(x *Term) {
		if seen[x] {
			return
		}
		seen[x] = true
		for _, a := range x.Args {
			rec(a)
		}
	}
	rec(t)
	return len(seen)
}

// String renders the full term as an s-expression (for diagnostics; exponential on DAGs, so capped).
func (t *Term) String() string {
	var sb strings.Builder
	budget := 400
	var rec func(*Term)
	rec = func(x *Term) {
		if budget <= 0 {
			sb.WriteString("…")
			return
		}
		budget--
		switch x.Op {
		case OConst:
			sb.WriteString(constString(x))
			return
		case OVar:
			sb.WriteString(x.Name)
			return
		case OExtract:
			fmt.Fprintf(&sb, "((_ extract %d %d) ", x.P1, x.P2)
			rec(x.Args[0])
			sb.WriteByte(')')
			return
		case OSext:
			fmt.Fprintf(&sb, "((_ sign_extend %d) ", x.P1)
			rec(x.Args[0])
			sb.WriteByte(')')
			return
		case OApp:
			sb.WriteString("(" + x.Name)
		default:
			sb.WriteString("(" + opNames[x.Op])
		}
		for _, a := range x.Args {
			sb.WriteByte(' ')
			rec(a)
		}
		sb.WriteByte(')')
	}
	rec(t)
	return sb.String()
}
