package smt

import (
	"bufio"
	"fmt"
	"io"
	"math/big"
	"os"
	"os/exec"
	"strconv"
	"strings"
	"time"
)

type Result int

const (
	Unsat Result = iota
	Sat
	Unknown
)

func (r Result) String() string { return [...]string{"unsat", "sat", "unknown"}[r] }

// Solver drives one live solver process (z3 -in style) with push/pop.
type Solver struct {
	Cmd       []string
	cmd       *exec.Cmd
	in        io.WriteCloser
	out       *bufio.Reader
	defined   []map[int64]bool // per level: term ids defined
	declared  []map[string]bool
	ufs       []map[string]bool
	TimeoutMs int
	Queries   int
	NSat      int
	NUnsat    int
	NUnknown  int
	Seconds   float64
	Log       io.Writer // optional transcript
	Errors    []string
	MaxQuery  float64
}

func NewSolver(cmdline []string, timeoutMs int) (*Solver, error) {
	s := &Solver{Cmd: cmdline, TimeoutMs: timeoutMs}
	if err := s.start(); err != nil {
		return nil, err
	}
	return s, nil
}

func (s *Solver) start() error {
	s.cmd = exec.Command(s.Cmd[0], s.Cmd[1:]...)
	in, err := s.cmd.StdinPipe()
	if err != nil {
		return err
	}
	out, err := s.cmd.StdoutPipe()
	if err != nil {
		return err
	}
	s.cmd.Stderr = os.Stderr
	if err := s.cmd.Start(); err != nil {
		return err
	}
	s.in = in
	s.out = bufio.NewReaderSize(out, 1<<16)
	s.defined = []map[int64]bool{{}}
	s.declared = []map[string]bool{{}}
	s.ufs = []map[string]bool{{}}
	s.send("(set-option :print-success false)")
	if strings.Contains(s.Cmd[0], "z3") {
		s.send(fmt.Sprintf("(set-option :timeout %d)", s.TimeoutMs))
	} else {
		s.send("(set-logic ALL)")
	}
	return nil
}

func (s *Solver) Close() {
	if s.cmd != nil {
		s.in.Close()
		done := make(chan struct{})
		go func() { s.cmd.Wait(); close(done) }()
		select {
		case <-done:
		case <-time.After(2 * time.Second):
			s.cmd.Process.Kill()
		}
		s.cmd = nil
	}
}

func (s *Solver) send(line string) {
	if s.Log != nil {
		fmt.Fprintln(s.Log, line)
	}
	io.WriteString(s.in, line)
	io.WriteString(s.in, "\n")
}

func (s *Solver) Level() int { return len(s.defined) - 1 }

func (s *Solver) Push() {
	s.send("(push 1)")
	s.defined = append(s.defined, map[int64]bool{})
	s.declared = append(s.declared, map[string]bool{})
	s.ufs = append(s.ufs, map[string]bool{})
}

func (s *Solver) Pop() {
	s.send("(pop 1)")
	s.defined = s.defined[:len(s.defined)-1]
	s.declared = s.declared[:len(s.declared)-1]
	s.ufs = s.ufs[:len(s.ufs)-1]
}

func (s *Solver) PopTo(level int) {
	for s.Level() > level {
		s.Pop()
	}
}

func (s *Solver) isDefined(id int64) bool {
	for _, m := range s.defined {
		if m[id] {
			return true
		}
	}
	return false
}

func (s *Solver) isDeclared(n string) bool {
	for _, m := range s.declared {
		if m[n] {
			return true
		}
	}
	return false
}

func (s *Solver) isUF(n string) bool {
	for _, m := range s.ufs {
		if m[n] {
			return true
		}
	}
	return false
}

// define makes sure t (and its sub-terms) are defined in the solver; iterative post-order.
func (s *Solver) define(t *Term) {
	type fr struct {
		t *Term
		i int
	}
	if t.Op == OConst {
		return
	}
	stack := []fr{{t, 0}}
	for len(stack) > 0 {
		f := &stack[len(stack)-1]
		x := f.t
		if x.Op == OConst || (x.Op != OVar && s.isDefined(x.ID)) || (x.Op == OVar && s.isDeclared(x.Name)) {
			stack = stack[:len(stack)-1]
			continue
		}
		if f.i < len(x.Args) {
			c := x.Args[f.i]
			f.i++
			if c.Op != OConst {
				stack = append(stack, fr{c, 0})
			}
			continue
		}
		top := len(s.defined) - 1
		switch x.Op {
		case OVar:
			s.send("(declare-const " + x.Name + " " + x.Sort.String() + ")")
			s.declared[top][x.Name] = true
			if x.Sort.K == KInt {
				if x.Lo != nil {
					s.send("(assert (<= " + constString(IntConst(x.Lo)) + " " + x.Name + "))")
				}
				if x.Hi != nil {
					s.send("(assert (<= " + x.Name + " " + constString(IntConst(x.Hi)) + "))")
				}
			}
		default:
			if x.Op == OApp && !s.isUF(x.Name) {
				s.send(UFDecls[x.Name])
				s.ufs[top][x.Name] = true
			}
			s.send("(define-fun " + x.Ref() + " () " + x.Sort.String() + " " + x.Def() + ")")
			s.defined[top][x.ID] = true
		}
		stack = stack[:len(stack)-1]
	}
}

// Define makes the term known to the solver (declarations/definitions only).
func (s *Solver) Define(t *Term) { s.define(t) }

func (s *Solver) Assert(t *Term) {
	if t.Sort.K != KBool {
		panic("assert non-bool")
	}
	s.define(t)
	s.send("(assert " + t.Ref() + ")")
}

func (s *Solver) readLine() (string, error) {
	l, err := s.out.ReadString('\n')
	return strings.TrimSpace(l), err
}

// Check runs (check-sat). Any "(error" output makes the answer Unknown.
func (s *Solver) Check() Result {
	t0 := time.Now()
	s.send("(check-sat)")
	res := Unknown
	for {
		l, err := s.readLine()
		if err != nil {
			s.Errors = append(s.Errors, "solver died: "+err.Error())
			// restart so that later queries are inconclusive rather than hanging
			s.cmd = nil
			_ = s.start()
			break
		}
		if l == "" {
			continue
		}
		if strings.HasPrefix(l, "(error") {
			s.Errors = append(s.Errors, l)
			continue // the check-sat answer still follows
		}
		switch l {
		case "sat":
			res = Sat
		case "unsat":
			res = Unsat
		case "unknown", "timeout":
			res = Unknown
		default:
			s.Errors = append(s.Errors, "unexpected solver output: "+l)
			continue
		}
		break
	}
	if len(s.Errors) > 0 {
		res = Unknown
	}
	d := time.Since(t0).Seconds()
	s.Seconds += d
	if d > s.MaxQuery {
		s.MaxQuery = d
	}
	s.Queries++
	switch res {
	case Sat:
		s.NSat++
	case Unsat:
		s.NUnsat++
	default:
		s.NUnknown++
	}
	return res
}

// CheckWith: push, assert extra, check, pop.
func (s *Solver) CheckWith(extra ...*Term) Result {
	for _, e := range extra {
		s.define(e) // definitions stay at the enclosing level: they are reused by later queries of the path
	}
	s.Push()
	for _, e := range extra {
		s.Assert(e)
	}
	r := s.Check()
	s.Pop()
	return r
}

// GetValues returns constant terms for the given terms under the current model (must follow a Sat Check
// in the same scope).
func (s *Solver) GetValues(ts []*Term) ([]*Term, error) {
	out := make([]*Term, len(ts))
	for i, t := range ts {
		if t.IsConst() {
			out[i] = t
			continue
		}
		s.define(t)
		s.send("(get-value (" + t.Ref() + "))")
		txt, err := s.readSexp()
		if err != nil {
			return nil, err
		}
		if strings.HasPrefix(txt, "(error") {
			return nil, fmt.Errorf("get-value: %s", txt)
		}
		// ((ref value))
		inner := strings.TrimSpace(txt)
		inner = strings.TrimPrefix(inner, "((")
		inner = strings.TrimSuffix(inner, "))")
		idx := strings.IndexAny(inner, " \n\t")
		if idx < 0 {
			return nil, fmt.Errorf("get-value parse: %s", txt)
		}
		val := strings.TrimSpace(inner[idx:])
		c, err := parseConst(val, t.Sort)
		if err != nil {
			return nil, fmt.Errorf("get-value parse %q: %v", txt, err)
		}
		out[i] = c
	}
	return out, nil
}

func (s *Solver) readSexp() (string, error) {
	var sb strings.Builder
	depth := 0
	started := false
	for {
		b, err := s.out.ReadByte()
		if err != nil {
			return sb.String(), err
		}
		if !started && (b == '\n' || b == ' ' || b == '\r') {
			continue
		}
		sb.WriteByte(b)
		if b == '(' {
			depth++
			started = true
		} else if b == ')' {
			depth--
			if depth == 0 {
				return sb.String(), nil
			}
		} else if !started {
			// atom line
			rest, err := s.out.ReadString('\n')
			sb.WriteString(rest)
			return strings.TrimSpace(sb.String()), err
		}
	}
}

func parseConst(v string, sort Sort) (*Term, error) {
	v = strings.TrimSpace(v)
	switch sort.K {
	case KBool:
		if v == "true" {
			return True, nil
		}
		if v == "false" {
			return False, nil
		}
	case KBV:
		if strings.HasPrefix(v, "#x") {
			n, ok := new(big.Int).SetString(v[2:], 16)
			if ok {
				return BVConstBig(sort.W, n), nil
			}
		}
		if strings.HasPrefix(v, "#b") {
			n, ok := new(big.Int).SetString(v[2:], 2)
			if ok {
				return BVConstBig(sort.W, n), nil
			}
		}
		if strings.HasPrefix(v, "(_ bv") {
			f := strings.Fields(strings.Trim(v, "()"))
			n, ok := new(big.Int).SetString(strings.TrimPrefix(f[1], "bv"), 10)
			if ok {
				return BVConstBig(sort.W, n), nil
			}
		}
	case KInt:
		neg := false
		if strings.HasPrefix(v, "(-") {
			neg = true
			v = strings.TrimSpace(strings.TrimSuffix(strings.TrimPrefix(v, "(-"), ")"))
		}
		n, ok := new(big.Int).SetString(v, 10)
		if ok {
			if neg {
				n.Neg(n)
			}
			return IntConst(n), nil
		}
	}
	return nil, fmt.Errorf("cannot parse %q as %v", v, sort)
}

func (s *Solver) Stats() string {
	return "queries=" + strconv.Itoa(s.Queries) + " sat=" + strconv.Itoa(s.NSat) + " unsat=" + strconv.Itoa(s.NUnsat) +
		" unknown=" + strconv.Itoa(s.NUnknown) + fmt.Sprintf(" seconds=%.2f", s.Seconds)
}
