package smt

// Subst rebuilds t with variables replaced by the constants in env, through the folding constructors, so
// a fully assigned term without uninterpreted functions evaluates to a constant.
func Subst(t *Term, env map[*Term]*Term, memo map[*Term]*Term) *Term {
	if t.Op == OConst {
		return t
	}
	if r, ok := memo[t]; ok {
		return r
	}
	var r *Term
	if t.Op == OVar {
		if v, ok := env[t]; ok {
			r = v
		} else {
			r = t
		}
		memo[t] = r
		return r
	}
	args := make([]*Term, len(t.Args))
	changed := false
	for i, a := range t.Args {
		args[i] = Subst(a, env, memo)
		if args[i] != a {
			changed = true
		}
	}
	if !changed {
		memo[t] = t
		return t
	}
	switch t.Op {
	case ONot:
		r = Not(args[0])
	case OAnd:
		r = And(args...)
	case OOr:
		r = Or(args...)
	case OIte:
		r = Ite(args[0], args[1], args[2])
	case OEq:
		r = Eq(args[0], args[1])
	case OBvAdd, OBvSub, OBvMul, OBvUdiv, OBvUrem, OBvAnd, OBvOr, OBvXor, OBvShl, OBvLshr:
		r = bvBin(t.Op, args[0], args[1])
	case OBvAshr:
		r = BvAshr(args[0], args[1])
	case OBvSdiv:
		r = BvSdiv(args[0], args[1])
	case OBvSrem:
		r = BvSrem(args[0], args[1])
	case OBvNot:
		r = BvNot(args[0])
	case OBvNeg:
		r = BvNeg(args[0])
	case OConcat:
		r = Concat(args...)
	case OExtract:
		r = Extract(args[0], t.P1, t.P2)
	case OSext:
		r = Sext(args[0], t.P1)
	case OZext:
		r = Zext(args[0], t.P1)
	case OBvUlt, OBvUle, OBvSlt, OBvSle:
		r = bvCmp(t.Op, args[0], args[1])
	case OIAdd:
		r = IAdd(args[0], args[1])
	case OISub:
		r = ISub(args[0], args[1])
	case OIMul:
		r = IMul(args[0], args[1])
	case OIDiv:
		r = IDiv(args[0], args[1])
	case OIMod:
		r = IMod(args[0], args[1])
	case OILe:
		r = ILe(args[0], args[1])
	case OILt:
		r = ILt(args[0], args[1])
	case OINeg:
		r = INeg(args[0])
	case OApp:
		r = App(t.Name, t.Sort, args...)
	case OBv2Int:
		r = Bv2Int(args[0])
	case OInt2Bv:
		r = Int2Bv(args[0], t.P1)
	default:
		r = t
	}
	memo[t] = r
	return r
}
