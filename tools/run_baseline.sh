#!/bin/bash
# Development aid: runs the repository's own test suite (the command of /root/.vp/BASELINE.json, tag off) on /repo
# and compares with the baseline's stable_pass list.
export GOFLAGS=-mod=mod GOPROXY=off GOSUMDB=off GOTOOLCHAIN=local
out=$(mktemp /tmp/baseline_XXXX.json)
(cd /repo && go test -json -vet=off -count=1 -timeout 25m ./... > "$out" 2>/dev/null)
python3 - "$out" <<'PY'
import json,sys
base=json.load(open('/root/.vp/BASELINE.json'))
want=set(base['stable_pass'])
res={}
for l in open(sys.argv[1]):
    try: d=json.loads(l)
    except: continue
    if d.get('Test') and d.get('Action') in('pass','fail'):
        res[d['Package']+'::'+d['Test']]=d['Action']
missing=[t for t in want if res.get(t)!='pass']
print("stable tests:",len(want),"passing now:",len(want)-len(missing))
print("not passing:",missing)
PY
rm -f "$out"
