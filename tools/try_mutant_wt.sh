#!/bin/bash
# usage: try_mutant_wt.sh <worktree id under /tmp/wt> <n> <property id>... [-- extra verif args]
# Development aid: applies /tmp/wt/<ID>/out/<n>/patch.diff inside the scratch worktree /tmp/wt/<ID> (which must be at
# /repo's HEAD), runs the quick checks against that worktree (VERIF_REPO, evidence kept out of /verif/evidence), and
# reverts. /repo is not touched.
id=$1; n=$2; shift 2
wt=/tmp/wt/$id
cd "$wt" || exit 9
git checkout -q -- .
if ! git apply --check "out/$n/patch.diff" 2>/dev/null; then echo "PATCH-DOES-NOT-APPLY $id/$n"; exit 9; fi
git apply "out/$n/patch.diff"
for p in "$@"; do
  out=$(cd /verif && VERIF_REPO=$wt VERIF_EVIDENCE_DIR=/tmp/wt/evidence-$id timeout 2400 ./bin/verif check "$p" --tier quick $VERIF_EXTRA 2>&1); rc=$?
  echo "== $id/$n :: $p rc=$rc"
  echo "$out" | grep -E "^VIOLATION|^KNOWN|^INCONCLUSIVE|^OK|^SPURIOUS|^UNCONFIRMED|^  harness|^  deadlock" | cut -c1-300 | head -8
done
git checkout -q -- .
