#!/bin/bash
# usage: try_mutant.sh <patch.diff> <property id>...   (applies to /repo, runs quick checks, reverts)
patch=$1; shift
cd /repo || exit 9
if ! git apply --check "$patch" 2>/dev/null; then echo "PATCH-DOES-NOT-APPLY $patch"; exit 9; fi
git apply "$patch"
for p in "$@"; do
  out=$(cd /verif && timeout 1500 ./bin/verif check $p --tier quick 2>&1); rc=$?
  echo "== $patch :: $p rc=$rc"
  echo "$out" | grep -E "^VIOLATION|^KNOWN|^INCONCLUSIVE|^OK|^SPURIOUS|^UNCONFIRMED|^  harness|^  deadlock" | cut -c1-260 | head -8
done
git checkout -- . ; git status --short | head -3
