#!/usr/bin/env python3
# Development aid: copies a confirmed seeded change from /tmp/wt/<ID>/out/<n> to /verif/seeded/<ID>-<k> with meta.json.
# usage: save_seed.py <ID> <n> <k> <needs_to_manifest> <detected_by> [note]
import sys, os, shutil, json, subprocess
pid, n, k, needs, det = sys.argv[1:6]
note = sys.argv[6] if len(sys.argv) > 6 else ""
src = f"/tmp/wt/{pid}/out/{n}"
dst = f"/verif/seeded/{pid}-{k}"
os.makedirs(dst, exist_ok=True)
for f in os.listdir(src):
    p = os.path.join(src, f)
    if os.path.isfile(p) and os.path.getsize(p) < 2_000_000:
        shutil.copy(p, dst)
head = subprocess.check_output(["git", "-C", "/repo", "rev-parse", "--short", "HEAD"]).decode().strip()
json.dump({
    "property": pid,
    "origin": "independent sub-agent given only the property text and a scratch worktree (sixth round; told in one line each which changes of that property already existed)",
    "needs_to_manifest": needs,
    "confirmed": f"in scratch worktree /tmp/wt/confirm at /repo {head}: go build ./... passes with the change; existing tests of the patched package pass with it; the demonstration test fails with it and passes without it (tools/confirm_mutant.sh)",
    "detected_by": det,
    "note": note,
}, open(os.path.join(dst, "meta.json"), "w"), indent=1)
print("saved", dst, os.listdir(dst))
