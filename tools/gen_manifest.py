#!/usr/bin/env python3
"""Regenerates /verif/MANIFEST.json from the table below (kept in one place so it is always valid)."""
import json, subprocess

ENV = "GOFLAGS=-mod=mod GOPROXY=off GOSUMDB=off GOTOOLCHAIN=local"
TECH = "bounded symbolic execution of go/ssa of the real functions -> SMT-LIB2 -> z3 (unsat = holds within bound); sat models replayed natively"

# id -> (level text, level note, design ref)
CLAIMED = {
 "C15": ("For every byte string up to the stated length and every amount in range, the real api.StringToAmount / AmountToString are executed symbolically (strings, strconv, safetype.Uint128 and math/big included) and compared by z3 with a 40-line decimal-grammar reference; unsat on every path = no input inside the bound breaks exactness. Bounded model checking is the right level: the property is over all inputs of a pure function, the defects sit in rare characters (signs) that sampling misses.",
         "Trusted: z3, go/ssa, engine intrinsics for bytealg/math/big (Int theory, Skolem decimal digits). Bound: strings <= 4 bytes (quick). Longer strings are outside the claim.", "5/C15"),
}

CLAIMED["C01"] = ("The real balance and coin-list readers (UtxoStore.ScriptAddressBalance / ScriptAddressUnspents with the record codecs keyCredit, valueUnspentCredit, readCreditValue, canonicalUnspentKey, readBlockOfUnspent ...) run symbolically over a model wallet database holding one or two arbitrary valid credits; z3 decides that totals, the spendable / withdrawable classification and the per-script, per-wallet grouping equal a 20-line oracle transcribing the consensus maturity rule (spendable by block T+1 iff T-h+1 >= lock). An arbitrary stored state stands for the result of any history that maintains the record invariant.",
         "Trusted: z3, go/ssa, the model database. Bound: <=2 credits, 1-2 wallets. Not yet covered (so not claimed): that block connect / reorganisation / rollback maintain the stored state (apply and rollback steps, relevance filter, sync-chain steps; DESIGN 5/C01 T1c/T2) - the claim is about how a stored state is reported, not yet about how histories produce it.", "5/C01")

CLAIMED["C17"] = ("The two readers that every balance, coin-list and transaction-building call goes through (ScriptAddressBalance, ScriptAddressUnspents) are executed symbolically with the commit schedule as symbolic data: the tip height read first and the tip at the moment the coin iterator is created are arbitrary with syncRead <= tipIter, the coin is any coin visible to the iterator. z3 decides that no coin immature at every block boundary of the window is reported spendable/withdrawable or passes the maturity test, and that no coin is counted or listed twice.",
         "Trusted: z3, go/ssa, the model database (iterators are snapshots at creation, point reads are live, as in goleveldb). Not claimed: the second sentence of the property (absence of data races: a happens-before property of goroutines that a sequential symbolic executor cannot decide), reorganisations or spends inside the window, and full single-snapshot semantics of a read transaction (the driver takes no snapshot).", "5/C17")

CLAIMED["C06"] = ("What a restart reads back is decided symbolically on the real store code over the model database: the per-wallet status record that drives resumption (PutWalletStatus / GetWalletStatus / GetAllWalletStatus / MarkDeleteWallet, Ready, IsRemoved) round-trips for every (height, flags), and the synced-to chain (SetSyncedTo / ResetSyncedTo / SyncedTo, shared with C01) accepts exactly the next or current height and leaves exactly the chain up to the pointer, so the persisted resume point is always a fully applied block.",
         "Trusted: z3, go/ssa, model database. This is only the persisted-state half of the property: crash atomicity of one commit is LevelDB's batch write (not encoded), and the start-up catch-up loop, the worker's resume decision and restartable removal (DESIGN 5/C06 T1a second half, T2) are not covered yet. Heights below 2^56 assumed.", "5/C06")

CLAIMED["C08"] = ("The wallet-keyed deletions of a removal (RemoveUnspentByWalletId, RemoveAddressByWalletId, RemoveGameHistoryByWalletId via deleteByPrefix) are executed symbolically over buckets holding a record of the removed wallet next to a record with an arbitrary 42-byte id: z3 decides that no key with the removed id survives and that every other record is byte-identical afterwards.",
         "Trusted: z3, go/ssa, model database. Not covered yet: the credit/debit/transaction-record sweep by script hash (removeRelevantCredit, removableTxForRemoveWallet), keystore bucket deletion, the passphrase and importing gates, restart between removal steps (DESIGN 5/C08 T1b/T1c/T2).", "5/C08")

CLAIMED["C10"] = ("The staking/binding history records (keyGameHistory, keyUnminedGameHistory, readGameHistory, withdrawGame, unwithdrawGame, getRawGameHistoryByWalletId) are executed symbolically for an arbitrary deposit: the key codec round-trips, withdraw followed by un-withdraw restores the single original record, each fails exactly when its source record is absent, and the listing prefixes select by type and withdrawn state. Maturity of staking (frozen+1) and binding outputs is decided under C16; withdrawable classification under C01.",
         "Trusted: z3, go/ssa, model database. Not covered yet: sequence numbers chosen by addTxIn/constructTxIn against the consensus sequence-lock rule and the deposit/withdraw path through AddCredits/Rollback (DESIGN 5/C10 T1b/T2).", "5/C10")

CLAIMED["C18"] = ("Store steps (SetSyncedTo, ResetSyncedTo, PutWalletStatus, MarkDeleteWallet, withdrawGame, RemoveUnspentByWalletId, putRawUnminedInput, ScriptAddressBalance) run symbolically inside the real db.Update with the index of the failing database call as a symbolic integer (none, or the 1st..8th fallible call: begin, get, prefix scan, iterator, commit). z3 decides that whenever the fault occurred the operation returned an error, and that a failed update left every bucket byte-identical.",
         "Trusted: z3, go/ssa, the model database's fault model (put/delete cannot fail inside a write transaction, as in the LevelDB driver; a failed commit writes nothing). Not covered yet: block/reorg processing, keystore cache repair (RemoveCachedKeystore), worker retries, faults inside LevelDB (DESIGN 5/C18 T1a driver half, T2).", "5/C18")

CLAIMED["C19"] = ("Run-time panics (index, slice bounds, nil dereference, failed type assertion, division by zero, explicit panic) are implicit assertions of the symbolic executor, so every harness of every property is also a no-crash check on the code it executes. Dedicated harnesses drive the client-facing input resolution of transaction creation and signing (WalletManager.constructTxIn, signWitnessTx) with an arbitrary client vout and a previous transaction known as mined, only as pending, or unknown (look-ups cut to their contracts), and the API-side script reader (extractAddressInfos, C16 harnesses) and the amount parser (C15 harnesses) on arbitrary bytes. z3 decides that no input inside the bounds reaches a panic.",
         "Trusted: z3, go/ssa, the stated contracts of the cut look-ups (existsMsgTx success implies an output at the index and a block; existsUnminedTx success implies neither). Not covered: the generated gRPC layer, handlers not listed, chain-event paths (filterTx, asyncImport), silent stalls (see C20).", "5/C19")

CLAIMED["C12"] = ("The real AddrManager.nextAddresses and updateManagedAddress (with getChildNum / updateChildNum / putEncryptedPubKey) run symbolically on the model database from an arbitrary state (n = 0..5 addresses issued, arbitrary used-bits, gap limit 2..4): z3 decides that an address is issued exactly when n < G or one of the last G issued indexes is used, that it carries index n, that the stored counter becomes n+1 and the in-memory maps gain exactly that entry, and that a refusal changes nothing. One step from an arbitrary state covers issuing sequences of any length.",
         "Trusted: z3, go/ssa, model database, and the cuts: hdkeychain.Child as an injective tagging that never returns ErrInvalidChild, the address built from a derived key as a function of that key, a public-key encryptor that never fails. Not covered yet: the restore scan (createManagerKeyScope) that must rediscover every used index, the used-flag maintenance in AddCredits/Rollback, the internal branch.", "5/C12")

CLAIMED["C05"] = ("The passphrase gates through which every secret-using operation goes (AddrManager.checkPassword, safelyCheckPassword, signBtcec, over the real snacl.NewSecretKey / DeriveKey) are executed symbolically for a right passphrase and any other candidate, in the locked state and after a successful unlock: z3 decides that every other candidate is refused with ErrInvalidPassphrase, that a refusal leaves the unlock flag, the cached hash and the salt untouched, and that the right passphrase is accepted before and after refused attempts.",
         "Trusted: z3, go/ssa, scrypt / SHA-256 / SHA-512 as uninterpreted functions that do not collide on the two passphrases compared (stated in the harness). Bound: passphrases of 0..3 bytes (the code does not branch on their content). Not covered yet: that no secret reaches the database or an export in clear (two-run non-interference, DESIGN 5/C05 T2), exportKeystore / getMnemonic / changePrivPassphrase gates, memory zeroing.", "5/C05")

CLAIMED["C03"] = ("The passphrase half of the property is decided on the real gate that signing goes through (AddrManager.signBtcec -> checkPassword, shared with C05): any passphrase other than the right one is refused before any key is derived or used, also after a successful unlock, and a refusal alters nothing. The crash-freedom of signWitnessTx's input resolution for pending previous outputs is decided under C19.",
         "Trusted: as C05. NOT claimed: that produced witnesses verify under the consensus script engine (ECDSA and the script VM cannot be encoded) and that only witnesses change - the frame condition of signWitnessTx and the sighash flag table are not covered yet (DESIGN 5/C03 T1a/T2).", "5/C03")

CLAIMED["C20"] = ("The synchronisation skeleton of the block follower (handle), the background worker (worker, asyncImport, asyncRemove, suspend, resume, PushImport/PushRemove) and WalletManager.Stop/NtfnsHandler.Stop/CloseDB is extracted from the go/ssa form of the current source (select, send, receive, close, WaitGroup operations, deferred calls, constant boolean results of skeleton callees; every other branch nondeterministic), channel capacities are read from the constructors, and the product of the goroutine automata with an environment (2 blocks, 2 queued tasks, one Stop) is unrolled into one bit-vector SMT query over scheduler choices. z3 decides that within the bound there is no state after Stop in which a goroutine of the wait group has not finished and no transition is enabled, and that no wait-group counter goes negative. A deadlock trace is confirmed natively (real handle and suspend/resume on real channels) before it is reported.",
         "Trusted: z3 4.8.12, go/ssa, the extraction (printed in the evidence, one line per skeleton edge with source position). Assumes calls without synchronisation operations terminate; database/keystore mutexes are not modelled; Start has run. Bound: 24 scheduler steps (36 thorough). Liveness under fairness and the p2p side that fills the queues are outside the claim.", "2.6, 5/C20")

CLAIMED["C09"] = ("The real UtxoStore/TxStore functions (ScriptAddressUnspents, ExistsUtxo, insertUnminedInputs, putRawUnminedInput, fetchUnminedInputSpendTxHashes and the record codecs they use) run symbolically over a model wallet database whose content is an arbitrary valid credit (any hash, index, height, amount, maturity, class) with or without a pending spender recorded by the real writer; z3 decides that the reported spent-by-pending flag equals the existence of that record. One arbitrary stored state and one step: histories of any length reach the step through the stated record invariant.",
         "Trusted: z3, go/ssa, the model database (entry lists, atomic transactions; not LevelDB). Bound: one coin, one wallet, <=3 pending spenders per outpoint. Not yet covered: settle/conflict/rollback steps (DESIGN 5/C09 T2).", "5/C09")

CLAIMED["C02"] = ("The selection and fee-share kernels of transaction creation (optOutputs, topKSelector.submit/adjust/Items, maybeSubtractFeeFromAmounts) are executed symbolically for every multiset of up to 4 coin amounts, every target, every fee and every subset of fee-bearing recipients and compared by z3 with their specifications (duplicate-free subset, reported sum = sum of selection, sufficient whenever funds suffice, equal rounded-up shares, conservation of the total). Rare amount combinations (ties, a coin just above the target, shares exceeding an output) are exactly what sampling misses.",
         "Trusted: z3, go/ssa, math/big as SMT integers, sort.Slice as insertion sort. Bound: <=4 coins, <=3 outputs, k<=3. Not yet covered: the fee/selection fixed point (autoConstructTxInAndChangeTxOut), the eligibility filter over the store and the manual-input path (DESIGN 5/C02 T1c/T2), so conservation of a whole built transaction is outside this claim.", "5/C02")

CLAIMED["C11"] = ("The write-transaction overlay (ldb batch.Put/Delete/Get/GetNetPutsByPrefix), the store-key construction (innerKey, subBucket, joinBucketPath, isValidBucketName), the uncommitted-write iterator (batchIterator) and db.BytesPrefix are executed symbolically and compared with reference definitions (last-operation-wins list; byte-wise prefix test) for every operation sequence / key / name inside the bounds. These are the pieces on which read-your-writes, bucket isolation and ordered prefix scans rest; they are pure byte and map code, exactly what bounded symbolic execution decides for all byte values (including '_' , digits and 0xff that tests never combine).",
         "Trusted: z3, go/ssa, engine map/sort intrinsics. Not encoded: goleveldb itself (committed store, durability, iterators over committed data, atomic batch write) and the rocksdb driver; the composition of the overlay with committed data through levelBucket.Get/GetByPrefix is covered only as far as both inputs (overlay answer, store key) are verified separately.", "5/C11")

CLAIMED["C16"] = ("The wallet reader utils.ParsePkScript and the consensus reader txscript.ExtractPkScriptAddrs (parseScript, typeOfScript, GetParsedOpcode, address constructors) are executed symbolically on the same script bytes and compared: exact template shapes with every payload, every second-push length 1..40, every proper prefix of the templates, templates with one opcode byte replaced by any byte, every byte string up to 3 bytes (5 in the thorough tier), and the consensus builders read back. Run-time panics of either reader are implicit assertions. Bounded model checking fits: the readers are byte-level parsers whose disagreement needs one specific byte value.",
         "Trusted: z3, go/ssa, engine intrinsics; bech32/base58 address text is an injective abstract encoding (equal inputs <-> equal text), so text equality is decided on the encoded bytes. Outside: arbitrary scripts longer than 5 bytes other than template-shaped ones; address text decoding.", "5/C16")

CLAIMED["C14"] = ("The real hdkeychain Child/Neuter/String/NewKeyFromString are executed symbolically for arbitrary parent keys (private scalar stored in 1..32 bytes, arbitrary chain code, index, depth) with HMAC-SHA512, SHA-256, RIPEMD-160 and secp256k1 as uninterpreted functions and compared with the BIP-32 CKDpriv/CKDpub/serialisation formulas written against the same primitives; z3 decides every assertion on every path. The derivation formulas are pure byte/bignum plumbing around opaque primitives, exactly what bounded symbolic execution decides; the known defect (short parent scalar) is a 1/256 corner that tests with fixed vectors do not reach.",
         "Trusted: z3, go/ssa, intrinsics (math/big as 264-bit vectors, x mod n by Skolem quotient, hashes/curve uninterpreted, base58 injective). Not claimed: correctness of HMAC/curve arithmetic; the ki=0 / IL>=n branches cannot be replayed (need hash pre-images). One derivation step from an arbitrary parent covers paths of any depth by induction on the parent invariant 0<k<n.", "5/C14")

NOT_YET = {}

def main():
    props = [json.loads(l) for l in open('/verif/properties.jsonl')]
    checks, na = [], []
    for p in props:
        pid = p['id']
        if pid in CLAIMED:
            text, note, ref = CLAIMED[pid]
            checks.append({
                "property_id": pid,
                "quick_cmd": f"/verif/bin/verif check {pid} --tier quick",
                "thorough_cmd": f"/verif/bin/verif check {pid} --tier thorough",
                "evidence_file": f"/verif/evidence/{pid}.json",
                "replay_cmd_template": "/verif/bin/verif replay {path}",
                "engine": "syncbmc" if pid == "C20" else "symex",
                "level_claimed": {"category": "model_checking", "text": text, "design_ref": "DESIGN.md section " + ref},
                "level_note": note,
                "technique": TECH,
            })
        else:
            na.append({"property_id": pid, "reason": NOT_YET.get(pid, "no solver-based check registered yet for this property (harnesses under construction; see DESIGN.md section 5)")})
    fixes = subprocess.run(["git", "-C", "/repo", "log", "--format=%h %s", "cafa4e5..HEAD"], capture_output=True, text=True).stdout.strip().splitlines()
    m = {
        "version": 1,
        "setup_cmd": f"cd /verif/engine && {ENV} go build -o /verif/bin/verif ./cmd/verif",
        "hooks": {
            "guard": "verif",
            "enable": "harnesses live under /verif/harness/overlay and are injected with a go/packages overlay and `-tags verif`; nothing guarded is committed in /repo",
            "baseline_off_cmd": "for m in $(cat /w/out/gomods.txt); do MF=$(cd /repo/$m && . /w/out/goenv.sh && gomodflag); (cd /repo/$m && go test $MF -json -vet=off -count=1 -timeout 25m ./...); done",
            "source_commits": [f.split()[0] for f in fixes],
            "add_only": True,
        },
        "engines": [
            {"name": "symex", "path": "/verif/engine", "serves_properties": sorted(k for k in CLAIMED if k != "C20"),
             "kind_free_text": "symbolic executor for go/ssa written for this task: concrete heap shape, symbolic scalar leaves, path forking with solver feasibility checks, SMT-LIB2 to a live z3 process"},
        ],
        "checks": checks,
        "not_applicable": na,
        "notes": "source_commits lists the unguarded `fix:` commits in /repo (genuine defects repaired); there are no guarded hook commits because all instrumentation is overlay-only. Exit codes of a check: 0 held within bounds, 1 VIOLATION (replay-confirmed), 3 INCONCLUSIVE (never reported as held).",
    }
    if "C20" in CLAIMED:
        m["engines"].append({"name": "syncbmc", "path": "/verif/engine", "serves_properties": ["C20"],
                             "kind_free_text": "synchronisation skeleton extracted from go/ssa, unrolled k steps into one SMT query over scheduler choices"})
    json.dump(m, open('/verif/MANIFEST.json', 'w'), indent=1)
    print("claimed", len(checks), "not_applicable", len(na))

main()
