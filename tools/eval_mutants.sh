#!/bin/bash
# Development aid: evaluates every seeded change of /verif/seeded against the quick checks of the given properties.
# usage: eval_mutants.sh <seeded id, e.g. C02-1> <worktree id under /tmp/wt> <property>...
# The scratch worktree /tmp/wt/<wt> must be a worktree of /repo at its HEAD; /repo is not touched.
sid=$1; wtid=$2; shift 2
wt=/tmp/wt/$wtid
cd "$wt" || exit 9
git checkout -q -- . ; git clean -fdq -e out
git apply /verif/seeded/$sid/patch.diff || { echo "PATCH-DOES-NOT-APPLY $sid"; exit 9; }
for p in "$@"; do
  out=$(cd /verif && VERIF_REPO=$wt VERIF_EVIDENCE_DIR=/tmp/wt/evidence-$wtid timeout 3000 ./bin/verif check "$p" --tier quick 2>&1); rc=$?
  echo "== $sid :: $p rc=$rc"
  echo "$out" | grep -E "^VIOLATION|^KNOWN|^INCONCLUSIVE|^OK|^SPURIOUS|^UNCONFIRMED|^  harness|^  deadlock" | cut -c1-260 | head -8
done
git checkout -q -- . ; git clean -fdq -e out
