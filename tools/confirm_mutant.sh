#!/bin/bash
# usage: confirm_mutant.sh <ID> <n> <demo dir rel to repo> <pkg dir of the patched file>
# Confirms a seeded change in the scratch worktree /tmp/wt/confirm: builds with the patch, the demonstration
# fails with it, the existing tests of the patched package pass with it, and the demonstration passes without it.
id=$1; n=$2; demodir=$3; pkgdir=$4
src=/tmp/wt/$id/out/$n
wt=/tmp/wt/confirm
export GOFLAGS=-mod=mod GOPROXY=off GOSUMDB=off
cd $wt || exit 9
git checkout -q -- . ; git clean -fdq -e out
runpat=$(grep -h "^func Test" $src/*_test.go | sed 's/func \(Test[A-Za-z0-9_]*\).*/\1/' | tr '\n' '|' | sed 's/|$//')
echo "### $id/$n demo tests: $runpat"
git apply $src/patch.diff || { echo "RESULT $id/$n patch-does-not-apply"; exit 1; }
if ! go build ./... >/dev/null 2>&1; then echo "RESULT $id/$n build-fails"; git checkout -q -- .; exit 1; fi
(cd $pkgdir && timeout 1500 go test -vet=off -count=1 $( [ "$pkgdir" = "api" ] && echo "-run TestSortAddrAndBalanceList|TestAmountToString|TestStringToAmount" ) . >/tmp/wt/logs/confirm_${id}_${n}_existing.log 2>&1); existing=$?
for f in $src/*_test.go; do
  pk=$(grep -h "^package" $f | head -1 | awk '{print $2}')
  d=$demodir
  if [ "$pk" = "db_test" ]; then d=masswallet/db; fi
  if [ "$pk" = "masswallet" ]; then d=masswallet; fi
  cp $f $d/
done
(cd $demodir && timeout 900 go test -vet=off -count=1 -run "^($runpat)\$" . >/tmp/wt/logs/confirm_${id}_${n}_with.log 2>&1); with=$?
git checkout -q -- .
(cd $demodir && timeout 900 go test -vet=off -count=1 -run "^($runpat)\$" . >/tmp/wt/logs/confirm_${id}_${n}_without.log 2>&1); without=$?
git clean -fdq -e out; git checkout -q -- .
echo "RESULT $id/$n existing_tests_with_change_rc=$existing demo_with_change_rc=$with demo_without_change_rc=$without"
