#!/bin/bash
# Development aid: runs every registered quick check in /verif against /repo, one after another, and prints a summary line per property.
cd /verif
for id in C17 C20 C01 C02 C03 C04 C05 C06 C07 C08 C09 C10 C11 C12 C13 C14 C15 C16 C18 C19; do
  t0=$(date +%s)
  out=$(./bin/verif check $id --tier quick 2>/tmp/verif_sweep_$id.err); rc=$?
  echo "$id rc=$rc $(( $(date +%s) - t0 ))s :: $(echo "$out" | grep -E '^OK|^VIOLATION|^INCONCLUSIVE|^KNOWN|^SPURIOUS|^UNCONFIRMED' | cut -c1-200 | tr '\n' '|')"
done
